"""C07 / C05 translator tie: `coarsen_grid` (versions 0, 1, 2), the collision dictionary of RefinementObjectExtendSplit and
the clamp / enlarged-scheme prefix of `evaluate_operation_area_complete_flexibel` are regenerated from the CURRENT
spatiallyAdaptiveExtendSplit.py / RefinementObject.py on every run (tools/py2lean, specs extendsplit.json, refobj_es.json)
and tied to Properties/C07gen.lean by the generic engine harness/gen_tie.py.

On a broken tie the fresh definitions are evaluated next to the hand model (extendsplit_gen_diff.lean); the disagreeing
(version, dim, lmin, lmax, c) become fresh-area passes and histories of the unchanged C07 harness (correspondence + oracle),
followed by a sweep over all versions; with mod = None (C05) only the tie is checked and reported."""
import os
import re
import time

import gen_tie

HERE = os.path.dirname(os.path.abspath(__file__))
TIE = gen_tie.Tie(
    "extend-split",
    [("refobj_es.json", "RefObjESGen"), ("extendsplit.json", "ExtendSplitGen")],
    r"ExtendSplitGen\w*\.lean", "C07gen",
    diff_driver=os.path.join(HERE, "extendsplit_gen_diff.lean"),
    build_target="SparseSpace.Properties.C07gen",
    trusted=("translator tie (extend-split logic): tools/py2lean, the interface declarations tools/py2lean/specs/extendsplit.json and "
             "refobj_es.json (state attributes, members of RefinementObjectExtendSplit / CombiScheme that are used, the assumption version in "
             "{0,1,2}, fuel `coarsening` of the while loops, the prefix of evaluate_operation_area_complete_flexibel that is translated) and the "
             "helper semantics of Model/PyRt.lean are trusted; cross-checked by the unchanged correspondence test on the real Python"))


def run(ctx, drv, mod):
    """mod: the c07 module (gen_case, run_history, run_pass_case) or None"""
    info = TIE.check(ctx)
    if info["status"] not in ("translation-failed", "proof-failed") or mod is None or drv is None:
        return info
    t1 = time.time()
    found_before, tried = len(ctx.violations), 0
    wanted = []
    for line in info.get("disagreements", []):
        m = re.match(r"DIS coarsen_grid version (\d+) dim (\d+) lmin (-?\d+) lmax (-?\d+) c (-?\d+)", line)
        if m:
            wanted.append(tuple(int(x) for x in m.groups()))
    from sparseSpACE.combiScheme import CombiScheme
    for ver, dim, lmin, lmax, c in wanted[:12]:            # fresh-area passes at the disagreeing parameters
        lvs = [[int(x) for x in g.levelvector] for g in CombiScheme(dim).getCombiScheme(lmin, lmax, do_print=False)]
        pc = {"kind": "pass", "version": ver, "dim": dim, "lmin": lmin, "lmax": lmax, "c": c, "lvs": lvs}
        mod.run_pass_case(ctx, drv, pc)
        ctx.count("gen-tie_directed_pass")
        ctx.case(pc, nontrivial=True)
    versions = [v for v in dict.fromkeys(w[0] for w in wanted)] or []
    flex = any(l.startswith("DIS flex") for l in info.get("disagreements", []))
    order = versions + [v for v in (0, 1, 2) if v not in versions]
    for rep in range(3):
        for ver in order:
            if len(ctx.violations) > found_before or time.time() - t1 > 60:
                break
            case = None
            for _ in range(200):
                cand, nr = mod.gen_case(ctx, False, 0)
                if cand["version"] == ver and (not flex or cand["auto"]):
                    case = cand
                    break
            if case is None:
                continue
            if flex:
                case.update(script=False, boundary=False)     # estimates then request coarsening values below 0 ("beyond lmax")
            tried += 1
            ctx.count("gen-tie_directed_history")
            try:
                ok, case = mod.run_history(ctx, drv, case, None, nr, False)
                ctx.case(case, nontrivial=len(case.get("rounds", [])) > 0)
            except Exception:
                import traceback
                ctx.corr_break("gen-tie/directed-exception", case, traceback.format_exc()[-1500:])
    info.update(directed_tried=tried, directed_found=len(ctx.violations) - found_before)
    return info
