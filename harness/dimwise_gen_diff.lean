import GenScratch.DimWiseGen
import SparseSpace.Model.DimWise
import SparseSpace.Generated.CombiGen
/-!
Directed search used by `harness/dimwise_gen.py` when the translator tie of the dimension-wise logic is broken: runs
the FRESHLY generated definitions (`GenScratch.DimWiseGen`, namespace `SparseSpace.GenDW`) next to the hand model on a
box of small inputs and prints where they disagree:

    DIS <function> version <V> dim <n> d <d> ...

The harness then runs refinement histories of exactly these versions / dimensions on the real implementation.
Interpreted with `lean --run`; not part of the library.
-/
open SparseSpace

def toObj (x : Ival) : GenDW.RefinementObjectSingleDimension := { levels := [(x.l0 : Int), (x.l1 : Int)], coarsening_level := x.c }
def toCont (objs : List Ival) : GenDW.RefinementContainer := { get_objects := objs.map toObj }
def iv (l0 l1 : Nat) : Ival := ⟨0, 0, l0, l1, 0⟩

/-- level patterns of refinement trees (interval end levels) -/
def trees : List (List Ival) :=
  [[iv 0 2, iv 2 1, iv 1 2, iv 2 0],
   [iv 0 2, iv 2 1, iv 1 3, iv 3 2, iv 2 0],
   [iv 0 3, iv 3 2, iv 2 3, iv 3 1, iv 1 2, iv 2 0],
   [iv 0 2, iv 2 3, iv 3 1, iv 1 4, iv 4 3, iv 3 2, iv 2 0],
   [iv 0 1, iv 1 3, iv 3 2, iv 2 4, iv 4 3, iv 3 0]]

def mcsOf : Nat → List (List Int)
  | 2 => [[0, 0], [1, 0], [0, 2], [2, 2], [3, 1], [1, 4]]
  | _ => [[0, 0, 0], [1, 0, 2], [2, 2, 2], [0, 3, 1], [4, 1, 0], [1, 1, 5]]

def main : IO Unit := do
  let mut found := 0
  -- get_max_level
  for objs in trees do
    for i in List.range objs.length do
      let g : GenDW.State := { (default : GenDW.State) with version := 6, dim := 2, lmax := [5, 5], lmin := [1, 1], max_level_dict := [] }
      let a := GenDW.get_max_level g (toCont objs) (toObj (objs.getD i (iv 0 0))) i 0
      if a != (maxLevel objs i : Int) && found < 40 then
        IO.println s!"DIS get_max_level version 0 dim 0 d 0 tree {objs.map (fun x => (x.l0, x.l1))} i {i}"
        found := found + 1
  -- update_coarsening_values
  for objs in trees do
    for lm in [(2 : Int), 3, 5] do
      let g : GenDW.State := { (default : GenDW.State) with version := 6, dim := 2, lmax := [lm, lm], lmin := [1, 1] }
      let r := GenDW.update_coarsening_values g (toCont objs) 1
      let h := setCoarsening lm objs
      if (r.2 != updateDim h || r.1.get_objects.map (·.coarsening_level) != h.map (·.c)) && found < 40 then
        IO.println s!"DIS update_coarsening_values version 0 dim 0 d 1 tree {objs.map (fun x => (x.l0, x.l1))} lmax {lm}"
        found := found + 1
  -- raise_lmax (scheme object of the class generated in CombiGen.lean)
  for n in [2, 3] do
    for (lmin, lmax) in [((1 : Int), (2 : Int)), (1, 3), (2, 3)] do
      for d in List.range n do
        for v in [(1 : Int), 2] do
          let c := Gen.init_adaptive_combi_scheme (Gen.__init__ n) lmax lmin
          let g0 : GenDW.State := default
          let g : GenDW.State := { g0 with version := 6, dim := n, lmax := List.replicate n lmax, lmin := List.replicate n lmin, dim_adaptive := true, combischeme := c }
          let r := GenDW.raise_lmax g d v
          let lmax' := (List.replicate n lmax).set d (lmax + v)
          let cs : CS := { dim := n, lmin := lmin, lmax := lmax, lmaxAd := c.lmax_adaptive, active := c.active_index_set, old := c.old_index_set }
          let h := raiseLoop lmax' lmin (raiseFuel lmax' lmin n) cs
          if (r.lmax != lmax' || r.combischeme.active_index_set != h.1.active || r.combischeme.old_index_set != h.1.old) && found < 40 then
            IO.println s!"DIS raise_lmax version 0 dim {n} d {d} lmin {lmin} lmax {lmax} value {v}"
            found := found + 1
  -- get_subtraction_value (includes modify_according_to_levelvec)
  for v in ([2, 3, 6, 7, 8] : List Nat) do
    let mut perVersion := 0
    for n in [2, 3] do
      for d in List.range n do
        for lmin in [(1 : Int), 2] do
          for lmax in [(3 : Int), 5, 7] do
            for mcs in mcsOf n do
              for objs in trees.take 3 do
                for i in List.range objs.length do
                  for l in [lmin, lmin + 1, lmin + 2, lmax - 1, lmax, lmax + 1] do
                    if perVersion < 4 then
                      let g0 : GenDW.State := default
                      let g : GenDW.State := { g0 with version := (v : Int), dim := n, lmax := List.replicate n lmax, lmin := List.replicate n lmin, max_level_dict := [] }
                      let lv := List.replicate n l
                      let r := GenDW.get_subtraction_value g (toObj (objs.getD i (iv 0 0))) (toCont objs) i mcs d lv
                      let h := subValue v n d v3Exact lmin lmax mcs (maxLevel objs i) l
                      if r.2 != h.1 then
                        IO.println s!"DIS get_subtraction_value version {v} dim {n} d {d} lmin {lmin} lmax {lmax} mcs {mcs} ml {maxLevel objs i} l {l} gen {r.2} model {h.1}"
                        perVersion := perVersion + 1
                        found := found + 1
  IO.println s!"DONE {found}"
