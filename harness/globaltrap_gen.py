"""C09 (C04, C15) translator tie: `GlobalTrapezoidalGrid.compute_weights` and `compute_1D_quad_weights` are regenerated from
the CURRENT sparseSpACE/Grid.py on every run (tools/py2lean, spec globaltrap.json; floats as exact rationals) and tied to
Properties/C09gen.lean by the generic engine harness/gen_tie.py.

On a broken tie the fresh definitions and the hand model `Model/GlobalQuad.computeWeights` are evaluated on a family of
grids (1-9 points, uniform and graded towards either end, two intervals, plain and modified basis;
globaltrap_gen_diff.lean); the smallest disagreeing grids become 1-D trapezoid cases of the unchanged C09 harness
(correspondence with the hand model + the independent plIntegral oracle); with mod = None only the tie is checked."""
import os
import re
import time

import gen_tie

HERE = os.path.dirname(os.path.abspath(__file__))
TIE = gen_tie.Tie(
    "global-trapezoid", [("globaltrap.json", "GlobalTrapGen")], r"GlobalTrapGen\w*\.lean", "C09gen",
    diff_driver=os.path.join(HERE, "globaltrap_gen_diff.lean"), build_target="SparseSpace.Properties.C09gen",
    trusted=("translator tie (global trapezoidal weights): tools/py2lean, the interface declaration tools/py2lean/specs/globaltrap.json "
             "(grid points and interval ends as exact rationals, np.zeros(n) as a list of n zeros, the final print and self-assert of "
             "compute_weights not executed - the assert is the hand model's sumAssertOk) and the helper semantics of Model/PyRt.lean are "
             "trusted; cross-checked by the unchanged correspondence test on the real Python"))


def run(ctx, drv=None, mod=None):
    """mod: the c09 module (run_case) or None"""
    info = TIE.check(ctx)
    if info["status"] not in ("translation-failed", "proof-failed") or mod is None or drv is None:
        return info
    t1 = time.time()
    found_before, tried = len(ctx.violations) + len(ctx.corr_breaks), 0
    grids = []
    for line in info.get("disagreements", []):
        m = re.match(r"DIS md (\d) a (\S+) b (\S+) pts (.*)", line)
        if m:
            grids.append((int(m.group(1)), m.group(2), m.group(3), m.group(4).split()))
    if not grids:                                          # translation failed or nothing found in Lean: the small grids themselves
        for md in (1, 0):
            for n in (3, 4, 5, 6, 7):
                grids.append((md, "0", "1", ["%d/%d" % (k, n - 1) for k in range(n)]))
    for md, a, b, pts in grids[:12]:
        for bd in ((0,) if md else (0, 1)):
            if len(ctx.violations) + len(ctx.corr_breaks) > found_before or time.time() - t1 > 30:
                break
            n = len(pts)
            case = {"kind": "trap", "a": a, "b": b, "pts": pts, "levels": [0] + [1 + (k % 3) for k in range(n - 2)] + [0] if n >= 2 else [0] * n,
                    "boundary": bd, "modified": md, "vals": [str((3 * k * k) % 7 - 2) for k in range(n)], "levels2": [0] * n,
                    "weighted": 0, "wellformed": 1, "gen_tie_directed": 1}
            tried += 1
            ctx.count("gen-tie_directed_grid")
            try:
                mod.run_case(ctx, drv, case)
            except Exception:
                import traceback
                ctx.corr_break("gen-tie/directed-exception", case, traceback.format_exc()[-1500:])
            ctx.case(case, nontrivial=True)
    info.update(directed_tried=tried, directed_found=len(ctx.violations) + len(ctx.corr_breaks) - found_before)
    return info
