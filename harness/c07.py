"""C07 -- extend-split areas tile the domain and each carries a valid local combination.

Correspondence: scripted refinement histories on the real SpatiallyAdaptiveExtendScheme (every refinement decision
-- which areas, extend or split under automatic_extend_split, which dimensions under split_single_dim -- is either
scripted through public attributes or taken from the implementation and passed to the model as an input) vs.
Model/ExtendSplit through the compiled driver: container listing in order, tree leaves in tree order, lmax,
`coarsen_grid` of every (component grid, area), validity verdict per area, leaf assignment of points; plus a
history-free differential test of `coarsen_grid` on fresh areas (arbitrary level-vector order and coarsening).
Oracle: the clauses of the property evaluated on the implementation's own objects (exact rational arithmetic)."""
import contextlib
import hashlib
import io
import itertools
from fractions import Fraction

import numpy as np

from common import frac_str

CONFIG_LEVELS = [(1, 2), (1, 3), (2, 3), (2, 4)]
DOMAINS = [(0.0, 1.0), (-1.0, 1.0), (2.0, 6.0), (-3.0, 6.0), (0.0, 0.5)]
# scale extremes (dyadic, so everything stays exact): far from the origin on both sides, tiny intervals
EXTREME_DOMAINS = [(4096.0, 4097.0), (-8192.0, -8191.5), (0.0, 2.0 ** -40), (1024.0, 1024.0 + 2.0 ** -10), (-2.0 ** -30, 2.0 ** -30)]


# ------------------------------------------------------------------ implementation side
def _imports():
    import sparseSpACE.spatiallyAdaptiveExtendSplit as es
    from sparseSpACE.Function import Function
    from sparseSpACE.ErrorCalculator import ErrorCalculator
    return es, Function, ErrorCalculator


BTYPES = ["float", "pyint", "npint", "tuple_int", "mixed_int_float", "mixed_float_int"]


def typed_bounds(case):
    """the domain bounds in the Python type the case prescribes (the same box: the model's boxes are rationals).
    Callers pass python ints, tuples, integer numpy arrays or a mixture as naturally as float arrays."""
    bt = case.get("btype", "float")
    A = [float(x) for x in case["a"]]
    B = [float(x) for x in case["b"]]
    if bt != "float":
        assert all(x == int(x) for x in A + B), "integer-typed bounds need integer values"
    if bt == "float":
        return np.array(A), np.array(B)
    if bt == "pyint":
        return [int(x) for x in A], [int(x) for x in B]
    if bt == "npint":
        return np.array([int(x) for x in A], dtype=int), np.array([int(x) for x in B], dtype=int)
    if bt == "tuple_int":
        return tuple(int(x) for x in A), tuple(int(x) for x in B)
    if bt == "mixed_int_float":
        return tuple(int(x) for x in A), [float(x) for x in B]
    if bt == "mixed_float_int":
        return [float(x) for x in A], [int(x) for x in B]
    raise ValueError(bt)


def make_impl(case):
    es, Function, ErrorCalculator = _imports()

    class TableF(Function):
        """an arbitrary function: a pseudo-random dyadic table keyed by the coordinates"""

        def __init__(self, salt):
            super().__init__()
            self.salt = salt

        def output_length(self):
            return 1

        def eval(self, c):
            h = hashlib.sha1((self.salt + repr(tuple(float(x) for x in c))).encode()).digest()
            return (h[0] * 256 + h[1] - 32768) / 256.0

    class Scripted(ErrorCalculator):
        def calc_error(self, refine_object, norm, volume_weights=None):
            return 0.0

    class Hooked(es.SpatiallyAdaptiveExtendScheme):
        """observer only: records what every do_refinement did"""

        def do_refinement(self, area, position):
            objs = self.refinement.get_objects()
            n0 = len(objs)
            r = super().do_refinement(area, position)
            self.verif_log.append((position, area, list(self.refinement.get_objects()[n0:])))
            return r

        # use-site observation: the coarsening value an area carries at the moment coarsen_grid reads it (the error
        # estimates change it temporarily), and what evaluate_operation_area_complete_flexibel was asked for / did
        def coarsen_grid(self, levelvector, area):
            c = int(area.coarseningValue)
            u = self.verif_use
            u["n"] += 1
            if u["min"] is None or c < u["min"][0]:
                u["min"] = (c, [float(x) for x in area.start], [float(x) for x in area.end], [int(x) for x in levelvector])
            if self.verif_flex is not None:
                self.verif_flex["used"].add(c)
                sm = int(sum(int(x) for x in levelvector))
                if self.verif_flex["maxsum"] is None or sm > self.verif_flex["maxsum"]:
                    self.verif_flex["maxsum"] = sm
            return super().coarsen_grid(levelvector, area)

        def evaluate_operation_area_complete_flexibel(self, area, coarsening, *args, **kwargs):
            rec = {"req": int(coarsening), "before": int(area.coarseningValue), "lmax": int(self.lmax[0]), "used": set(),
                   "maxsum": None, "box": ([float(x) for x in area.start], [float(x) for x in area.end])}
            prev = self.verif_flex
            self.verif_flex = rec
            try:
                return super().evaluate_operation_area_complete_flexibel(area, coarsening, *args, **kwargs)
            finally:
                self.verif_flex = prev
                rec["after"] = int(area.coarseningValue)
                if len(self.verif_flexlog) < 4000:
                    self.verif_flexlog.append(rec)

    dim = case["dim"]
    a, b = typed_bounds(case)
    f = TableF(str(case.get("salt", 0)))
    grid = es.TrapezoidalGrid(a, b, boundary=bool(case.get("boundary", True)))
    op = es.Integration(f, grid=grid, dim=dim, reference_solution=None)
    ft = case.get("ftype", "bool")
    flag = (lambda v: bool(v)) if ft == "bool" else ((lambda v: int(bool(v))) if ft == "int" else (lambda v: np.bool_(bool(v))))
    sa = Hooked(a, b, number_of_refinements_before_extend=case["nrbe"], version=case["version"],
                automatic_extend_split=flag(case["auto"]), split_single_dim=flag(case["single"]), operation=op)
    sa.verif_log = []
    reset_use(sa)
    with contextlib.redirect_stdout(io.StringIO()):
        sa.performSpatiallyAdaptiv(case["lmin"], case["lmax"], Scripted(), tol=-1, max_evaluations=-1, do_plot=False,
                                   print_output=False)
    sa.verif_initial = list(sa.refinement.get_objects())
    return sa, f


def preorder_nodes(sa):
    """every object of the refinement tree in preorder, starting from the initial objects and following the objects'
    own `children` lists (with split_single_dim the root's child list is the container, so the root is no entry point)"""
    out = []

    def visit(n):
        out.append(n)
        for c in n.children:
            visit(c)
    for o in sa.verif_initial:
        visit(o)
    return out


def reset_use(sa):
    sa.verif_use = {"n": 0, "min": None}
    sa.verif_flex = None
    sa.verif_flexlog = []


def all_nodes(sa):
    """every area object reachable from the root cell or the container (inner nodes included)"""
    seen, out, stack = set(), [], [sa.root_cell] + list(sa.refinement.get_objects())
    while stack:
        n = stack.pop()
        if id(n) in seen:
            continue
        seen.add(id(n))
        out.append(n)
        stack.extend(n.children)
    return out


def oracle_use(ctx, drv, sa, case, tags, cmp, where):
    """clause 'coarsening values never become negative' at the moment the values are USED: every coarseningValue read by
    coarsen_grid since the last call of this function (evaluation, error estimates of the refinement step), every node
    of the tree now; and the model of evaluate_operation_area_complete_flexibel (value carried / scheme level used)"""
    ok = True
    u = sa.verif_use
    ctx.count("coarsen_grid_reads", u["n"])
    bad = []
    if u["min"] is not None and u["min"][0] < 0:
        bad.append(("coarsen_grid-read-negative-coarseningValue", u["min"][0], u["min"][1], u["min"][2], "component", u["min"][3]))
    for n in all_nodes(sa):
        if n.coarseningValue < 0:
            bad.append(("tree-node-negative-coarseningValue", int(n.coarseningValue), [float(x) for x in n.start], [float(x) for x in n.end]))
            break
    if bad:
        ok = not ctx.violation("coarsening-used", dict(tags, where=where), case, {"failed": [list(map(str, b)) for b in bad[:4]]})
    # model: value carried during the estimate and level of the scheme used, for every distinct (lmax, requested)
    seen = set()
    for rec in sa.verif_flexlog:
        ctx.count("flex_calls")
        if rec["req"] < 0:
            ctx.count("flex_calls_beyond_lmax")
        for cu in sorted(rec["used"]):
            lm = (rec["maxsum"] - (case["dim"] - 1) * case["lmin"]) if rec["maxsum"] is not None else None
            key = (rec["lmax"], rec["req"], cu, lm)
            if key in seen:
                continue
            seen.add(key)
            cmp("flexible-estimate", "%d %s" % (cu, lm), drv.ask("flex %d %d" % (rec["lmax"], rec["req"])))
    reset_use(sa)
    return ok


def fr(x):
    return Fraction(float(x))


def area_str(o):
    return "%s|%s|%d|%d" % (",".join(frac_str(float(x)) for x in o.start), ",".join(frac_str(float(x)) for x in o.end),
                            int(o.coarseningValue), int(o.needExtendScheme))


def tree_leaves(node):
    if node.children == []:
        return [node]
    out = []
    for c in node.children:
        out.extend(tree_leaves(c))
    return out


def kind_of(area, new):
    """what a refinement did, read off its result: ('ext',) or ('split', dims)"""
    if len(new) == 1 and all(float(x) == float(y) for x, y in zip(new[0].start, area.start)) \
            and all(float(x) == float(y) for x, y in zip(new[0].end, area.end)):
        return ("ext", [])
    dims = []
    for d in range(len(area.start)):
        if any(float(o.start[d]) != float(area.start[d]) or float(o.end[d]) != float(area.end[d]) for o in new):
            dims.append(d)
    return ("split", dims)


def run_continue(sa, case):
    """the documented way of continuing a finished run: performSpatiallyAdaptiv with the ORIGINAL lmin / lmax arguments
    and the old container, on the same scheme object (a fresh object cannot be continued: the branch neither sets
    lmin/lmax/scheme nor the root cell).  max_evaluations=1: re-evaluate all areas, no refinement."""
    _, _, ErrorCalculator = _imports()

    class Scripted(ErrorCalculator):
        def calc_error(self, refine_object, norm, volume_weights=None):
            return 0.0

    with contextlib.redirect_stdout(io.StringIO()):
        sa.performSpatiallyAdaptiv(case["lmin"], case["lmax"], Scripted(), tol=-1, max_evaluations=-1, do_plot=False,
                                   print_output=False, refinement_container=sa.refinement)


def run_round(sa, rnd, case):
    """one refinement round of the public loop body (`refine()` then `evaluate_operation()`), the benefits of the
    round scripted so that exactly the positions `rnd['pos']` are selected"""
    objs = sa.refinement.get_objects()
    chosen = set(rnd["pos"])
    for i, o in enumerate(objs):
        o.benefit = 1.0 if i in chosen else 0.0
    sa.benefit_max = 1.0
    for i in sorted(chosen):
        o = objs[i]
        dec = rnd.get("dec", {}).get(str(i))
        if dec is None:
            continue
        if case["auto"] and dec.get("ext") is not None:          # scripted outcome of benefit_extend < benefit_split
            o.parent_info.benefit_extend = 0.0 if dec["ext"] else 1.0
            o.parent_info.benefit_split = 1.0 if dec["ext"] else 0.0
            o.parent_info.num_points_split_parent = 1
            o.parent_info.num_points_extend_parent = 1
        if case["single"] and dec.get("dims") is not None:       # scripted outcome of get_split_dims()
            o.twinErrors = [1.0 if d in dec["dims"] else 0.0 for d in range(case["dim"])]
    sa.verif_log = []
    with contextlib.redirect_stdout(io.StringIO()):
        sa.refine()
        sa.evaluate_operation()
    return list(sa.verif_log)


# ------------------------------------------------------------------ oracle (implementation only)
def leaf_boxes(sa):
    return [([fr(x) for x in o.start], [fr(x) for x in o.end]) for o in sa.refinement.get_objects()]


def oracle_tiling(ctx, sa, case, tags):
    ok = True
    dim = case["dim"]
    A = [fr(x) for x in case["a"]]
    B = [fr(x) for x in case["b"]]
    boxes = leaf_boxes(sa)
    bad = []
    vol = Fraction(0)
    for (s, e) in boxes:
        if len(s) != dim or len(e) != dim or any(not (A[d] <= s[d] < e[d] <= B[d]) for d in range(dim)):
            bad.append(("not-a-box-inside-the-domain", [str(x) for x in s], [str(x) for x in e]))
        v = Fraction(1)
        for d in range(dim):
            v *= e[d] - s[d]
        vol += v
    dom = Fraction(1)
    for d in range(dim):
        dom *= B[d] - A[d]
    if vol != dom:
        bad.append(("volumes-do-not-add-up", str(vol), str(dom)))
    for i in range(len(boxes)):
        for j in range(i + 1, len(boxes)):
            (s1, e1), (s2, e2) = boxes[i], boxes[j]
            if all(max(s1[d], s2[d]) < min(e1[d], e2[d]) for d in range(dim)):
                bad.append(("interiors-overlap", i, j))
                break
    for i, o in enumerate(sa.refinement.get_objects()):
        if o.coarseningValue < 0:
            bad.append(("negative-coarsening", i, int(o.coarseningValue)))
    # the container and the leaves of the refinement tree are the same objects
    tl = tree_leaves(sa.root_cell)
    if sorted(id(o) for o in tl) != sorted(id(o) for o in sa.refinement.get_objects()):
        bad.append(("tree-leaves-differ-from-container", len(tl), len(boxes)))
    if bad:
        ok = not ctx.violation("tiling", tags, case, {"failed": [list(map(str, b)) for b in bad[:5]]})
    return ok


def test_points(ctx, sa, case, n_random):
    """random dyadic points of the domain + points on faces / corners / midpoints of the leaves"""
    r = ctx.rng
    dim = case["dim"]
    A = [float(x) for x in case["a"]]
    B = [float(x) for x in case["b"]]
    pts = set()
    for _ in range(n_random):
        pts.add(tuple(A[d] + (B[d] - A[d]) * r.randrange(0, 65) / 64.0 for d in range(dim)))
    objs = sa.refinement.get_objects()
    for o in r.sample(objs, min(len(objs), 6)):
        s = [float(x) for x in o.start]
        e = [float(x) for x in o.end]
        for _ in range(4):
            pts.add(tuple(r.choice([s[d], e[d], 0.5 * (s[d] + e[d]), s[d] + 0.25 * (e[d] - s[d])]) for d in range(dim)))
        pts.add(tuple(s))
        pts.add(tuple(e))
    return sorted(pts)


def impl_assign(sa, pts):
    """point -> list of leaves whose point list contains it"""
    res = sa.get_points_assignement_to_areas(list(pts))
    m = {}
    for area, plist in res:
        for p in plist:
            m.setdefault(tuple(float(x) for x in p), []).append(area)
    return m


def oracle_assign(ctx, sa, case, tags, pts, m):
    live = set(id(o) for o in sa.refinement.get_objects())
    bad = []
    for p in pts:
        got = m.get(p, [])
        if len(got) != 1:
            bad.append(("assigned-to-%d-leaves" % len(got), p))
            continue
        o = got[0]
        if id(o) not in live:
            bad.append(("assigned-to-a-non-leaf", p))
        if any(not (float(o.start[d]) <= p[d] <= float(o.end[d])) for d in range(case["dim"])):
            bad.append(("assigned-leaf-does-not-contain-the-point", p))
    if bad:
        return not ctx.violation("assignment", tags, case, {"failed": [list(map(str, b)) for b in bad[:5]]})
    return True


def impl_pass(sa, area):
    """the pass of the code over its scheme for one area: [(levelvec, coarse, coefficient, do_compute)]"""
    out = []
    for cg in sa.scheme:
        try:
            lv, do = sa.coarsen_grid(cg.levelvector, area)
            out.append((tuple(int(x) for x in cg.levelvector), tuple(int(x) for x in lv), cg.coefficient, bool(do)))
        except AssertionError:
            out.append((tuple(int(x) for x in cg.levelvector), None, cg.coefficient, None))
    return out


def local_points(area, coarse):
    """grid points of the local trapezoidal grid of (relative) level `coarse` on the area, as exact index tuples
    over the finest dyadic lattice of the area: point d-coordinate = start + (end-start) * i / 2^L"""
    axes = [range(0, 2 ** l + 1) for l in coarse]
    return axes


def oracle_local(ctx, sa, f, case, tags, passes, assigned_ok=True):
    """per area: coefficients of the computed grids containing a grid point sum to 1 at every grid point of the
    area; the combined interpolant reproduces the table at the area's grid points (those the implementation assigns
    to this area)"""
    ok = True
    dim = case["dim"]
    verdicts = []
    objs = sa.refinement.get_objects()
    for ai, area in enumerate(objs):
        sums = {}
        ncomp = 0
        asserted = False
        for (lv, coarse, coeff, do) in passes[ai]:
            if coarse is None:
                asserted = True
                continue
            if not do:
                continue
            ncomp += 1
            sa.grid.setCurrentArea(area.start, area.end, list(coarse))
            for p in set(sa.grid.getPoints()):
                sums[p] = sums.get(p, 0) + coeff
        wrong = [(p, v) for p, v in sums.items() if v != 1]
        valid = (not wrong) and ncomp > 0 and not asserted
        verdicts.append(valid)
        if not valid:
            ok = (not ctx.violation("local-combination", dict(tags, clause="coefficient-sum"), dict(case, area=ai),
                          {"area": area_str(area), "lmax": int(sa.lmax[0]), "computed": [(list(c), k) for (_, c, k, d) in passes[ai] if d],
                           "wrong_points": [(list(map(float, p)), float(v)) for p, v in sorted(wrong)[:4]], "asserted": asserted})) and ok
        # nodal reproduction at the points of this area that the implementation assigns to it
        gp = sorted(sums.keys())
        # (grids without boundary points: __call__ cannot evaluate at points next to the excluded boundary -- the
        # interpolation mesh does not reach it, scipy raises; that is the boundary-off reading of C02/C08, not a C07
        # clause -- so the reproduction part is checked on grids with boundary points only)
        if gp and case.get("boundary", True):
            m = impl_assign(sa, gp)
            mine = [p for p in gp if len(m.get(tuple(float(x) for x in p), [])) == 1 and m[tuple(float(x) for x in p)][0] is area]
            if mine:
                try:
                    with contextlib.redirect_stdout(io.StringIO()):
                        vals = sa(mine)
                except Exception as e:  # the property promises a value at every grid point of the area
                    ok = (not ctx.violation("exception", dict(tags, where="__call__"), dict(case, area=ai),
                                            {"exception": repr(e)[:300], "area": area_str(area)})) and ok
                    continue
                if ai == 0:                    # the same query again: same answer
                    with contextlib.redirect_stdout(io.StringIO()):
                        vals2 = sa(mine)
                    if not np.array_equal(np.asarray(vals), np.asarray(vals2)):
                        ctx.corr_break("C07/__call__-repeated", dict(case, area=ai), {"first": str(vals)[:300], "second": str(vals2)[:300]})
                bad = []
                for p, v in zip(mine, vals):
                    want = f.eval(p)
                    if abs(float(v[0]) - want) > 1e-9 * max(1.0, abs(want)):
                        bad.append((list(map(float, p)), float(v[0]), want))
                if bad:
                    ok = (not ctx.violation("local-combination", dict(tags, clause="reproduction"), dict(case, area=ai),
                                            {"area": area_str(area), "lmax": int(sa.lmax[0]), "wrong_values": bad[:4]})) and ok
                elif not valid:
                    ctx.count("invalid_area_but_reproducing")
                ctx.count("reproduction_points", len(mine))
    return ok, verdicts


# ------------------------------------------------------------------ one history
def init_line(case):
    return "init %d %d %d %d %d %d %d %s %s" % (case["dim"], case["lmin"], case["lmax"], case["nrbe"], case["version"],
                                                int(case["auto"]), int(case["single"]),
                                                ",".join(frac_str(float(x)) for x in case["a"]),
                                                ",".join(frac_str(float(x)) for x in case["b"]))


def fmt_pass_impl(p):
    return ";".join("%s:%s:%d:%d" % (",".join(map(str, lv)), ",".join(map(str, c)), int(k), int(do)) if c is not None
                    else "%s:assert" % ",".join(map(str, lv)) for (lv, c, k, do) in p)


def compare_state(ctx, drv, sa, f, case, tags, cmp, thorough):
    """all observables of one reached state; returns False if the oracle fired"""
    objs = sa.refinement.get_objects()
    snapshot = stored_state(sa)
    cmp("objects", ";".join(area_str(o) for o in objs), drv.ask("objects"))
    # every object of the tree, inner nodes too (a child must not share / overwrite its parent's box or counters)
    nodes = preorder_nodes(sa)
    cmp("nodes", ";".join(area_str(o) for o in nodes), drv.ask("nodes"))
    eff = case["nrbe"] + (case["dim"] if case["single"] else 1)
    cmp("node-options", ";".join("%d|%d|%d" % (int(n.numberOfRefinementsBeforeExtend), int(bool(n.automatic_extend_split)),
                                               int(bool(n.splitSingleDim))) for n in nodes + [sa.root_cell]),
        ";".join(["%d|%d|%d" % (eff, int(bool(case["auto"])), int(bool(case["single"])))] * (len(nodes) + 1)))
    cmp("distinct-dictionaries", str(len(set(id(n.levelvec_dict) for n in nodes))), str(len(nodes)))
    cmp("leaves", ";".join(area_str(o) for o in tree_leaves(sa.root_cell)), drv.ask("leaves"))
    cmp("lmax", str(int(sa.lmax[0])) if len(set(int(x) for x in sa.lmax)) == 1 else str(list(sa.lmax)), drv.ask("lmax"))
    cmp("popArray", "[" + ",".join(str(int(x)) for x in sa.refinement.popArray) + "]", drv.ask("pop"))
    cmp("scheme", ";".join("%s:%d" % (",".join(str(int(x)) for x in cg.levelvector), int(cg.coefficient)) for cg in sa.scheme)
        if all(float(cg.coefficient) == int(cg.coefficient) for cg in sa.scheme) else "non-integer coefficient", drv.ask("scheme"))
    cmp("model-invariant", "1", drv.ask("wf"))
    ok = oracle_tiling(ctx, sa, case, tags)
    if not ok:
        return False  # areas that are not boxes tiling the domain: the remaining observables are meaningless
    # coarsen_grid of every (component grid, area)
    passes = []
    for ai, area in enumerate(objs):
        model_pure = drv.ask("computed %d" % ai)
        p = impl_pass(sa, area)
        passes.append(p)
        cmp("coarsen_grid-pass", fmt_pass_impl(p), model_pure)
    # the stateful single calls on a sample of areas (dictionary mutation mirrored call by call)
    for ai in ctx.rng.sample(range(len(objs)), min(len(objs), 3 if not thorough else 6)):
        for cg in sa.scheme:
            arg = [int(x) for x in cg.levelvector]
            try:
                lv, do = sa.coarsen_grid(cg.levelvector, objs[ai])
                impl = "%s|%d" % (",".join(str(int(x)) for x in lv), int(do))
                for j in range(len(lv)):      # the caller may do what it likes with the returned list
                    lv[j] = lv[j] + 1
            except AssertionError:
                impl = "assert"
            cmp("coarsen_grid", impl, drv.ask("cg %d %s" % (ai, ",".join(str(int(x)) for x in cg.levelvector))))
            cmp("coarsen_grid-leaves-its-argument-alone", str([int(x) for x in cg.levelvector]), str(arg))
            try:                              # the same query again: same answer
                lv, do = sa.coarsen_grid(cg.levelvector, objs[ai])
                impl2 = "%s|%d" % (",".join(str(int(x)) for x in lv), int(do))
            except AssertionError:
                impl2 = "assert"
            cmp("coarsen_grid-repeated", impl2, drv.ask("cg %d %s" % (ai, ",".join(str(int(x)) for x in cg.levelvector))))
    ok_local, verdicts = oracle_local(ctx, sa, f, case, tags, passes)
    ok = ok and ok_local
    for ai in range(len(objs)):
        cmp("local-valid-verdict", "1" if verdicts[ai] else "0", drv.ask("valid %d" % ai))
    ctx.count("areas_checked", len(objs))
    ctx.count("areas_invalid", sum(1 for v in verdicts if not v))
    # leaf assignment
    pts = test_points(ctx, sa, case, 12 if not thorough else 30)
    pts_arg = list(pts)
    m = impl_assign(sa, pts_arg)
    cmp("assignment-leaves-its-argument-alone", str(pts_arg), str(list(pts)))
    m2 = impl_assign(sa, list(pts))
    cmp("assignment-repeated", str(sorted((p, [id(a) for a in v]) for p, v in m2.items())),
        str(sorted((p, [id(a) for a in v]) for p, v in m.items())))
    ok = oracle_assign(ctx, sa, case, tags, pts, m) and ok
    for p in pts:
        got = m.get(p, [])
        impl = "none" if len(got) == 0 else ("%s|%s" % (",".join(frac_str(float(x)) for x in got[0].start),
                                                        ",".join(frac_str(float(x)) for x in got[0].end)) if len(got) == 1 else "multiple")
        cmp("assign", impl, drv.ask("assign " + ",".join(frac_str(x) for x in p)))
    ctx.count("points_assigned", len(pts))
    # all of the above were queries: nothing stored may have changed
    cmp("queries-are-pure", stored_state(sa), snapshot)
    return ok


def stored_state(sa):
    """what the object has stored: the areas (all nodes), their values, the combined result, lmax, the scheme"""
    parts = [";".join(area_str(o) for o in sa.refinement.get_objects()), ";".join(area_str(o) for o in preorder_nodes(sa)),
             str([None if o.value is None else [float(x) for x in np.atleast_1d(o.value)] for o in sa.refinement.get_objects()]),
             str([float(x) for x in np.atleast_1d(sa.operation.integral)]), str([int(x) for x in sa.lmax]),
             str([(tuple(int(x) for x in cg.levelvector), float(cg.coefficient)) for cg in sa.scheme]),
             str(list(sa.refinement.popArray))]
    return " # ".join(parts)


def gen_round(ctx, sa, case):
    """a scripted round for the current implementation state"""
    r = ctx.rng
    objs = sa.refinement.get_objects()
    n = len(objs)
    ncont = sum(1 for x in case["rounds"] if x.get("continue"))
    if int(sa.lmax[0]) > case["lmax"] and ncont < 2 and r.random() < 0.3:
        return {"continue": True}
    x = r.random()
    nspecial = sum(1 for y in case["rounds"] if y.get("toggle") or y.get("continue2") or y.get("restart"))
    if nspecial < 3 and case["rounds"]:
        if x < 0.10:
            return {"toggle": r.choice(TOGGLES), "arg": r.randrange(50)}
        if x < 0.14:
            return {"continue2": True}
        if x < 0.16:
            return {"restart": True}
    k = r.choice([1, 1, 1, 2, 2, 3]) if n > 1 else 1
    if r.random() < 0.05:
        k = min(n, 6)
    pos = sorted(r.sample(range(n), min(k, n)))
    # prefer areas that lead somewhere new: bias towards recently created and towards coarsening 0
    if r.random() < 0.4:
        pos = sorted(set(pos[:-1] + [r.randrange(max(0, n - 2 ** case["dim"]), n)]))
    dec = {}
    for i in pos:
        d = {}
        if case["auto"] and case["script"]:
            d["ext"] = r.random() < 0.5
        if case["single"] and case["script"]:
            dims = [x for x in range(case["dim"]) if r.random() < 0.5]
            if not dims:
                dims = [r.randrange(case["dim"])]
            d["dims"] = dims
        if d:
            dec[str(i)] = d
    return {"pos": pos, "dec": dec}


def estimator_exception(ctx, tags, case, e, where):
    """an exception of the implementation on a valid input is a violation with a replayable case.  Inside the region of
    the known finding (versions 1/2 with lmin >= 2: invalid local schemes => inconsistent point counts => the asserts of
    set_extend_benefit / set_split_benefit) it is reported under the probe of that finding."""
    import traceback
    ctx.count("impl_exception_%s_%s" % (where, type(e).__name__))
    lst = ctx.extra.setdefault("impl_exceptions", [])
    if len(lst) < 3:
        lst.append({"case": case, "traceback": traceback.format_exc()[-700:]})
    if tags["version"] in (1, 2) and tags["lmin"] >= 2 and isinstance(e, AssertionError):
        return ctx.violation("local-combination", dict(tags, clause="estimator-assertion"), case, {"exception": repr(e)[:300], "where": where})
    return ctx.violation("exception", dict(tags, where=where), case, {"exception": repr(e)[:300],
                                                                      "traceback": traceback.format_exc()[-500:]})


TOGGLES = ["points_component_grid", "points_and_weights", "reinit_new_objects", "reset_dictionary", "total_num_points"]


def run_toggle(ctx, drv, sa, f, name, arg, cmp):
    """rarely used public calls in the middle of a sequence; none of them may change what C07 observes"""
    objs = sa.refinement.get_objects()
    with contextlib.redirect_stdout(io.StringIO()):
        if name == "points_component_grid":
            # a single component grid queried OUT of scheme order: coarsen_grid of that level vector on every area
            # (this changes who owns a coarsened level vector in levelvec_dict); mirrored call by call in the model
            # (the implementation's dictionaries hold a complete in-order pass from the last observation; bring the
            # model's dictionaries, which only follow single `cg` calls, to the same state first)
            for ai, area in enumerate(objs):
                for g in sa.scheme:
                    try:
                        lv, do = sa.coarsen_grid(g.levelvector, area)
                        impl = "%s|%d" % (",".join(str(int(x)) for x in lv), int(do))
                    except AssertionError:
                        impl = "assert"
                    cmp("coarsen_grid", impl, drv.ask("cg %d %s" % (ai, ",".join(str(int(x)) for x in g.levelvector))))
            cg = sa.scheme[arg % len(sa.scheme)]
            sa.get_points_component_grid_not_null(cg.levelvector)
            for ai, area in enumerate(objs):
                try:
                    lv, do = sa.coarsen_grid(cg.levelvector, area)
                    impl = "%s|%d" % (",".join(str(int(x)) for x in lv), int(do))
                except AssertionError:
                    impl = "assert"
                cmp("coarsen_grid-out-of-order", impl, drv.ask("cg %d %s" % (ai, ",".join(str(int(x)) for x in cg.levelvector))))
        elif name == "points_and_weights":
            sa.get_points_and_weights()
        elif name == "reinit_new_objects":
            sa.refinement.reinit_new_objects()
        elif name == "reset_dictionary":
            f.reset_dictionary()
        elif name == "total_num_points":
            sa.get_total_num_points()


def run_history(ctx, drv, case, rounds=None, nrounds=0, thorough=False):
    """rounds=None: draw them from the rng (they depend on the implementation's current number of areas)"""
    tags = {"version": case["version"], "lmin": case["lmin"], "dim": case["dim"], "auto": int(case["auto"]),
            "single": int(case["single"]), "btype": case.get("btype", "float"), "boundary": int(bool(case.get("boundary", True)))}
    case = dict(case, rounds=[])
    ok = True

    def cmp(obs, impl, model):
        nonlocal ok
        if impl != model:
            ok = False
            ctx.corr_break("C07/" + obs, dict(case, rounds=list(case["rounds"])), {"impl": str(impl)[:600], "model": str(model)[:600]})

    def cur():
        return dict(case, rounds=list(case["rounds"]))

    def observe(where):
        """use-site oracle + all observables of the reached state; an exception of the implementation while it is being
        observed is a violation, not a harness crash"""
        nonlocal ok
        try:
            ok = oracle_use(ctx, drv, sa, cur(), tags, cmp, where) and ok
            ok = compare_state(ctx, drv, sa, f, cur(), tags, cmp, thorough) and ok
        except Exception as e:
            if isinstance(e, RuntimeError) and "model driver" in str(e):
                raise
            estimator_exception(ctx, tags, cur(), e, "observe-after-" + where)
            ok = False
        reset_use(sa)

    # (b) a sibling object of the same class is alive and works in between (other version / options, same level vectors)
    sib = None
    if case.get("sibling"):
        # same boxes, levels and splitting rule (equal keys), other coarsening version and integrand
        sc = dict(case, version=(case["version"] + 1) % 3, auto=False, script=True, salt=case.get("salt", 0) + 1, sibling=False, boundary=True)
        try:
            sib, _ = make_impl(sc)
            sib_case = sc
        except Exception as e:
            estimator_exception(ctx, tags, dict(case), e, "sibling-init")
            return False, case
    try:
        sa, f = make_impl(case)
    except Exception as e:  # the property promises a state for every configuration of its quantifier
        estimator_exception(ctx, tags, dict(case), e, "init")
        return False, case
    cmp("init", "ok", drv.ask(init_line(case)))
    observe("init")
    i = 0
    while ok:
        if rounds is None:
            if i >= nrounds or len(sa.refinement.get_objects()) > (60 if not thorough else 150):
                break
            rnd = gen_round(ctx, sa, case)
        else:
            if i >= len(rounds):
                break
            rnd = rounds[i]
        i += 1
        case["rounds"].append(rnd)
        if rnd.get("continue") or rnd.get("continue2") or rnd.get("restart") or rnd.get("toggle"):
            kind = "continue" if rnd.get("continue") else ("continue2" if rnd.get("continue2") else ("restart" if rnd.get("restart") else "toggle"))
            try:
                if kind == "continue":
                    # continuation of the finished run; the model's state simply continues (lmax is part of the state)
                    run_continue(sa, case)
                elif kind == "continue2":
                    with contextlib.redirect_stdout(io.StringIO()):
                        sa.continue_adaptive_refinement(tol=-1, max_evaluations=-1)
                elif kind == "restart":
                    # a second run on the same object starts from scratch
                    _, _, ErrorCalculator = _imports()

                    class Scripted(ErrorCalculator):
                        def calc_error(self, refine_object, norm, volume_weights=None):
                            return 0.0
                    with contextlib.redirect_stdout(io.StringIO()):
                        sa.performSpatiallyAdaptiv(case["lmin"], case["lmax"], Scripted(), tol=-1, max_evaluations=-1,
                                                   do_plot=False, print_output=False)
                    sa.verif_initial = list(sa.refinement.get_objects())
                    cmp("restart", "ok", drv.ask(init_line(case)))
                else:
                    run_toggle(ctx, drv, sa, f, rnd["toggle"], rnd.get("arg", 0), cmp)
            except Exception as e:
                estimator_exception(ctx, tags, cur(), e, kind)
                ok = False
                break
            ctx.count("op_" + kind + ("_" + rnd["toggle"] if kind == "toggle" else ""))
            if kind == "continue":
                ctx.count("op_continue_lmax_grown_by_%d" % min(3, int(sa.lmax[0]) - case["lmax"]))
            observe(kind)
            continue
        if sib is not None:
            # the sibling does the same round FIRST (as far as its container allows), with queries on all its areas
            try:
                n = len(sib.refinement.get_objects())
                pos = [p_ for p_ in rnd["pos"] if p_ < n]
                dec = {k_: ({"dims": v_["dims"]} if "dims" in v_ else {}) for k_, v_ in rnd.get("dec", {}).items() if int(k_) < n}
                if sib_case["single"]:
                    for p_ in pos:
                        dec.setdefault(str(p_), {"dims": [0]})
                        dec[str(p_)].setdefault("dims", [0])
                if pos:
                    run_round(sib, {"pos": pos, "dec": dec}, sib_case)
                for area in sib.refinement.get_objects()[:8]:
                    impl_pass(sib, area)
                with contextlib.redirect_stdout(io.StringIO()):
                    sib([tuple(0.5 * (float(x) + float(y)) for x, y in zip(case["a"], case["b"]))])
                ctx.count("sibling_rounds")
            except Exception as e:
                estimator_exception(ctx, tags, cur(), e, "sibling-round")
                ok = False
                break
        try:
            log = run_round(sa, rnd, case)
        except Exception as e:
            # the error-estimator machinery of automatic_extend_split / split_single_dim raised: no state to compare
            try:
                ok = oracle_use(ctx, drv, sa, cur(), tags, cmp, "refine-aborted") and ok
            except Exception:
                pass
            if estimator_exception(ctx, tags, cur(), e, "refine"):
                ok = False
            break
        if [p for (p, _, _) in log] != rnd["pos"]:
            cmp("refined-positions", str([p for (p, _, _) in log]), str(rnd["pos"]))
            break
        for (p, area, new) in log:
            kind, dims = kind_of(area, new)
            ctx.count("op_" + kind + ("_%ddims" % len(dims) if kind == "split" else ""))
            impl = "ext" if kind == "ext" else "split %d" % len(new)
            cmp("refine-result", impl, drv.ask("refine %d %d %s" % (p, 1 if kind == "ext" else 0,
                                                                 ",".join(map(str, dims)) if dims else "-")))
        cmp("endround", "ok", drv.ask("endround"))
        observe("refine")
        if sib is not None and ok:
            # the sibling queries again after this object worked; then this object must still be what it was
            before = stored_state(sa)
            try:
                for area in sib.refinement.get_objects()[:8]:
                    impl_pass(sib, area)
            except Exception as e:
                estimator_exception(ctx, tags, cur(), e, "sibling-query")
                ok = False
                break
            cmp("sibling-leaves-this-object-alone", stored_state(sa), before)
            observe("sibling-worked")
    return ok, case


# ------------------------------------------------------------------ history-free test of coarsen_grid
def run_pass_case(ctx, drv, pc):
    es, _, _ = _imports()
    from sparseSpACE.RefinementObject import RefinementObjectExtendSplit
    dim = pc["dim"]
    a = np.zeros(dim)
    b = np.ones(dim)
    grid = es.TrapezoidalGrid(a, b, boundary=True)
    from sparseSpACE.Function import FunctionLinear
    op = es.Integration(FunctionLinear([1.0] * dim), grid=grid, dim=dim)
    sa = es.SpatiallyAdaptiveExtendScheme(a, b, version=pc["version"], operation=op)
    sa.lmin = [pc["lmin"]] * dim
    sa.lmax = [pc["lmax"]] * dim
    area = RefinementObjectExtendSplit(a, b, grid, coarseningValue=pc["c"])
    impl = []
    for lv in pc["lvs"]:
        try:
            c, do = sa.coarsen_grid(np.array(lv, dtype=int), area)
            impl.append("%s|%d" % (",".join(str(int(x)) for x in c), int(do)))
        except AssertionError:
            impl.append("assert")
    # oracle on the implementation alone: what an area of coarsening c computes under the scheme (lmin, lmax) -- reachable by
    # a history whenever 0 <= c <= lmax - lmin (start at lmax - c, extend one area c times) -- must be a valid combination:
    # at every point level t below some computed grid the coefficients of the computed grids >= t sum to 1
    if pc.get("scheme_order") and 0 <= pc["c"] <= pc["lmax"] - pc["lmin"] and "assert" not in impl:
        from sparseSpACE.combiScheme import CombiScheme
        coeffs = [int(g.coefficient) for g in CombiScheme(dim).getCombiScheme(pc["lmin"], pc["lmax"], do_print=False)]
        comp = []
        for s_, k in zip(impl, coeffs):
            lvs_, do = s_.split("|")
            if do == "1":
                comp.append((tuple(int(x) for x in lvs_.split(",")), k))
        badt = None
        if not comp:
            badt = ("nothing-computed",)
        else:
            seen_t = set()
            for (v, _) in comp:
                for t in itertools.product(*[range(0, x + 1) for x in v]):
                    if t in seen_t:
                        continue
                    seen_t.add(t)
                    sm = sum(k for (w, k) in comp if all(w[d] >= t[d] for d in range(dim)))
                    if sm != 1:
                        badt = (t, sm)
                        break
                if badt:
                    break
        if badt is not None:
            ctx.violation("local-combination", {"version": pc["version"], "lmin": pc["lmin"], "dim": dim, "auto": 0, "single": 0,
                                                "clause": "coefficient-sum", "where": "fresh-area"}, pc,
                          {"computed": comp[:12], "point_level_and_sum": [str(x) for x in badt]})
    model = drv.ask("pass %d %d %d %d %d %s" % (pc["version"], dim, pc["lmin"], pc["lmax"], pc["c"],
                                               ";".join(",".join(map(str, lv)) for lv in pc["lvs"])))
    if ";".join(impl) != model:
        ctx.corr_break("C07/coarsen_grid-fresh-area", pc, {"impl": ";".join(impl)[:600], "model": model[:600]})
        return False
    return True


def gen_pass_case(ctx):
    r = ctx.rng
    from sparseSpACE.combiScheme import CombiScheme
    dim = r.choice([2, 2, 3, 3, 4])
    lmin = r.choice([1, 1, 2, 3])
    lmax = lmin + r.randint(0, 4 if dim <= 3 else 3)
    c = r.randint(0, lmax - lmin + 1)
    ver = r.choice([0, 0, 1, 2])
    lvs = [[int(x) for x in g.levelvector] for g in CombiScheme(dim).getCombiScheme(lmin, lmax, do_print=False)]
    mode = r.random()
    if mode < 0.4:
        r.shuffle(lvs)
    elif mode < 0.6:
        lvs = lvs + [list(x) for x in r.sample(lvs, min(3, len(lvs)))]
        r.shuffle(lvs)
    return {"kind": "pass", "version": ver, "dim": dim, "lmin": lmin, "lmax": lmax, "c": c, "lvs": lvs}


# ------------------------------------------------------------------ entry points
def gen_case(ctx, thorough, k):
    r = ctx.rng
    dim = r.choice([2, 2, 2, 3] if not thorough else [2, 2, 3, 3])
    lmin, lmax = r.choice(CONFIG_LEVELS)
    version = r.choice([0, 0, 1, 2])
    x = r.random()
    auto = x < 0.3
    single = 0.2 < x < 0.5
    script = r.random() < 0.7
    doms = [r.choice(DOMAINS) for _ in range(dim)] if r.random() < 0.5 else [DOMAINS[0]] * dim
    if r.random() < 0.2:
        doms = [r.choice(EXTREME_DOMAINS + DOMAINS[:2]) for _ in range(dim)]
    integral = all(float(v) == int(v) for d in doms for v in d)
    btype = r.choice(BTYPES[1:]) if integral and r.random() < 0.5 else "float"
    case = {"kind": "history", "dim": dim, "lmin": lmin, "lmax": lmax, "nrbe": r.choice([0, 1, 1, 2]), "version": version,
            "auto": auto, "single": single, "script": script, "a": [d[0] for d in doms], "b": [d[1] for d in doms],
            "salt": r.randrange(1000), "btype": btype, "boundary": r.random() >= 0.25,
            "ftype": r.choice(["bool", "bool", "int", "npbool"]), "sibling": r.random() < 0.12}
    nr = r.randint(1, 6 if dim == 2 else 4) if not thorough else r.randint(2, 9 if dim == 2 else 5)
    return case, nr


def run(ctx):
    thorough = ctx.tier == "thorough"
    ctx.rule = ("scripted extend-split histories on SpatiallyAdaptiveExtendScheme (dim 2-3, (lmin,lmax) in {(1,2),(1,3),(2,3),(2,4)}, "
                "versions 0-2, number_of_refinements_before_extend 0-2, automatic_extend_split / split_single_dim on or off with scripted "
                "or implementation-made decisions, 1-9 rounds of 1-6 refined areas, dyadic domains); model and implementation compared "
                "after every round (container, tree leaves, lmax, coarsen_grid of every (component, area), validity verdict, leaf "
                "assignment); plus history-free coarsen_grid passes on fresh areas (dim 2-4, shuffled / repeated level vectors). "
                "A case is one history (distinct by configuration + rounds), non-trivial if at least one round was executed.")
    ctx.assumptions = [
        "floating point: domains, midpoints and table values are dyadic, so the implementation's double arithmetic is exact on the generated cases; rounding is not modelled",
        "the decisions the code takes from floating-point error estimates (extend vs split under automatic_extend_split, get_split_dims() under split_single_dim) are INPUTS of the model; the theorems hold for every outcome",
        "a grid point of relative level t of an area lies in the local trapezoidal grid of level v iff t <= v (nestedness of the dyadic local grids, C08); the reproduction clause is proved for every family F with F l = F (l meet k) (nodal tensor interpolation, C02) and checked on the implementation through __call__",
        "theorem v0_local_is_standard speaks of a pass over the scheme on a FRESH area (empty levelvec_dict), which is what evaluate_operation does; repeated passes (__call__) are covered by the per-state comparison of the model's pass from the current dictionary",
        "version 3 of coarsen_grid, noInitialSplitting and dim_adaptive are outside the property's quantifier and not modelled",
    ]
    ctx.extra["monitored_per_state"] = ("localValid (sound executable validity check, theorem localValid_sound) is evaluated by the driver on every area of every "
                                        "explored state for versions 1 and 2; for version 0 validity is a theorem for all histories")
    drv = ctx.driver("drv_c07")
    import extendsplit_gen, sys
    extendsplit_gen.run(ctx, drv, sys.modules[__name__])      # translator tie of coarsen_grid / flexible evaluation (see extendsplit_gen.py)
    budget = 95 if not thorough else 540
    n = 52 if not thorough else 700
    npass = 150 if not thorough else 1500
    # every run: dimension 4 on a non-cubic box far from the origin; a sibling object at work; toggles; second run
    case = {"kind": "history", "dim": 4, "lmin": 1, "lmax": 2, "nrbe": 1, "version": 0, "auto": False, "single": False, "script": True,
            "a": [0.0, -1.0, 4096.0, 2.0], "b": [0.5, 1.0, 4097.0, 6.0], "salt": 4, "btype": "float", "ftype": "int"}
    ok, case = run_history(ctx, drv, case, [{"pos": [5], "dec": {}}], 0, thorough)
    ctx.case(case, nontrivial=True)
    for ver, single in ((0, False), (1, True)):
        case = {"kind": "history", "dim": 2, "lmin": 1, "lmax": 2, "nrbe": 0, "version": ver, "auto": False, "single": single,
                "script": True, "a": [-8192.0, 0.0], "b": [-8191.5, 2.0 ** -40], "salt": 5, "btype": "float", "ftype": "npbool",
                "sibling": True}
        d0 = {"0": {"dims": [1]}} if single else {}
        rounds = [{"pos": [0], "dec": d0}, {"toggle": "points_component_grid", "arg": 1}, {"pos": [1], "dec": ({"1": {"dims": [0, 1]}} if single else {})},
                  {"continue2": True}, {"toggle": "reinit_new_objects"}, {"pos": [2], "dec": ({"2": {"dims": [0]}} if single else {})},
                  {"restart": True}, {"pos": [0], "dec": d0}]
        ok, case = run_history(ctx, drv, case, rounds, 0, thorough)
        ctx.count("sibling_toggle_stream")
        ctx.case(case, nontrivial=True)
    # exhaustive sweep of the parameter box of theorem v12_local_valid_lmin1_bounded (and version 0 on the same box):
    # what an area computes depends only on (version, dim, lmin, lmax, coarsening), so agreement of coarsen_grid on
    # the whole box carries the kernel-checked validity of the model's `computed` over to the implementation
    from sparseSpACE.combiScheme import CombiScheme
    for ver in (0, 1, 2):
        for dim in (2, 3, 4):
            for lmax in range(1, 6):
                lvs = [[int(x) for x in g.levelvector] for g in CombiScheme(dim).getCombiScheme(1, lmax, do_print=False)]
                for c in range(0, lmax + 1):
                    pc = {"kind": "pass", "version": ver, "dim": dim, "lmin": 1, "lmax": lmax, "c": c, "lvs": lvs, "scheme_order": True}
                    run_pass_case(ctx, drv, pc)
                    ctx.count("sweep_lmin1_box")
                    ctx.case(pc, nontrivial=c > 0)
    for k in range(npass):
        pc = gen_pass_case(ctx)
        ok = run_pass_case(ctx, drv, pc)
        ctx.count("pass_version_%d" % pc["version"])
        ctx.case(pc, nontrivial=pc["c"] > 0, sample=pc if k < 1 else None)
        if not ok and len(ctx.corr_breaks) >= ctx.max_reports:
            break
    # every run: both split modes with integer-typed and mixed domain bounds (python ints, tuples, integer numpy arrays)
    for single in (False, True):
        for bt in BTYPES[1:]:
            dom = ctx.rng.choice([(0, 1), (-1, 1), (2, 6), (-3, 6)])
            case = {"kind": "history", "dim": 2, "lmin": 1, "lmax": 2, "nrbe": 1, "version": 0, "auto": False, "single": single,
                    "script": True, "a": [dom[0]] * 2, "b": [dom[1]] * 2, "salt": 0, "btype": bt}
            ok, case = run_history(ctx, drv, case, None, 2, thorough)
            ctx.count("btype_stream_single%d_%s" % (int(single), bt))
            ctx.case(case, nontrivial=len(case["rounds"]) > 0)
    # every run: automatic extend/split decision made by the implementation on grids WITHOUT boundary points (the error
    # estimates then request coarsening values below 0, "beyond lmax"), versions 0-2, with the use-site observation
    for ver in (0, 1, 2):
        for (lmin_, lmax_) in ((1, 2), (1, 3)):
            case = {"kind": "history", "dim": 2, "lmin": lmin_, "lmax": lmax_, "nrbe": 1, "version": ver, "auto": True, "single": False,
                    "script": False, "a": [0.0, 0.0], "b": [1.0, 1.0], "salt": 7, "btype": "float", "boundary": False}
            ok, case = run_history(ctx, drv, case, None, 4, thorough)
            ctx.count("auto_noboundary_stream_v%d" % ver)
            ctx.case(case, nontrivial=len(case["rounds"]) > 0)
    # every run: one area is extended again and again, so lmax grows to lmax0 + 4 while the others lag behind with
    # coarsening 1..4 (coarsening = lmax - lmax0: all of lmax - 1, lmax - 2, lmax - 3 occur), versions 0-2
    for ver in (0, 1, 2):
        for lmax0 in (1, 3):
            case = {"kind": "history", "dim": 2, "lmin": 1, "lmax": lmax0, "nrbe": 0, "version": ver, "auto": False, "single": False,
                    "script": True, "a": [0.0, 0.0], "b": [1.0, 1.0], "salt": 3, "btype": "float"}
            rounds = [{"pos": [0], "dec": {}}] + [{"pos": [3], "dec": {}}] * 3 + [{"restart": True}, {"pos": [1], "dec": {}}]
            ok, case = run_history(ctx, drv, case, rounds, 0, thorough)
            ctx.count("deep_extend_stream_v%d_lmax%d" % (ver, lmax0))
            ctx.case(case, nontrivial=True)
    # every run: finished runs in which lmax has grown are continued (performSpatiallyAdaptiv(..., refinement_container=...))
    # and refined further until lmax has grown three more times, for every coarsening version
    for ver in (0, 1, 2):
        for dim in (2, 3):
            case = {"kind": "history", "dim": dim, "lmin": 1, "lmax": 2, "nrbe": 0, "version": ver, "auto": False, "single": False,
                    "script": True, "a": [0.0] * dim, "b": [1.0] * dim, "salt": 1, "btype": "float"}
            last = 2 ** dim - 1
            rounds = [{"pos": [0], "dec": {}}, {"continue": True}, {"pos": [last], "dec": {}}, {"pos": [last], "dec": {}},
                      {"continue": True}, {"pos": [last], "dec": {}}]
            ok, case = run_history(ctx, drv, case, rounds, 0, thorough)
            ctx.count("continue_stream_v%d_d%d" % (ver, dim))
            ctx.case(case, nontrivial=True)
    for k in range(n):
        if ctx.time_left(budget) < 0:
            break
        case, nr = gen_case(ctx, thorough, k)
        ok, case = run_history(ctx, drv, case, None, nr, thorough)
        ctx.count("dim_%d" % case["dim"])
        ctx.count("version_%d" % case["version"])
        ctx.count("levels_%d_%d" % (case["lmin"], case["lmax"]))
        ctx.count("mode_auto%d_single%d_script%d" % (int(case["auto"]), int(case["single"]), int(case["script"])))
        ctx.count("rounds", len(case["rounds"]))
        ctx.count("btype_" + case.get("btype", "float"))
        ctx.count("boundary_%d" % int(bool(case.get("boundary", True))))
        ctx.case(case, nontrivial=len(case["rounds"]) > 0, sample=case if k < 2 else None)
        # a disagreement alone is not a failing input: keep searching (the oracle runs on every state anyway)
        if len(ctx.violations) >= ctx.max_reports or len(ctx.corr_breaks) >= 40:
            break


def replay(ctx, rp):
    case = rp["case"]
    drv = ctx.driver("drv_c07")
    if case.get("kind") == "pass":
        ok = run_pass_case(ctx, drv, case)
    else:
        case = {k: v for k, v in case.items() if k != "area"}
        ok, _ = run_history(ctx, drv, case, case.get("rounds", []))
    ok = ok and not ctx.violations and not ctx.corr_breaks
    print("replay: %s" % ("property holds and model agrees on this case" if ok and not ctx.known_hits else
                          ("only known findings reproduced" if ok else "REPRODUCED")))
    for fid, (fd, n) in ctx.known_hits.items():
        print("  known finding:", fid, "x%d" % n)
    for v in ctx.violations[:3]:
        print("  violation:", v["probe"], v["tags"], str(v["detail"])[:500])
    for c in ctx.corr_breaks[:3]:
        print("  disagreement:", c["observable"], str(c["detail"])[:500])
    for d in ctx._drivers:
        d.close()
    return 0 if ok else 1
