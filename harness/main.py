import argparse
import importlib
import json
import os
import sys
import traceback

sys.path.insert(0, os.path.dirname(os.path.abspath(__file__)))
import common  # noqa: E402


def main():
    ap = argparse.ArgumentParser()
    ap.add_argument("prop")
    ap.add_argument("--tier", default=os.environ.get("VERIF_TIER", "quick"))
    ap.add_argument("--replay", default=None)
    a = ap.parse_args()
    tier = a.tier if a.tier in ("quick", "thorough") else "quick"
    seed = int(os.environ.get("VERIF_SEED", "0") or 0)
    ctx = common.Ctx(a.prop, tier, seed)
    mod = importlib.import_module(a.prop.lower())
    try:
        common.import_repo()
    except Exception as e:  # the package does not even import: nothing can be shown to hold
        ctx.audit()
        ctx.corr_break("import sparseSpACE", {}, traceback.format_exc()[-2000:])
        sys.exit(ctx.finish())
    if a.replay:
        rp = json.load(open(a.replay))
        sys.exit(mod.replay(ctx, rp))
    ctx.audit()
    ctx.t0 = __import__('time').time()   # time budgets of the harnesses start after the Lean build / audit
    try:
        mod.run(ctx)
    except Exception:
        ctx.corr_break("harness-exception", {}, traceback.format_exc()[-4000:])
    sys.exit(ctx.finish())


if __name__ == "__main__":
    main()
