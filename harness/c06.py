"""C06 -- refinement structures stay well formed under every refinement history.

Correspondence: complete dimension-wise runs (scripted benefits, every refine() step) on the real
SpatiallyAdaptiveSingleDimensions2 vs. Model/RefTree + Model/DimWise: interval lists with levels and coarsening,
lmax, index sets and scheme, cursors, refined positions after EVERY refine().
Oracle: all clauses of C06 evaluated directly on get_refinement_container_for_dim(d).get_objects() and on the
recorded refined positions."""
import dimwise_common as dw

PROP = "C06"


def run(ctx):
    thorough = ctx.tier == "thorough"
    ctx.rule = ("dimension-wise histories: dim 2-3 (thorough 2-4), (lmin,lmax) in {(1,2),(1,3),(2,3),(2,4)}, versions 2,3,6,7,8, "
                "rebalancing on/off with safety factors {0,1/8,1/4,0.1}, boundary on/off, margins {0,1/2,0.9,1,None=default} (expected margin = the value passed to the constructor), dyadic boxes, "
                "3-6 (thorough 4-12) refine() steps with scripted dyadic benefits (single picks, ties, threshold values, zeros, "
                "whole-dimension and many-interval selections, varied non-zero benefits at margin 0); every second history from the directed family deepen (rebalancing on, sf in {0,0.1}, margin 1, deepest intervals + neighbours of one dimension refined repeatedly: rotations and lmax raises by >1 in one step); model and implementation compared after every refine(); "
                "a case is one history, distinct by configuration + benefit script, non-trivial if at least one interval was split")
    drv = ctx.driver("drv_c06")
    import dimwise_gen
    dimwise_gen.run(ctx, drv, PROP, check_points=False)      # translator tie of the dimension-wise logic (see dimwise_gen.py)
    n = 320 if not thorough else 2400
    budget = 75 if not thorough else 560
    first_break = None
    for k in range(n):
        if ctx.time_left(budget) < 0:
            break
        # every second history is from the directed family "deepen" (see dimwise_common.gen_deepen)
        cfg = dw.gen_config(ctx, thorough, False, family=("deepen" if k % 2 == 1 else None))
        h = dw.History(ctx, drv, cfg, PROP, check_points=False)
        try:
            ok = h.run()
        except Exception:
            import traceback
            ctx.corr_break("C06/harness-exception", h.snapshot(), traceback.format_exc()[-3000:])
            ok = False
        ctx.count("family_%s" % cfg.get("family", "random"))
        for key in ("dim", "version", "margin", "sf", "rebalancing", "boundary", "flagrep"):
            ctx.count("%s_%s" % (key, cfg[key]))
        ctx.count("levels_%d_%d" % (cfg["lmin"], cfg["lmax"]))
        ctx.count("steps_done", len(h.case["script"]))
        ctx.case(h.case, nontrivial=h.nontrivial, sample=h.case if k < 2 else None)
        if k == 0:
            dw.malformed_stream(ctx, drv, PROP)
        # a failing input ends the search quickly; after a mere disagreement the search for a failing input goes on
        # (oracles only) for a bounded number of further histories
        if len(ctx.violations) >= ctx.max_reports:
            break
        if ctx.corr_breaks and first_break is None:
            first_break = k
        if first_break is not None and (ctx.violations or k - first_break >= 40):
            break


def replay(ctx, rp):
    case = rp["case"]
    drv = ctx.driver("drv_c06")
    cfg = {k: v for k, v in case.items() if k != "script"}
    h = dw.History(ctx, drv, cfg, PROP, script=case.get("script", []), check_points=False)
    ok = h.run()
    print("replay: %s" % ("property holds and model agrees on this case" if ok else "REPRODUCED"))
    for v in ctx.violations[:3]:
        print("  violation:", v["probe"], str(v["detail"])[:600])
    for c in ctx.corr_breaks[:3]:
        print("  disagreement:", c["observable"], str(c["detail"])[:600])
    for d in ctx._drivers:
        d.close()
    return 0 if ok else 1
