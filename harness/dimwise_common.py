"""Shared history driver of C06 and C03: complete dimension-wise runs of SpatiallyAdaptiveSingleDimensions2 with
scripted benefits, driven refine() by refine(), compared state by state with the Lean model (drv_c06).

Everything observed on the implementation goes through public API / subclassing:
  * benefits are injected by an own ErrorCalculator (constructor argument `errorOperator`);
  * the integrand is a table-backed Function whose values are an integer hash of the dyadic coordinates
    (the same hash is `tableF` in Drive/C06.lean), so all values are exact;
  * the refined positions and the rebalancing calls are recorded by a subclass that only wraps
    `do_refinement` / `rebalance_interval`.
"""
import contextlib
import io
import itertools
import math
import os
import random
from fractions import Fraction

from common import frac_str

VERSIONS = [2, 3, 6, 7, 8]
LEVELS = [(1, 2), (1, 3), (2, 3), (2, 4)]
MARGINS = [0.0, 0.0, 0.5, 0.9, 1.0, None]      # None = constructor default (documented: 0.9)


def eff_margin(cfg):
    """the margin the property speaks of = the value PASSED to the constructor (None means the documented default 0.9);
    it is never read back from the object under test"""
    return 0.9 if cfg["margin"] is None else float(cfg["margin"])
SAFETY = [0.0, 0.125, 0.25, 0.1]

# Known defect of the tree under test (reported in handoff/C03.md, fix staged in handoff/postfix/C03): a second
# performSpatiallyAdaptiv on the same object keeps `max_level_dict` / `subtraction_value_cache` of the previous run until the
# first refinement_postprocessing, so the component grids of the restarted run differ from those of a fresh object.  The
# clauses of C03 still hold on those grids; the model comparison of the grids before the first refine() of a restarted run is
# switched on by the post-fix package.
RESTART_OBSERVE_BEFORE_FIRST_REFINE = os.environ.get("VERIF_DIMWISE_RESTART_STRICT", "1") == "1"

_classes = {}


def classes():
    """build the subclasses lazily (sparseSpACE must be imported from the tree under test first)"""
    if _classes:
        return _classes
    import numpy as np
    from sparseSpACE.spatiallyAdaptiveSingleDimension2 import SpatiallyAdaptiveSingleDimensions2
    from sparseSpACE.Function import Function
    from sparseSpACE.ErrorCalculator import ErrorCalculator

    class TableF(Function):
        def __init__(self, seed):
            super().__init__()
            self.seed = seed

        def eval(self, x):
            return float(table_value(self.seed, [Fraction(float(c)) for c in x]))

        def output_length(self):
            return 1

    class Scripted(ErrorCalculator):
        """returns the scripted benefit of an interval, identified by (dimension, start)"""

        def __init__(self):
            super().__init__()
            self.table = {}
            self.calls = 0

        def calc_error(self, refine_object, norm, volume_weights=None):
            self.calls += 1
            return self.table.get((int(refine_object.this_dim), float(refine_object.start)), 0.0)

    class Instr(SpatiallyAdaptiveSingleDimensions2):
        def __init__(self, *a, **k):
            super().__init__(*a, **k)
            self.rec_refined = []
            self.rec_rebalance = []

        def do_refinement(self, area, position):
            self.rec_refined.append((int(position[0]), int(position[1])))
            return super().do_refinement(area, position)

        def rebalance_interval(self, start, end, level, refinement_container):
            self.rec_rebalance.append((int(refinement_container.dim), int(start), int(end), int(level)))
            return super().rebalance_interval(start, end, level, refinement_container)

        def get_point_coord_for_each_dim(self, levelvec):
            # use-site observation: what the consumers (evaluation, interpolation) actually get
            r = super().get_point_coord_for_each_dim(levelvec)
            rec = getattr(self, "rec_grids", None)
            if rec is not None:
                rec.append((tuple(int(x) for x in levelvec), [[float(x) for x in r[0][d]] for d in range(len(r[0]))],
                            [[int(x) for x in r[1][d]] for d in range(len(r[1]))]))
            return r

    _classes.update(TableF=TableF, Scripted=Scripted, Instr=Instr, np=np)
    return _classes


def table_value(seed, xs):
    """integer hash of reduced numerators / denominators, in eighths (mirrors Drive.C06.tableF)"""
    acc = seed
    for d, x in enumerate(xs):
        acc += (x.numerator * 7919 + x.denominator * 104729) * ((d + 1) * 31 + seed)
    return Fraction(acc % 65, 8) - 4


def quiet(fn, *a, **k):
    buf = io.StringIO()
    with contextlib.redirect_stdout(buf):
        return fn(*a, **k)


def fr(x):
    return Fraction(float(x))


def fvec(v):
    return ",".join(frac_str(fr(x)) for x in v) if len(v) else "-"


# ----------------------------------------------------------------------------------------------- implementation

class Impl:
    """one run of the real strategy, stepped by hand: evaluate (in perform/continue), then refine()"""

    def __init__(self, cfg, init_bens=None):
        c = classes()
        np = c["np"]
        from sparseSpACE.Grid import GlobalTrapezoidalGrid
        from sparseSpACE.GridOperation import Integration
        from sparseSpACE.Utils import log_levels, print_levels
        self.cfg = cfg
        self.dim = cfg["dim"]
        self.a = np.array([float(Fraction(x)) for x in cfg["a"]])
        self.b = np.array([float(Fraction(x)) for x in cfg["b"]])
        grid = GlobalTrapezoidalGrid(self.a, self.b, boundary=bool(cfg["boundary"]), modified_basis=False)
        self.f = c["TableF"](cfg["fseed"])
        op = Integration(self.f, grid=grid, dim=self.dim, reference_solution=np.array([1.0]))
        self.ec = c["Scripted"]()
        rep = cfg.get("flagrep", "bool")       # the Python type in which the Boolean options are passed
        conv = {"bool": bool, "int": int, "npbool": np.bool_}[rep]
        if rep != "bool":
            grid = GlobalTrapezoidalGrid(self.a, self.b, boundary=conv(bool(cfg["boundary"])), modified_basis=conv(False))
            op = Integration(self.f, grid=grid, dim=self.dim, reference_solution=np.array([1.0]))
        self.sa = c["Instr"](self.a, self.b, version=cfg["version"], operation=op, margin=(None if cfg["margin"] is None else float(cfg["margin"])),
                             rebalancing=conv(bool(cfg["rebalancing"])), rebalancing_safety_factor=float(cfg["sf"]),
                             log_level=log_levels.WARNING, print_level=print_levels.NONE)
        self.sa.rec_grids = None
        if cfg.get("restart"):
            # a first, unrelated run on the SAME object (other start levels, two refinement steps of its own), then the
            # run under test starts from scratch through performSpatiallyAdaptiv (no refinement_container)
            pre = c["Scripted"]()
            l0, l1 = cfg["restart"]
            quiet(self.sa.performSpatiallyAdaptiv, l0, l1, errorOperator=pre, tol=-1, max_evaluations=0, print_output=False)
            for _ in range(2):
                quiet(self.sa.refine)
                quiet(self.sa.continue_adaptive_refinement, tol=-1, max_evaluations=0)
        if init_bens is not None:
            # benefits of the first evaluation (inside performSpatiallyAdaptiv): the initial intervals are the
            # 2^lmax equal parts of [a_d, b_d]
            n = 2 ** cfg["lmax"]
            for d in range(self.dim):
                lo, hi = Fraction(cfg["a"][d]), Fraction(cfg["b"][d])
                for i in range(n):
                    self.ec.table[(d, float(lo + (hi - lo) * Fraction(i, n)))] = float(init_bens[d][i])
        quiet(self.sa.performSpatiallyAdaptiv, cfg["lmin"], cfg["lmax"], errorOperator=self.ec, tol=-1,
              max_evaluations=0, print_output=False)

    # observations -----------------------------------------------------------------------------------------
    def containers(self):
        return [self.sa.refinement.get_refinement_container_for_dim(d) for d in range(self.dim)]

    def objs(self, d):
        return [(fr(o.start), fr(o.end), int(o.levels[0]), int(o.levels[1]), int(o.coarsening_level))
                for o in self.containers()[d].get_objects()]

    def objs_str(self, d):
        return ",".join("%s:%s:%d:%d:%d" % (frac_str(s), frac_str(e), l0, l1, c) for s, e, l0, l1, c in self.objs(d))

    def cursors_str(self):
        cs = self.containers()
        return "%d [%s] [%s] %s" % (self.sa.refinement.curContainer,
                                    ",".join(str(int(c.searchPosition)) for c in cs),
                                    ",".join(str(int(c.startNewObjects)) for c in cs),
                                    ";".join("[" + ",".join(str(int(p)) for p in c.popArray) + "]" for c in cs))

    def lmax_str(self):
        return "[" + ",".join(str(int(x)) for x in self.sa.lmax) + "]"

    def cs_str(self):
        cs = self.sa.combischeme

        def vs(s):
            return "[" + ",".join("[" + ",".join(str(int(x)) for x in v) + "]" for v in sorted(tuple(int(x) for x in v) for v in s)) + "]"
        return "A %s O %s L %d" % (vs(cs.active_index_set), vs(cs.old_index_set), cs.lmax_adaptive)

    def scheme(self):
        out = []
        for g in self.sa.scheme:
            c = g.coefficient
            out.append((tuple(int(x) for x in g.levelvector), int(c) if float(c) == int(c) else c))
        return out

    def scheme_str(self):
        return "[" + ",".join("[" + ",".join(str(x) for x in lv) + "]:" + str(c) for lv, c in sorted(self.scheme())) + "]"

    def index_set(self):
        cs = self.sa.combischeme
        return sorted(set(tuple(int(x) for x in v) for v in cs.active_index_set) | set(tuple(int(x) for x in v) for v in cs.old_index_set))

    def points(self, lv):
        pc, pl, _ = quiet(self.sa.get_point_coord_for_each_dim, list(lv))
        return [[fr(x) for x in pc[d]] for d in range(self.dim)], [[int(x) for x in pl[d]] for d in range(self.dim)]

    def set_benefits(self, bens):
        """bens[d][i] for the current objects; takes effect at the next evaluation"""
        t = {}
        for d in range(self.dim):
            os_ = self.containers()[d].get_objects()
            assert len(os_) == len(bens[d])
            for o, bv in zip(os_, bens[d]):
                t[(d, float(o.start))] = float(bv)
        self.ec.table = t

    def evaluate_recorded(self, resume=False):
        """evaluation with the component grids recorded where they are used"""
        self.sa.rec_grids = []
        try:
            self.evaluate(resume)
        finally:
            rec, self.sa.rec_grids = self.sa.rec_grids, None
        return rec

    def evaluate(self, resume=False):
        """one evaluation of the current structure; `resume=True`: through the documented resume path
        `performSpatiallyAdaptiv(<same arguments>, refinement_container=<the old container>)`"""
        if resume:
            quiet(self.sa.performSpatiallyAdaptiv, self.cfg["lmin"], self.cfg["lmax"], errorOperator=self.ec, tol=-1,
                  max_evaluations=0, refinement_container=self.sa.refinement, print_output=False)
        else:
            quiet(self.sa.continue_adaptive_refinement, tol=-1, max_evaluations=0)

    def benefits_seen(self):
        return [[o.benefit for o in c.get_objects()] for c in self.containers()]

    def refine(self):
        self.sa.rec_refined = []
        self.sa.rec_rebalance = []
        quiet(self.sa.refine)
        return list(self.sa.rec_refined), list(self.sa.rec_rebalance)

    def manual_refine(self, positions):
        """one refinement step through the public per-object API: the chosen intervals are refined in the GIVEN order
        (`do_refinement(obj, position)`), then `refinement_postprocessing()`"""
        self.sa.rec_refined = []
        self.sa.rec_rebalance = []

        def go():
            self.sa.refinement.clear_new_objects()
            for pos in positions:
                self.sa.do_refinement(self.sa.refinement.get_object(tuple(pos)), tuple(pos))
            self.sa.refinement_postprocessing()
        quiet(go)
        return list(self.sa.rec_refined), list(self.sa.rec_rebalance)

    def call(self, pts):
        np = classes()["np"]
        r = quiet(self.sa, [tuple(float(x) for x in p) for p in pts])
        return [float(np.asarray(v).ravel()[0]) for v in r]


# ----------------------------------------------------------------------------------------------- oracles (C06)

def nearest_lower_ok(levels):
    """property wording on the full point-level list (ends included): for every inner point, the nearest points of
    lower level to the left and to the right exist and the higher of their levels is exactly one less"""
    n = len(levels)
    for i in range(1, n - 1):
        x = levels[i]
        left = next((levels[j] for j in range(i - 1, -1, -1) if levels[j] < x), None)
        right = next((levels[j] for j in range(i + 1, n) if levels[j] < x), None)
        if left is None or right is None or max(left, right) + 1 != x:
            return False
    return True


def is_tree(b, L):
    """binary refinement tree below level b: empty, or exactly one root b+1 splitting it into two trees"""
    if not L:
        return True
    if L.count(b + 1) != 1:
        return False
    i = L.index(b + 1)
    return is_tree(b + 1, L[:i]) and is_tree(b + 1, L[i + 1:])


def oracle_c06_state(objs, a, b, lmax_d):
    """all state clauses of C06 on one dimension's object list; returns list of failed clause names"""
    bad = []
    if not objs:
        return ["empty"]
    if objs[0][0] != a or objs[-1][1] != b:
        bad.append("ends")
    if objs[0][2] != 0 or objs[-1][3] != 0:
        bad.append("end-levels")
    for k, (s, e, l0, l1, c) in enumerate(objs):
        if not s < e:
            bad.append("ascending")
        if k + 1 < len(objs):
            if objs[k + 1][0] != e:
                bad.append("gap-or-overlap")
            if objs[k + 1][2] != l1:
                bad.append("shared-level")
        if c != lmax_d - max(l0, l1):
            bad.append("coarsening-eq")
        if c < 0:
            bad.append("coarsening-negative")
        if max(l0, l1) > lmax_d:
            bad.append("lmax-below-depth")
    full = [objs[0][2]] + [o[3] for o in objs]
    if not nearest_lower_ok(full):
        bad.append("nearest-lower")
    if not is_tree(0, full[1:-1]):
        bad.append("binary-tree")
    return sorted(set(bad))


def float_dec(p, q, n, sf):
    """the comparison of rebalance_interval, in the floats the code uses"""
    return abs((p) / (n - 2) - 0.5) > abs((q) / (n - 2) - 0.5) + sf


def rat_margin(p, q, n, sf):
    m = Fraction(n - 2)
    return abs(Fraction(p) / m - Fraction(1, 2)) - abs(Fraction(q) / m - Fraction(1, 2)) - Fraction(sf)


# ----------------------------------------------------------------------------------------------- generators

def gen_config(ctx, thorough, want_c03, family=None):
    r = ctx.rng
    dim = r.choice([2, 2, 2, 3] if not thorough else [2, 2, 3, 3, 4])
    lmin, lmax = r.choice(LEVELS)
    if dim >= 4:
        lmin, lmax = r.choice(LEVELS[:3])
    a, b = [], []
    for _ in range(dim):
        lo = r.choice([0, 0, -1, -3, Fraction(1, 2), 2])
        w = r.choice([1, 1, 2, Fraction(1, 2), 3, 4])
        if r.random() < 0.12:
            # scale extremes (dyadic, exact in doubles down to the deepest reachable level): far from the origin
            # (|a|/(b-a) up to 2^23), tiny and huge widths
            lo, w = r.choice([(8192, 1), (-8192, 1), (12288, Fraction(1, 1024)), (-4096, Fraction(1, 2048)),
                              (0, Fraction(1, 2 ** 30)), (Fraction(-3, 2 ** 20), Fraction(1, 2 ** 20)), (0, 2 ** 20), (-2 ** 20, 3 * 2 ** 10)])
            ctx.count("box_scale_extreme")
        a.append(str(Fraction(lo)))
        b.append(str(Fraction(lo) + w))
    steps = r.randint(3, 6) if not thorough else r.randint(4, 12)
    if dim >= 4:
        steps = min(steps, 5)
    cfg = {"dim": dim, "lmin": lmin, "lmax": lmax, "a": a, "b": b,
           "version": r.choice(VERSIONS), "rebalancing": r.random() < 0.6, "boundary": r.random() < 0.6,
           "margin": r.choice(MARGINS), "sf": r.choice(SAFETY), "fseed": r.randint(1, 50), "steps": steps}
    # getters / derived values (component grids, __call__) are observed at randomly chosen steps and always at the end,
    # pure attribute reads after every step
    cfg["observe"] = [r.random() < 0.45 for _ in range(steps)]
    # "manual" steps: the selected subset is applied through do_refinement in a seeded random order + postprocessing;
    # "recall" steps: the getters / __call__ are observed again right after refine(), without an evaluation in between
    cfg["manual"] = [r.random() < 0.35 for _ in range(steps)]
    cfg["recall"] = [r.random() < 0.5 for _ in range(steps)]
    cfg["perm_seed"] = r.randint(0, 10 ** 6)
    # "resume" evaluations: the evaluation before step k goes through performSpatiallyAdaptiv(refinement_container=old)
    cfg["resume"] = [r.random() < 0.3 for _ in range(steps + 1)]
    # catalogue d: Boolean options as bool / int 0,1 / numpy.bool_;  h: the run under test is the SECOND run on the object;
    # b: a sibling object with another configuration works in between;  l: Function.reset_dictionary() before evaluations
    cfg["flagrep"] = r.choice(["bool", "bool", "int", "npbool"])
    cfg["restart"] = list(r.choice([x for x in LEVELS if x != (lmin, lmax)])) if r.random() < 0.15 else None
    cfg["sibling"] = r.random() < 0.2
    cfg["toggle"] = [r.random() < 0.2 for _ in range(steps + 1)]
    if family == "spike":
        # directed family for C03: rebalancing off, one dimension is refined again and again at its deepest interval, so that
        # lmax_d runs several levels ahead of untouched leaves (large subtraction values, all branches of
        # modify_according_to_levelvec); component grids observed at the end
        cfg.update(rebalancing=False, margin=1.0, steps=r.randint(4, 7), family="spike", spike_dim=r.randrange(dim),
                   version=r.choice([6, 7, 8, 6, 7, 8, 3, 2]), sibling=False, restart=None)
        cfg["observe"] = [False] * cfg["steps"]
        cfg["manual"] = [False] * cfg["steps"]
        cfg["recall"] = [False] * cfg["steps"]
        cfg["resume"] = [False] * (cfg["steps"] + 1)
        cfg["toggle"] = [False] * (cfg["steps"] + 1)
    if family == "big":
        cfg.update(dim=2, lmin=2, lmax=4, a=cfg["a"][:2], b=cfg["b"][:2], boundary=False, margin=1.0, steps=2, family="big",
                   sibling=False, restart=None, rebalancing=r.random() < 0.5)
        cfg["observe"] = [False, False]
        cfg["manual"] = [False, False]
        cfg["recall"] = [False, False]
        cfg["resume"] = [False, False, False]
        cfg["toggle"] = [False, False, False]
    if family == "deepen":
        # small directed histories: rotations and raises of lmax by more than one level in the same step
        cfg.update(dim=2, lmin=1, lmax=r.choice([2, 2, 3]), a=["0", str(cfg["a"][1])], b=["1", str(cfg["b"][1])],
                   rebalancing=True, sf=r.choice([0.0, 0.0, 0.1]), margin=1.0, steps=r.randint(2, 4),
                   family="deepen", deepen_dim=r.randrange(2), deepen_side=r.randrange(2))
        cfg["a"] = cfg["a"][:2]; cfg["b"] = cfg["b"][:2]
        cfg["observe"] = [r.random() < 0.3 for _ in range(cfg["steps"])]
        cfg["manual"] = [r.random() < 0.25 for _ in range(cfg["steps"])]
        cfg["recall"] = [False] * cfg["steps"]
        cfg["resume"] = [r.random() < 0.3 for _ in range(cfg["steps"] + 1)]
    return cfg


def gen_benefits(ctx, cfg, sizes, step_no, cap, levels=None):
    """scripted dyadic benefits: single picks, ties at the maximum, values exactly at / just below the threshold,
    zeros; bounded so that the number of objects stays below `cap` per dimension"""
    r = ctx.rng
    margin = Fraction(eff_margin(cfg))
    if cfg.get("family") == "deepen" and levels is not None:
        return gen_deepen(ctx, cfg, sizes, levels, cap)
    if cfg.get("family") == "big":
        # two uniform refinement rounds: large component grids (not used by default)
        return [[Fraction(0)] * m for m in sizes], "big-uniform"
    if cfg.get("family") == "spike" and levels is not None:
        d0 = cfg.get("spike_dim", 0)
        if sizes[d0] + 3 > cap:
            return None, "stop"
        bens = [[Fraction(0)] * m for m in sizes]
        depth = max(max(l) for l in levels[d0])
        deep = [i for i in range(sizes[d0]) if max(levels[d0][i]) == depth]
        bens[d0][r.choice(deep)] = Fraction(1)
        if r.random() < 0.25:
            d1 = r.randrange(len(sizes))
            bens[d1][r.randrange(sizes[d1])] = Fraction(1)
        return bens, "spike"
    kind = r.choice(["single", "single", "few", "few", "ties", "threshold", "zeros", "dim-only", "many", "near", "near"])
    if kind == "near" and (margin <= 0 or sum(sizes) < 4):
        kind = "few"
    total = sum(sizes)
    room = min(cap - s for s in sizes)
    if room <= 2:
        kind = "single"
    if kind == "zeros" and (max(sizes) * 2 > cap or step_no > 3):
        kind = "few"
    if margin == 0 and max(sizes) * 2 > cap:
        return None, "stop"
    bens = [[Fraction(0)] * n for n in sizes]
    top = Fraction(r.choice([1, 2, 4, 8]), r.choice([1, 2, 8]))
    low_choices = [Fraction(0), top / 8, top / 4, top * 3 / 8]
    below = [x for x in low_choices if x < margin * top] or [None]

    def fill_low():
        for d in range(len(sizes)):
            for i in range(sizes[d]):
                v = r.choice(below)
                bens[d][i] = Fraction(0) if v is None else v
    if kind == "zeros":
        return bens, kind
    fill_low()
    if kind == "near":
        return gen_near(ctx, cfg, sizes, bens, top, room), kind
    if margin == 0:
        # every interval has benefit >= 0 * max and must be split whatever the (varied, non-zero) benefits are
        for d in range(len(sizes)):
            for i in range(sizes[d]):
                bens[d][i] = r.choice(low_choices + [top / 2, top])
        bens[r.randrange(len(sizes))][0] = top
        return bens, "margin0"
    picks = []
    if kind == "single":
        d = r.randrange(len(sizes)); picks = [(d, r.randrange(sizes[d]))]
    elif kind == "few":
        for _ in range(r.randint(2, 3)):
            d = r.randrange(len(sizes)); picks.append((d, r.randrange(sizes[d])))
    elif kind == "ties":
        d = r.randrange(len(sizes)); i = r.randrange(sizes[d])
        picks = [(d, i), (d, min(sizes[d] - 1, i + 1)), (r.randrange(len(sizes)), 0)]
    elif kind == "dim-only":
        d = r.randrange(len(sizes))
        picks = [(d, i) for i in range(sizes[d]) if r.random() < 0.4][:max(1, room // 2)] or [(d, 0)]
    elif kind == "many":
        for d in range(len(sizes)):
            for i in range(sizes[d]):
                if r.random() < 0.3:
                    picks.append((d, i))
        picks = picks[:max(1, room)] or [(0, 0)]
    elif kind == "threshold":
        d = r.randrange(len(sizes)); picks = [(d, r.randrange(sizes[d]))]
    for d, i in picks:
        bens[d][i] = top
    if kind == "threshold":
        # one value exactly at margin * max (selected, `>=`) when that is dyadic-exact, one just below
        thr = margin * top
        d2 = r.randrange(len(sizes)); i2 = r.randrange(sizes[d2])
        if (d2, i2) not in picks and float(thr) * 1.0 == thr and Fraction(float(top) * eff_margin(cfg)) == thr:
            bens[d2][i2] = thr
        d3 = r.randrange(len(sizes)); i3 = r.randrange(sizes[d3])
        if (d3, i3) not in picks and (d3, i3) != (d2, i2) and thr > 0:
            bens[d3][i3] = thr - top / 64
    # per-dimension count of selected stays within room
    return bens, kind


def init_levels(cfg):
    """(levels[0], levels[1]) of the 2^lmax initial intervals of every dimension (complete tree)"""
    def lv(i, k):
        if i == 0 or i == 2 ** k:
            return 0
        t = 0
        while i % 2 == 0:
            i //= 2; t += 1
        return k - t
    k = cfg["lmax"]
    row = [(lv(i, k), lv(i + 1, k)) for i in range(2 ** k)]
    return [list(row) for _ in range(cfg["dim"])]


def gen_deepen(ctx, cfg, sizes, levels, cap):
    """directed family (rebalancing on, margin 1): in one dimension the deepest interval(s) are refined together with
    neighbours / a few other intervals, so that a rotation and a raise of lmax (possibly by more than one level)
    meet in the same step; all other benefits are 0.  `levels[d][i]` = (levels[0], levels[1]) of object i."""
    r = ctx.rng
    d0 = cfg.get("deepen_dim", 0)
    n = sizes[d0]
    if n + 8 > cap:
        return None, "stop"
    bens = [[Fraction(0)] * m for m in sizes]
    lv = levels[d0]
    depth = max(max(l) for l in lv)
    root = next((i for i in range(n) if lv[i][1] == 1), n // 2)          # object ending at the level-1 point
    picks = set()
    mode = r.random()
    if mode < 0.75:
        # lopsided: most intervals of one side of the root, and one or two of the deepest intervals of the other side
        heavy_right = cfg.get("deepen_side", 0) == 1 if r.random() < 0.8 else r.random() < 0.5
        heavy = list(range(root + 1, n)) if heavy_right else list(range(0, root + 1))
        light = list(range(0, root + 1)) if heavy_right else list(range(root + 1, n))
        p_heavy = r.choice([0.5, 0.75, 1.0])
        for i in heavy:
            if r.random() < p_heavy:
                picks.add(i)
        if light:
            dl = max(max(lv[i]) for i in light)
            deep_light = [i for i in light if max(lv[i]) == dl]
            picks.update(r.sample(deep_light, min(len(deep_light), r.choice([1, 1, 2]))))
            if r.random() < 0.3:
                picks.add(r.choice(light))
    else:
        deep = [i for i in range(n) if max(lv[i]) == depth]
        picks.update(r.sample(deep, r.randint(1, min(len(deep), 3))))
        for i in list(picks):
            for j in (i - 1, i + 1):
                if 0 <= j < n and r.random() < 0.45:
                    picks.add(j)
        for i in range(n):
            if r.random() < 0.25:
                picks.add(i)
    if not picks:
        picks.add(r.randrange(n))
    picks = sorted(picks)
    if len(picks) > 8:
        picks = sorted(r.sample(picks, 8))
    for i in picks:
        bens[d0][i] = Fraction(1)
    if r.random() < 0.15 and len(sizes) > 1:
        d1 = (d0 + 1) % len(sizes)
        bens[d1][r.randrange(sizes[d1])] = Fraction(1)
    return bens, "deepen"


def gen_near(ctx, cfg, sizes, bens, top, room):
    """benefits within a few ulps / 1e-10 relative of the tolerance `max * margin` on either side.  All values are
    doubles (exact Fractions); they are placed strictly outside the interval between the exact product and the float
    product of the code, so the exact-rational model and the float comparison agree on which side they are."""
    r = ctx.rng
    mf = eff_margin(cfg)
    tol_float = Fraction(float(top) * mf)
    tol_exact = top * Fraction(mf)
    lo, hi = min(tol_float, tol_exact), max(tol_float, tol_exact)

    def below(x, k):
        v = float(x)
        while Fraction(v) >= lo:
            v = math.nextafter(v, -math.inf)
        for _ in range(k):
            v = math.nextafter(v, -math.inf)
        return Fraction(v)

    def above(x, k):
        v = float(x)
        while Fraction(v) < hi:
            v = math.nextafter(v, math.inf)
        for _ in range(k):
            v = math.nextafter(v, math.inf)
        return Fraction(v)
    cands = [("below", below(lo, 0)), ("below", below(lo, r.randint(1, 4))), ("below", below(lo * (1 - Fraction(1, 2 ** 32)), 0)),
             ("below", below(lo * (1 - Fraction(1, 10 ** 10)), 0)), ("below", below(lo * (1 - Fraction(1, 10 ** 8)), 0)),
             ("above", above(hi, 0)), ("above", above(hi, r.randint(1, 3))), ("above", above(hi * (1 + Fraction(1, 10 ** 10)), 0))]
    cands = [(w, v) for w, v in cands if 0 <= v <= top]
    cells = [(d, i) for d in range(len(sizes)) for i in range(sizes[d])]
    r.shuffle(cells)
    d0, i0 = cells[0]
    bens[d0][i0] = top                      # the maximum benefit
    n_above = 0
    for (d, i) in cells[1:1 + r.randint(2, 5)]:
        w, v = r.choice(cands)
        if w == "above":
            if n_above + 2 > room:
                continue
            n_above += 1
        bens[d][i] = v
        ctx.count("near_threshold_" + w)
    return bens


def selection_spec(bens, margin_float):
    """the property's clause, computed independently in exact arithmetic: positions whose benefit reaches
    margin * max benefit; also reports whether the float product could classify any benefit differently"""
    mx = max([Fraction(0)] + [x for row in bens for x in row])
    tol_exact = mx * Fraction(float(margin_float))
    tol_float = Fraction(float(mx) * float(margin_float))
    amb = any((x >= tol_exact) != (x >= tol_float) for row in bens for x in row)
    sel = [(d, i) for d, row in enumerate(bens) for i, x in enumerate(row) if x >= tol_exact]
    return sel, amb


def bens_str(bens):
    return "|".join(",".join(frac_str(x) for x in row) if row else "-" for row in bens)


# ----------------------------------------------------------------------------------------------- one history

class History:
    """runs one configuration on implementation and model; `script` = list of benefit tables for replay"""

    def __init__(self, ctx, drv, cfg, prop, script=None, check_points=False, max_points=250):
        self.ctx, self.drv, self.cfg, self.prop = ctx, drv, cfg, prop
        self.script = script
        self.check_points = check_points
        self.max_points = max_points
        self.case = dict(cfg, script=[])
        self.ok = True            # no violation and no disagreement so far
        self.model_on = True      # the model is still in step with the implementation
        self.violated = False
        self.nontrivial = False

    # -- reporting helpers
    def snapshot(self):
        return dict(self.case, script=[list(x) for x in self.case["script"]])

    def corr(self, obs, impl, model):
        if impl != model:
            self.ok = False
            # after a disagreement the model is dropped; the implementation keeps running under the oracles only
            self.model_on = False
            self.ctx.corr_break("%s/%s" % (self.prop, obs), self.snapshot(), {"impl": str(impl)[:600], "model": str(model)[:600]})
            return False
        return True

    def viol(self, probe, detail, extra_tags=None):
        self.ok = False
        self.violated = True
        tags = {"version": self.cfg["version"], "rebalancing": bool(self.cfg["rebalancing"]), "boundary": bool(self.cfg["boundary"]),
                "dim": self.cfg["dim"], "lmin": self.cfg["lmin"], "lmax": self.cfg["lmax"]}
        tags.update(extra_tags or {})
        self.ctx.violation(probe, tags, self.snapshot(), detail)

    # -- comparisons
    def compare_state(self, impl, tag):
        drv = self.drv
        if not self.model_on:
            return
        for d in range(impl.dim):
            self.corr("objs[%d]%s" % (d, tag), impl.objs_str(d), drv.ask("objs %d" % d))
        self.corr("lmax" + tag, impl.lmax_str(), drv.ask("lmax"))
        self.corr("index-sets" + tag, impl.cs_str(), drv.ask("cs"))
        self.corr("scheme" + tag, impl.scheme_str(), drv.ask("scheme"))
        self.corr("cursors" + tag, impl.cursors_str(), drv.ask("cursors"))
        wf = drv.ask("wf %s %s" % (",".join(self.cfg["a"]), ",".join(self.cfg["b"])))
        if set(wf.replace(",", "")) != {"1"}:
            self.ctx.count("model_state_not_wellformed")
            self.corr("model-wf" + tag, "all-1", wf)

    def oracle_state(self, impl):
        for d in range(impl.dim):
            bad = oracle_c06_state(impl.objs(d), Fraction(self.cfg["a"][d]), Fraction(self.cfg["b"][d]), int(impl.sa.lmax[d]))
            if bad:
                self.viol("state-clauses", {"dimension": d, "failed": bad, "objs": impl.objs_str(d), "lmax": impl.lmax_str()},
                          {"failed": bad[0]})

    def next_benefits(self, sizes, k, cap, levels=None):
        """benefit table of step k (generated or replayed); None = stop the history here"""
        ctx, cfg = self.ctx, self.cfg
        if self.script is None:
            bens, kind = gen_benefits(ctx, cfg, sizes, k, cap, levels)
            if bens is None:
                ctx.count("history_stopped_size")
                return None
        else:
            if k >= len(self.script):
                return None
            bens, kind = [[Fraction(x) for x in row] for row in self.script[k]], "replay"
            if [len(r_) for r_ in bens] != sizes:
                ctx.count("replay_script_shape_mismatch")
                return None
        sel, amb = selection_spec(bens, eff_margin(cfg))
        if amb:
            ctx.count("ambiguous_float_margin")
            return None
        if cfg.get("family") != "big" and any(s + sum(1 for (d_, _) in sel if d_ == d) > 2 * cap for d, s in enumerate(sizes)):
            ctx.count("history_stopped_size")
            return None
        ctx.count("benefit_kind_" + kind)
        self.case["script"].append([[str(x) for x in row] for row in bens])
        return bens

    def run(self):
        """the natural API flow: evaluate (benefits injected) -> observe -> refine() -> evaluate -> observe -> ...;
        no evaluation or getter call is added between an evaluation and the refine() that follows it except at the
        (seeded) randomly chosen observation steps"""
        ctx, drv, cfg = self.ctx, self.drv, self.cfg
        thorough = ctx.tier == "thorough"
        cap = 40 if not thorough else 72
        nsteps = cfg["steps"] if self.script is None else len(self.script)
        observe = list(cfg.get("observe", [])) + [True] * nsteps
        if cfg.get("restart"):
            ctx.count("restarted_runs")
        if cfg.get("restart") and not RESTART_OBSERVE_BEFORE_FIRST_REFINE and observe:
            observe[0] = False
        bens = self.next_benefits([2 ** cfg["lmax"]] * cfg["dim"], 0, cap, init_levels(cfg)) if nsteps > 0 else None
        try:
            impl = Impl(cfg, bens)
        except Exception as e:  # the property promises a working structure for every such configuration
            self.viol("init-exception", {"exception": repr(e)[:300]}, {"exception": type(e).__name__})
            return self.ok
        r = drv.ask("init %d %d %s %s" % (cfg["lmin"], cfg["lmax"], ",".join(cfg["a"]), ",".join(cfg["b"])))
        self.corr("init", "ok", r)
        if self.model_on:
            self.corr("cfg", "ok", drv.ask("cfg %d -" % cfg["version"]))
        if self.model_on:
            # performSpatiallyAdaptiv has evaluated once: cursor effect of evaluate_operation (clear_new_objects)
            self.corr("eval", "ok", drv.ask("eval"))
        self.compare_state(impl, "@init")
        self.oracle_state(impl)
        sib = None
        if cfg.get("sibling") and self.check_points:
            # a second object of the class with another configuration but the same keys (dimension, level vectors,
            # interval indices), alive at the same time; it works between two observations of the object under test
            scfg = dict(cfg, version=[v for v in VERSIONS if v != cfg["version"]][cfg["fseed"] % 4], rebalancing=not cfg["rebalancing"],
                        margin=0.5, fseed=cfg["fseed"] + 1, restart=None, a=list(reversed(cfg["a"])), b=list(reversed(cfg["b"])))
            try:
                sib = Impl(scfg, None)
                ctx.count("sibling_objects")
            except Exception as e:
                self.viol("init-exception", {"exception": repr(e)[:300], "sibling": True}, {"exception": type(e).__name__})
                return self.ok
        self.sibling = sib
        k = 0
        while bens is not None and not self.violated:
            # the state has just been evaluated with `bens`
            seen = impl.benefits_seen()
            if [[fr(x) for x in row] for row in seen] != bens:
                self.corr("benefit-injection", str(seen)[:300], str(bens)[:300])
                break
            sel, _ = selection_spec(bens, eff_margin(cfg))
            if self.check_points and observe[k]:
                self.points_checks(impl, "@before-refine-%d" % k)
                if self.violated:
                    break
            observed_here = self.check_points and observe[k]
            manual = bool((list(cfg.get("manual", [])) + [False] * (k + 1))[k]) and len(sel) >= 1
            try:
                if manual:
                    order = list(sel)
                    random.Random(cfg.get("perm_seed", 0) + k).shuffle(order)
                    ctx.count("manual_steps")
                    if order != sorted(order):
                        ctx.count("manual_steps_non_ascending")
                    refined, rebal_calls = impl.manual_refine(order)
                else:
                    refined, rebal_calls = impl.refine()
            except Exception as e:
                self.viol("refine-exception", {"exception": repr(e)[:300], "step": k, "manual": manual},
                          {"exception": type(e).__name__})
                break
            self.nontrivial = self.nontrivial or len(refined) > 0
            ctx.count("refined_per_step_%s" % ("0" if not refined else "1" if len(refined) == 1 else "2-5" if len(refined) <= 5 else "6+"))
            # ---- oracle: selection clause (independent of the model)
            if sorted(refined) != sorted(sel) or len(set(refined)) != len(refined):
                self.viol("selection", {"step": k, "refined": refined, "expected": sel, "bens": bens_str(bens)})
            if cfg["rebalancing"]:
                ctx.count("rebalance_interval_calls", len(rebal_calls))
            # ---- model step (skipped once model and implementation are out of step)
            if self.model_on:
                self.model_step(impl, bens, sorted(refined) if manual else refined, k)
            self.oracle_state(impl)
            if self.violated:
                break
            if observed_here and bool((list(cfg.get("recall", [])) + [False] * (k + 1))[k]):
                # call -> refine() -> call on the same object, nothing in between
                ctx.count("recall_observations")
                self.points_checks(impl, "@after-refine-%d-without-evaluation" % k)
                if self.violated:
                    break
            k += 1
            sizes = [len(impl.containers()[d].get_objects()) for d in range(impl.dim)]
            levels = [[(int(o.levels[0]), int(o.levels[1])) for o in impl.containers()[d].get_objects()] for d in range(impl.dim)]
            bens = self.next_benefits(sizes, k, cap, levels) if k < nsteps else None
            final = bens is None
            if final and not self.check_points:
                break
            table = bens if bens is not None else [[Fraction(0)] * n for n in sizes]
            impl.set_benefits(table)
            resume = bool((list(cfg.get("resume", [])) + [False] * (k + 1))[k])
            if bool((list(cfg.get("toggle", [])) + [False] * (k + 1))[k]):
                # rarely used public toggle in the middle of the sequence: forget the cached function values
                ctx.count("toggle_reset_dictionary")
                impl.f.reset_dictionary()
            record = self.check_points and (final or observe[k])
            used = None
            try:
                if record:
                    used = impl.evaluate_recorded(resume=resume)
                else:
                    impl.evaluate(resume=resume)
            except Exception as e:
                self.viol("evaluate-exception", {"exception": repr(e)[:300], "step": k, "resume": resume},
                          {"exception": type(e).__name__})
                break
            if self.model_on:
                self.corr("eval", "ok", drv.ask("eval"))
                self.corr("cursors@evaluated-%d" % k, impl.cursors_str(), drv.ask("cursors"))
            if resume:
                # resumed through the old container: every state clause is observed BEFORE the next refine()
                ctx.count("resumed_evaluations")
                self.compare_state(impl, "@resumed-%d" % k)
                self.oracle_state(impl)
                if self.violated:
                    break
            if used and not self.violated:
                self.use_site_check(impl, used, "@evaluation-%d" % k)
            if final and not self.violated:
                self.points_checks(impl, "@end")
        return self.ok

    def state_fingerprint(self, impl):
        """everything a getter must leave alone"""
        return (tuple(impl.objs_str(d) for d in range(impl.dim)), impl.lmax_str(), impl.cs_str(), impl.scheme_str(),
                impl.cursors_str())

    def use_site_check(self, impl, used, tag):
        """the component grids handed to the consumers DURING the evaluation must be the grids of the evaluated state
        (which a fresh query returns afterwards and which the model predicts)"""
        ctx, drv = self.ctx, self.drv
        seen = set()
        for lv, coords, levels in used:
            if lv in seen and ctx.rng.random() < 0.8:
                continue
            seen.add(lv)
            ctx.count("use_site_grids")
            try:
                pc, pl = impl.points(lv)
            except Exception as e:
                self.viol("points-exception", {"levelvec": lv, "exception": repr(e)[:300], "at": tag}, {"exception": type(e).__name__})
                return
            if [[Fraction(x) for x in c] for c in coords] != pc or levels != pl:
                self.viol("use-site-grid", {"levelvec": list(lv), "used": str(coords)[:300], "fresh": str([[str(x) for x in c] for c in pc])[:300],
                                            "at": tag})
                return
            if self.model_on and len(lv) == impl.dim:
                mline = drv.ask("pts " + ",".join(str(x) for x in lv))
                iline = "|".join(",".join(frac_str(Fraction(x)) for x in coords[d]) + ";" + ",".join(str(x) for x in levels[d])
                                 for d in range(impl.dim)) + " D 1"
                if self.cfg["version"] != 3:      # version 3 needs the float-rounding table (set in points_checks)
                    self.corr("use-site-grid%s %s" % (tag, list(lv)), iline, mline)

    def repeat_and_alias_checks(self, impl, I, grids, tag):
        """catalogue a/c/b: the same query twice gives the same answer; the caller may overwrite what it passed and what it
        got; a sibling object working in between changes nothing"""
        ctx = self.ctx
        r = ctx.rng
        lv = r.choice(I)
        want = (grids[lv], None)
        arg = [int(x) for x in lv]
        try:
            raw = quiet(impl.sa.get_point_coord_for_each_dim, arg)
            first = [[fr(x) for x in raw[0][d]] for d in range(impl.dim)]
            # the caller reuses its argument list and scribbles over the returned arrays
            for d in range(impl.dim):
                arg[d] = 99
                for j in range(len(raw[0][d])):
                    raw[0][d][j] = -12345.0
                for j in range(len(raw[1][d])):
                    raw[1][d][j] = 77
            if self.sibling is not None:
                sib = self.sibling
                ssz = [len(c.get_objects()) for c in sib.containers()]
                if max(ssz) < 40:
                    tb = [[Fraction(1) if r.random() < 0.3 else Fraction(0) for _ in range(n)] for n in ssz]
                    sib.set_benefits(tb)
                    sib.evaluate()
                    sib.refine()
                    ctx.count("sibling_steps")
                sI = sib.index_set()
                for slv in (lv if tuple(lv) in sI else sI[0], sI[-1]):
                    sib.points(slv)
                    sib.call([tuple(float(x) for x in sib.a)])
                for d in range(sib.dim):
                    bad = oracle_c06_state(sib.objs(d), Fraction(sib.cfg["a"][d]), Fraction(sib.cfg["b"][d]), int(sib.sa.lmax[d]))
                    if bad:
                        self.viol("state-clauses", {"dimension": d, "failed": bad, "sibling": True, "objs": sib.objs_str(d)}, {"failed": bad[0]})
                        return
            second = impl.points(lv)[0]
        except Exception as e:
            self.viol("points-exception", {"levelvec": lv, "exception": repr(e)[:300], "at": tag, "repeat": True}, {"exception": type(e).__name__})
            return
        ctx.count("repeated_queries")
        if first != grids[lv] or second != grids[lv]:
            self.viol("repeated-query", {"levelvec": list(lv), "at": tag, "first": str([[str(x) for x in c] for c in first])[:300],
                                         "second": str([[str(x) for x in c] for c in second])[:300],
                                         "sibling": self.sibling is not None})

    def model_step(self, impl, bens, refined, k):
        """one `step` of the model; the rebalancing comparisons are decided by the model in Rat and recomputed here in
        the floats of the code: a difference is `ambiguous_float` iff the Rat margin is below 1e-12 (then the float outcome
        is fed to the model), otherwise a disagreement"""
        ctx, drv, cfg = self.ctx, self.drv, self.cfg
        sf = float(cfg["sf"])
        overrides = {}
        line_args = None
        for _ in range(20):
            ov = ";".join("%d:%d:%d:%d" % (p, q, n, 1 if v else 0) for (p, q, n), v in sorted(overrides.items())) or "-"
            line_args = "%s %d %s %s %s" % (frac_str(Fraction(eff_margin(cfg))), 1 if cfg["rebalancing"] else 0,
                                            frac_str(Fraction(sf)), ov, bens_str(bens))
            out = drv.ask("try " + line_args)
            if not out.startswith("ok "):
                break
            cm = out.split(" C ")[1].split(" F ")[0]
            changed = False
            for part in cm.split(";"):
                for t in part.split(","):
                    if not t:
                        continue
                    p, q, n = (int(x) for x in t.split(":"))
                    fd = float_dec(p, q, n, sf)
                    mg = rat_margin(p, q, n, Fraction(sf))
                    md = overrides.get((p, q, n), mg > 0)
                    ctx.count("rebalance_comparisons")
                    if fd != md:
                        if abs(mg) < Fraction(1, 10 ** 12):
                            ctx.count("ambiguous_float")
                            overrides[(p, q, n)] = fd
                            changed = True
                        else:
                            self.corr("rebalance-comparison", "float %s (p,q,n)=%s" % (fd, (p, q, n)), "rat %s margin %s" % (md, mg))
                            return
            if not changed:
                break
        out = drv.ask("step " + line_args)
        if not out.startswith("ok "):
            self.corr("step", "ok (refined %s)" % refined, out)
            return
        mref = [tuple(int(x) for x in t.split(":")) for t in out.split(" R ")[1].split(" C ")[0].strip().split(",") if t]
        self.corr("refined-positions", refined, mref)
        if not out.rstrip().endswith("F 1"):
            self.corr("raise_lmax-fuel", "loop ends", out[-20:])
        self.compare_state(impl, "@%d" % k)

    # ------------------------------------------------------------------------------------------- C03 part
    def points_checks(self, impl, tag):
        """getters and __call__ observed; they must leave the refinement state alone (catalogue a)"""
        before = self.state_fingerprint(impl)
        self._points_checks(impl, tag)
        if self.violated:
            return
        after = self.state_fingerprint(impl)
        if after != before:
            k = next(i for i in range(len(before)) if before[i] != after[i])
            self.viol("getter-modifies-state", {"at": tag, "component": ["objects", "lmax", "index sets", "scheme", "cursors"][k],
                                                "before": str(before[k])[:300], "after": str(after[k])[:300]})

    def _points_checks(self, impl, tag):
        """component grids of every index-set member: correspondence and the clauses of C03 on the implementation"""
        ctx, drv, cfg = self.ctx, self.drv, self.cfg
        dim = impl.dim
        # float rounding of version 3 (`sv/dim - int(sv/dim) > d/dim`): feed the code's float result to the model
        fix = []
        if cfg["version"] == 3:
            seen = set()
            for d in range(dim):
                lm = int(impl.sa.lmax[d])
                for sv in range(0, lm + 1):
                    x = sv / dim
                    fl = int(math.ceil(x)) if x - int(x) > d / dim else int(x)
                    ex = sv // dim + 1 if sv % dim > d else sv // dim
                    if fl != ex and (sv, d) not in seen:
                        seen.add((sv, d))
                        fix.append("%d:%d:%d" % (sv, d, fl))
                        ctx.count("ambiguous_float_v3_rounding")
        if self.model_on:
            self.corr("cfg", "ok", drv.ask("cfg %d %s" % (cfg["version"], ";".join(fix) or "-")))
        I = impl.index_set()
        scheme = impl.scheme()
        a = [Fraction(x) for x in cfg["a"]]
        b = [Fraction(x) for x in cfg["b"]]
        per_dim_level = {}
        grids = {}
        # the component grids the implementation actually combines may lie outside its index set (then that is what the
        # oracle has to judge): every level vector of the implementation's own scheme is tabulated as well
        in_I = set(I)
        extra = sorted(set(lv for lv, _ in scheme) - in_I)
        if extra:
            ctx.count("scheme_grids_outside_index_set", len(extra))
        for lv in list(I) + extra:
            try:
                pc, pl = impl.points(lv)
            except Exception as e:
                self.viol("points-exception", {"levelvec": lv, "exception": repr(e)[:300], "at": tag}, {"exception": type(e).__name__})
                return
            grids[lv] = pc
            if self.model_on and lv in in_I:
                mline = drv.ask("pts " + ",".join(str(x) for x in lv))
                iline = "|".join(",".join(frac_str(x) for x in pc[d]) + ";" + ",".join(str(x) for x in pl[d]) for d in range(dim)) + " D 1"
                self.corr("component-grid%s %s" % (tag, list(lv)), iline, mline)
            for d in range(dim):
                pts = pc[d]
                if any(not pts[i] < pts[i + 1] for i in range(len(pts) - 1)):
                    self.viol("grid-sorted", {"levelvec": lv, "d": d, "points": [str(x) for x in pts], "at": tag})
                if not pts or pts[0] != a[d] or pts[-1] != b[d]:
                    self.viol("grid-endpoints", {"levelvec": lv, "d": d, "points": [str(x) for x in pts], "at": tag})
                key = (d, lv[d])
                if key in per_dim_level and per_dim_level[key][0] != (pts, pl[d]):
                    self.viol("grid-level-only", {"d": d, "level": lv[d], "levelvec": lv, "other": per_dim_level[key][1], "at": tag})
                per_dim_level.setdefault(key, ((pts, pl[d]), lv))
        # nestedness across l for every dimension, over the whole level range (arbitrary level vectors are accepted)
        for d in range(dim):
            prev = None
            for l in range(cfg["lmin"], int(impl.sa.lmax[d]) + 1):
                lv = [cfg["lmin"]] * dim
                lv[d] = l
                key = (d, l)
                if key in per_dim_level:
                    pts = per_dim_level[key][0][0]
                else:
                    try:
                        pts = impl.points(lv)[0][d]
                    except Exception as e:
                        self.viol("points-exception", {"levelvec": lv, "exception": repr(e)[:300], "at": tag}, {"exception": type(e).__name__})
                        return
                    if self.model_on:
                        mline = drv.ask("pts " + ",".join(str(x) for x in lv))
                        mpts = mline.split("|")[d].split(";")[0] if "|" in mline else mline
                        self.corr("component-grid-1d%s d=%d l=%d" % (tag, d, l), ",".join(frac_str(x) for x in pts), mpts)
                if prev is not None and not set(prev) <= set(pts):
                    self.viol("grid-nested", {"d": d, "level": l, "missing": [str(x) for x in sorted(set(prev) - set(pts))], "at": tag})
                prev = pts
        if self.violated:
            return
        if ctx.rng.random() < 0.6:
            self.repeat_and_alias_checks(impl, I, grids, tag)
            if self.violated:
                return
        # combined grid = union of the tensor grids of the scheme's components (boundary points dropped when boundary is off)
        bd = bool(cfg["boundary"])
        combined = set()
        comp_sets = []
        for lv, c in scheme:
            g = grids[lv] if bd else [p[1:-1] for p in grids[lv]]
            s = set(itertools.product(*g))
            comp_sets.append((lv, c, s))
            combined |= s
            ctx.count("component_grid_ge200_points" if len(s) >= 200 else "component_grid_lt200_points")
        pts = sorted(combined)
        ctx.count("combined_grid_points", len(pts))
        for x in pts:
            ssum = sum(c for lv, c, s in comp_sets if x in s)
            if ssum != 1:
                self.viol("point-coefficient-sum", {"point": [str(t) for t in x], "sum": str(ssum), "at": tag,
                                                    "containing": [list(lv) for lv, c, s in comp_sets if x in s]})
                break
        if len(pts) > self.max_points:
            pts = ctx.rng.sample(pts, self.max_points)
        if not pts:
            return
        arg = "|".join(",".join(frac_str(t) for t in x) for x in pts)
        # model: point-wise coefficient sums (with boundary points every grid contains them too)
        if self.model_on and bd:
            self.corr("point-coefficient-sum" + tag, ",".join("1" for _ in pts), drv.ask("pcs " + arg))
        # implementation: nodal reproduction of the table at the combined grid points
        try:
            vals = impl.call(pts)
        except Exception as e:
            self.viol("call-exception", {"exception": repr(e)[:300], "at": tag}, {"exception": type(e).__name__})
            return
        want = [table_value(cfg["fseed"], list(x)) for x in pts]
        for x, v, w in zip(pts, vals, want):
            # interpn / the hat evaluation divide by interval widths: exact only up to rounding
            if not abs(v - float(w)) <= 1e-9 * max(1.0, abs(float(w))):
                self.viol("nodal-reproduction", {"point": [str(t) for t in x], "value": repr(v), "table": str(w), "at": tag})
                break
        if not self.model_on:
            return
        mvals = drv.ask("interp %d %d %s %s %s" % (cfg["fseed"], 1 if bd else 0, ",".join(cfg["a"]), ",".join(cfg["b"]), arg))
        try:
            mv = [Fraction(t) for t in mvals.split(",")]
            good = len(mv) == len(vals) and all(abs(float(m_) - v) <= 1e-9 * max(1.0, abs(float(m_))) for m_, v in zip(mv, vals))
            if mv != want:
                good = False   # the model's combined interpolant must reproduce the table EXACTLY (theorem dimwise_nodal_exact)
        except Exception:
            good = False
        if not good:
            self.corr("combined-interpolant-at-grid-points" + tag, [repr(v) for v in vals][:40], mvals[:400])
        # off-grid dyadic points: ties the interpolation model to the code (tolerance: divisions by non-dyadic widths)
        r = ctx.rng
        off = []
        for _ in range(6):
            off.append(tuple(a[d] + (b[d] - a[d]) * Fraction(r.randint(0, 64), 64) for d in range(dim)))
        try:
            ovals = impl.call(off)
        except Exception as e:
            self.viol("call-exception", {"exception": repr(e)[:300], "at": tag, "points": "off-grid"}, {"exception": type(e).__name__})
            return
        mo = drv.ask("interp %d %d %s %s %s" % (cfg["fseed"], 1 if bd else 0, ",".join(cfg["a"]), ",".join(cfg["b"]),
                                                 "|".join(",".join(frac_str(t) for t in x) for x in off)))
        try:
            mv = [Fraction(t) for t in mo.split(",")]
            good = all(abs(float(m_) - v) <= 1e-9 * max(1.0, abs(float(m_))) for m_, v in zip(mv, ovals))
        except Exception:
            good = False
        if not good:
            self.corr("combined-interpolant-off-grid" + tag, [repr(v) for v in ovals], mo)
        try:
            again = impl.call(off)
        except Exception as e:
            self.viol("call-exception", {"exception": repr(e)[:300], "at": tag, "points": "off-grid, repeated"}, {"exception": type(e).__name__})
            return
        if again != ovals:
            self.viol("repeated-query", {"what": "__call__", "at": tag, "first": [repr(v) for v in ovals], "second": [repr(v) for v in again]})


def malformed_stream(ctx, drv, prop):
    """the driver must refuse malformed lines (never answer with a default)"""
    for line in ["init 1 2 0,0", "init 1 1 0,0 1,1", "init 2 1 0 1", "init 1 2 1,1 0,0", "cfg 5 -", "cfg 4 -", "step 1/2 2 0 - 1",
                 "objs 99", "pts 1", "nonsense", "step x 1 0 - 1|1", "pcs 1", "interp 1 2 0 1 0"]:
        out = drv.ask(line)
        ctx.count("malformed_line")
        if out not in ("bad-op", "assert", "fail"):
            ctx.corr_break(prop + "/malformed-line-accepted", {"line": line}, {"model": out})
