import GenScratch.ExtendSplitGen
import SparseSpace.Model.ExtendSplit
/-!
Directed search used by `harness/extendsplit_gen.py` when the translator tie of the extend–split logic is broken:
runs the FRESHLY generated `coarsen_grid` (with the generated collision dictionary threaded through a pass over the
standard scheme) and the prefix of `evaluate_operation_area_complete_flexibel` next to the hand model and prints

    DIS coarsen_grid version <V> dim <n> lmin <a> lmax <b> c <c> lv <..>
    DIS flex c <c>

Interpreted with `lean --run`; not part of the library.
-/
open SparseSpace

def mkG (v : Int) (n : Nat) (lmin lmax : Int) : GenES.State :=
  let g0 : GenES.State := default
  { g0 with version := v, dim := n, lmin := List.replicate n lmin, lmax := List.replicate n lmax, noInitialSplitting := false }

def mkA (c : Int) : GenRO.Area :=
  let a0 : GenRO.Area := default
  { a0 with coarseningValue := c, levelvec_dict := [] }

def main : IO Unit := do
  let mut found := 0
  for v in ([0, 1, 2] : List Nat) do
    let mut per := 0
    for n in [2, 3] do
      for lmin in [(1 : Int), 2] do
        for span in [(0 : Int), 1, 2, 3] do
          let lmax := lmin + span
          for c in [(0 : Int), 1, 2, 3, 4] do
            let sch := (stdScheme n lmin lmax).map (·.1)
            let mut a := mkA c
            let mut dict : List (LV × LV) := []
            for lv in sch ++ sch.reverse.take 2 do
              let h := coarsenGrid v n lmin lmax lv c dict
              match h with
              | none => pure ()
              | some (co, dc, d') =>
                let r := GenES.coarsen_grid (mkG v n lmin lmax) lv a
                if (r.2.1 != co || r.2.2 != dc || r.1.levelvec_dict != d') && per < 5 then
                  IO.println s!"DIS coarsen_grid version {v} dim {n} lmin {lmin} lmax {lmax} c {c} lv {lv} gen {r.2.1} {r.2.2} model {co} {dc}"
                  per := per + 1
                  found := found + 1
                a := r.1
                dict := d'
  for c in [(-3 : Int), -2, -1, 0, 1, 2, 3] do
    let r := GenES.evaluate_operation_area_complete_flexibel (mkG 0 2 1 4) (mkA 2) c false false false false false
    if r.1.coarseningValue != (flexEval 4 c).1 || r.1.levelvec_dict != [] then
      IO.println s!"DIS flex c {c} gen {r.1.coarseningValue} model {(flexEval 4 c).1}"
      found := found + 1
  IO.println s!"DONE {found}"
