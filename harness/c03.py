"""C03 -- dimension-wise refinement always yields a valid nested combination.

Same history driver as C06 (harness/dimwise_common.py).  After every refine(): for every member of the index set
`get_point_coord_for_each_dim(levelvec)` (points and levels) is compared with Model/DimWise.dimPoints, `__call__` is
compared with the model's combined interpolant.  Oracle on the implementation: sorted 1-D point lists containing the
domain end points, dependence on (d, l_d) only, nestedness in l over the whole level range, point-wise coefficient
sums = 1 on the combined grid, nodal reproduction of a random dyadic table."""
import dimwise_common as dw

PROP = "C03"


def run(ctx):
    thorough = ctx.tier == "thorough"
    ctx.rule = ("dimension-wise histories as for C06 (dim 2-3, thorough 2-4; versions 2,3,6,7,8; rebalancing, boundary on/off; "
                "margins {0,1/2,0.9,1}; scripted dyadic benefits); after every refine() every component grid of the index set and the "
                "combined interpolant at (a sample of <= 250/600) combined-grid points and 6 off-grid points are compared with the model; "
                "a case is one history, distinct by configuration + benefit script, non-trivial if at least one interval was split")
    drv = ctx.driver("drv_c06")
    import dimwise_gen
    dimwise_gen.run(ctx, drv, PROP)       # translator tie: regenerate the Lean definitions of the dimension-wise logic from the current source
    n = 110 if not thorough else 1200
    budget = 75 if not thorough else 520
    first_break = None
    for k in range(n):
        if ctx.time_left(budget) < 0:
            break
        # every fifth history is from the directed family "spike" (one dimension refined again and again at its deepest interval)
        cfg = dw.gen_config(ctx, thorough, True, family=("spike" if k % 5 == 2 else None))
        h = dw.History(ctx, drv, cfg, PROP, check_points=True, max_points=250 if not thorough else 600)
        try:
            ok = h.run()
        except Exception:
            import traceback
            ctx.corr_break("C03/harness-exception", h.snapshot(), traceback.format_exc()[-3000:])
            ok = False
        ctx.count("family_%s" % cfg.get("family", "random"))
        for key in ("dim", "version", "margin", "rebalancing", "boundary", "flagrep"):
            ctx.count("%s_%s" % (key, cfg[key]))
        ctx.count("levels_%d_%d" % (cfg["lmin"], cfg["lmax"]))
        ctx.count("steps_done", len(h.case["script"]))
        ctx.case(h.case, nontrivial=h.nontrivial, sample=h.case if k < 2 else None)
        if k == 0:
            dw.malformed_stream(ctx, drv, PROP)
        # a failing input ends the search quickly; after a mere disagreement the search for a failing input goes on
        # (oracles only) for a bounded number of further histories
        if len(ctx.violations) >= ctx.max_reports:
            break
        if ctx.corr_breaks and first_break is None:
            first_break = k
        if first_break is not None and (ctx.violations or k - first_break >= 40):
            break


def replay(ctx, rp):
    case = rp["case"]
    drv = ctx.driver("drv_c06")
    cfg = {k: v for k, v in case.items() if k != "script"}
    h = dw.History(ctx, drv, cfg, PROP, script=case.get("script", []), check_points=True, max_points=600)
    ok = h.run()
    print("replay: %s" % ("property holds and model agrees on this case" if ok else "REPRODUCED"))
    for v in ctx.violations[:3]:
        print("  violation:", v["probe"], str(v["detail"])[:600])
    for c in ctx.corr_breaks[:3]:
        print("  disagreement:", c["observable"], str(c["detail"])[:600])
    for d in ctx._drivers:
        d.close()
    return 0 if ok else 1
