import GenScratch.CombiGen
import SparseSpace.Model.Combi
/-!
Directed search used by `harness/c01_gen.py` when the translator tie is broken: runs the FRESHLY generated
definitions (`GenScratch.CombiGen`, namespace `SparseSpace.Gen`) next to the hand model on all small configurations and
short histories and prints the inputs on which they disagree, one per line:

    DIS <what> <dim> <lmin> <lmax> ; v1,v2 ; v1,v2 ...

The harness replays these histories on the real Python implementation (correspondence + oracle).
Interpreted with `lean --run`; not part of the library.
-/
open SparseSpace

def lexLt : List Int → List Int → Bool
  | [], [] => false
  | [], _ => true
  | _, [] => false
  | x :: xs, y :: ys => x < y || (x == y && lexLt xs ys)

def sortVs (l : List (List Int)) : List (List Int) := l.mergeSort (fun a b => !lexLt b a)

def fmtV (v : List Int) : String := if v.isEmpty then "-" else ",".intercalate (v.map toString)

def fmtHist (h : List (List Int)) : String := " ; ".intercalate (h.map fmtV)

def genScheme (g : Gen.CombiScheme) : List (List Int × Rat) :=
  ((Gen.getCombiScheme g 1 2 false).map fun c => (c.levelvector, c.coefficient)).mergeSort fun a b => !lexLt b.1 a.1

def handScheme (s : CS) : List (List Int × Rat) :=
  (s.coeffs.map fun p => (p.1, (p.2 : Rat))).mergeSort fun a b => !lexLt b.1 a.1

def sameState (g : Gen.CombiScheme) (s : CS) : Bool :=
  sortVs g.active_index_set == sortVs s.active && sortVs g.old_index_set == sortVs s.old && g.lmax_adaptive == s.lmaxAd

/-- all vectors of `dim` entries in `[lo, hi]` -/
def box : Nat → Int → Int → List (List Int)
  | 0, _, _ => [[]]
  | n + 1, lo, hi => ((List.range (hi - lo + 1).toNat).map fun (k : Nat) => lo + (k : Int)).flatMap fun x => (box n lo hi).map (x :: ·)

structure Node where
  g : Gen.CombiScheme
  s : CS
  hist : List (List Int)

def report (what : String) (dim : Nat) (lmin lmax : Int) (hist : List (List Int)) : IO Unit :=
  IO.println s!"DIS {what} {dim} {lmin} {lmax} ; {fmtHist hist}"

def explore (dim : Nat) (lmin lmax : Int) (depth width : Nat) : IO Nat := do
  let g0 := Gen.init_adaptive_combi_scheme (Gen.__init__ dim) lmax lmin
  let s0 := CS.init dim lmax lmin
  let mut found := 0
  -- closed form on a fresh object, initial sets, initial scheme
  let stdG := ((Gen.getCombiScheme (Gen.__init__ dim) lmin lmax false).map fun c => (c.levelvector, c.coefficient)).mergeSort fun a b => !lexLt b.1 a.1
  let stdH := ((stdScheme dim lmin lmax).map fun p => (p.1, (p.2 : Rat))).mergeSort fun a b => !lexLt b.1 a.1
  if stdG != stdH then
    report "closed-form" dim lmin lmax []
    found := found + 1
  if !(sameState g0 s0) then
    report "init-state" dim lmin lmax []
    return found + 1
  if genScheme g0 != handScheme s0 then
    report "init-scheme" dim lmin lmax []
    found := found + 1
  let mut frontier : List Node := [{ g := g0, s := s0, hist := [] }]
  for _ in List.range depth do
    let mut next : List Node := []
    for nd in frontier do
      if found ≥ 6 then break
      let near := if nd.hist.isEmpty then box dim (lmin - 1) (lmax + 1) else []
      let cands := nd.s.active ++ nd.g.active_index_set.filter (fun a => !nd.s.active.contains a)
        ++ (nd.s.old.take 2) ++ near.filter (fun a => !nd.s.active.contains a)
      for lv in cands do
        if found ≥ 6 then break
        let rg := Gen.update_adaptive_combi nd.g lv
        let rs := nd.s.update lv
        let hist := nd.hist ++ [lv]
        let retOk := rg.2 == rs.2.map (·.map Int.ofNat)
        if !retOk then
          report "update-return" dim lmin lmax hist
          found := found + 1
        else if !(sameState rg.1 rs.1) then
          report "update-state" dim lmin lmax hist
          found := found + 1
        else if genScheme rg.1 != handScheme rs.1 then
          report "scheme" dim lmin lmax hist
          found := found + 1
        else if rs.2.isSome && next.length < width then
          next := next ++ [{ g := rg.1, s := rs.1, hist := hist }]
    frontier := next
  return found

def main : IO Unit := do
  let mut total := 0
  for dim in [1, 2, 3] do
    for (lmin, lmax) in [((1 : Int), (1 : Int)), (1, 2), (1, 3), (0, 1), (0, 2), (2, 3), (2, 4), (3, 3)] do
      if total < 12 then
        let n ← explore dim lmin lmax (if dim ≤ 2 then 3 else 2) (if dim ≤ 2 then 12 else 6)
        total := total + n
  IO.println s!"DONE {total}"
