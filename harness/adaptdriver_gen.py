"""C13 / C14 translator tie: `performSpatiallyAdaptiv` and `continue_adaptive_refinement` of SpatiallyAdaptivBase are
regenerated from the CURRENT sparseSpACE/spatiallyAdaptiveBase.py on every run (tools/py2lean, spec adaptdriver.json; the
strategy-specific part of the object is an opaque world with abstract operations) and tied to Properties/C13gen.lean by
the generic engine harness/gen_tie.py.

On a broken tie the fresh driver is run on concrete abstract strategies next to the hand model over a box of limits
(adaptdriver_gen_diff.lean); the disagreeing (strategy, limits[, continued limits]) go into the replay.  The unchanged C13
harness - whose cases already sit on the limit boundaries of scouted streams, with continue_adaptive_refinement in 40 % -
is the search for a failing input."""
import os

import gen_tie

HERE = os.path.dirname(os.path.abspath(__file__))
TIE = gen_tie.Tie(
    "adaptive-driver", [("adaptdriver.json", "AdaptDriverGen")], r"AdaptDriverGen\w*\.lean", "C13gen",
    diff_driver=os.path.join(HERE, "adaptdriver_gen_diff.lean"), build_target="SparseSpace.Properties.C13gen",
    trusted=("translator tie (adaptive driver): tools/py2lean, the interface declaration tools/py2lean/specs/adaptdriver.json (explicit state = "
             "history arrays and switches; everything else of the object is an opaque world with the declared state-changing operations and "
             "pure observations; log_util.time_func(label, f) calls f; plotting / solution storage / evaluation points / single step assumed off; "
             "the loop's fuel is a ghost parameter) and the helper semantics of Model/PyRt.lean are trusted; cross-checked by the unchanged "
             "correspondence test on the real Python"))


def run(ctx, drv=None, mod=None):
    return TIE.check(ctx)
