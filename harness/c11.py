"""C11 -- Romberg extrapolation grids give consistent, exact-to-order weights.

Correspondence: random dyadic refinement trees (plus complete grids, full "balanced" trees and a malformed stream)
are run through the real `ExtrapolationGrid` (all SliceGrouping x {ROMBERG_DEFAULT, TRAPEZOID} slices x
{ROMBERG_DEFAULT, SIMPSON_ROMBERG} containers x force_balanced on/off), `BalancedExtrapolationGrid`,
`GridBinaryTree` and the coefficient / weight factories, and through the Lean model (`drv_c11`); effective grid,
levels, container sizes, support sequences and tree grids are compared exactly (dyadic inputs), weights and
coefficients at 1e-12 (the code's float products of non-dyadic ratios are inexact).

Oracle (independent of the model): the clauses of the property evaluated on the implementation's own outputs --
weights sum to the interval length, linear functions are integrated exactly (`get_weights` and `integrate`),
degree 2m+1 (2m-1 balanced) on complete dyadic grids, full-tree clauses of `force_full_tree_invariant`."""
import contextlib
import io
from fractions import Fraction as Fr

from common import frac_str

TOL_CORR = 1e-12      # model (exact) vs implementation (float) for weights / coefficients
TOL_ORACLE = 1e-9     # property clauses on float outputs

GROUPINGS = [("UNIT", 1), ("GROUPED", 2), ("GROUPED_OPTIMIZED", 3)]
SLICES = [("ROMBERG_DEFAULT", 1), ("TRAPEZOID", 2)]
CONTAINERS = [("ROMBERG_DEFAULT", 1), ("SIMPSON_ROMBERG", 4)]


def E():
    import sparseSpACE.Extrapolation as ex
    return ex


# ------------------------------------------------------------------------------------------------ formatting

def rats(v):
    return ",".join(frac_str(x) for x in v) if len(v) else "-"


def nats(v):
    return ",".join(str(int(x)) for x in v) if len(v) else "-"


def fmt_rats(v):
    return "[" + ",".join(frac_str(x) for x in v) + "]"


def fmt_nats(v):
    return "[" + ",".join(str(int(x)) for x in v) + "]"


def fmt_seq(seq):
    return "[" + ";".join(frac_str(l) + ":" + frac_str(r) for (l, r) in seq) + "]"


def parse_vec(s):
    s = s.strip()
    assert s[0] == "[" and s[-1] == "]", s
    s = s[1:-1]
    return [Fr(x) for x in s.split(",")] if s else []


def close(impl, model, tol):
    return abs(float(impl) - float(model)) <= tol * max(1.0, abs(float(model)))


def quiet(f):
    with contextlib.redirect_stdout(io.StringIO()):
        return f()


# ------------------------------------------------------------------------------------------------ generators

DOMAINS = [(Fr(0), Fr(1)), (Fr(0), Fr(1)), (Fr(1), Fr(3)), (Fr(-1), Fr(1)), (Fr(-2), Fr(-1, 2)), (Fr(1, 2), Fr(1)),
           (Fr(0), Fr(4)), (Fr(-3, 4), Fr(1, 2)), (Fr(2), Fr(5))]


def gen_refinement_tree(r, npts, mode):
    """valid level assignment: repeated bisection of [a,b]; the midpoint of a slice gets level max(l,r)+1"""
    a, b = r.choice(DOMAINS)
    pts = [(a, 0), (b, 0)]
    focus = r.random()
    while len(pts) < npts:
        cand = [i for i in range(len(pts) - 1) if max(pts[i][1], pts[i + 1][1]) < 9]
        if not cand:
            break
        if mode == "uniform":
            i = r.choice(cand)
        elif mode == "deep":      # refine towards one location (graded, strongly adaptive)
            x = a + (b - a) * Fr(int(focus * 1024), 1024)
            inside = [j for j in cand if pts[j][0] <= x <= pts[j + 1][0]]
            i = inside[0] if inside and r.random() < 0.8 else r.choice(cand)
        else:                     # breadth first: coarsest slices first, gives long equal-width runs
            m = min(max(pts[j][1], pts[j + 1][1]) for j in cand)
            i = r.choice([j for j in cand if max(pts[j][1], pts[j + 1][1]) == m])
        mid = (pts[i][0] + pts[i + 1][0]) / 2
        pts.insert(i + 1, (mid, max(pts[i][1], pts[i + 1][1]) + 1))
    return [p for p, _ in pts], [l for _, l in pts]


def gen_complete(r, m):
    a, b = r.choice(DOMAINS)
    n = 2 ** m
    grid = [a + (b - a) * Fr(i, n) for i in range(n + 1)]
    lv = [0]
    for i in range(1, n):
        k = 0
        while i % 2 == 0:
            i //= 2
            k += 1
        lv.append(m - k)
    lv.append(0)
    return grid, lv


def gen_full_tree(r, maxpts):
    """point tree in which every node has zero or two children (what the code calls balanced)"""
    a, b = r.choice(DOMAINS)
    H = b - a
    pts = {}
    budget = [maxpts - 2]

    def rec(c, lvl, must):
        pts[c] = lvl
        budget[0] -= 1
        if lvl < 7 and budget[0] >= 2 and (r.random() < (0.75 if lvl < 3 else 0.45)):
            rec(c - H / 2 ** (lvl + 1), lvl + 1, False)
            rec(c + H / 2 ** (lvl + 1), lvl + 1, False)

    rec((a + b) / 2, 1, True)
    keys = sorted(pts)
    return [a] + keys + [b], [0] + [pts[k] for k in keys] + [0]


def malform(r, grid, lv):
    grid, lv = list(grid), list(lv)
    k = r.randrange(6)
    n = len(grid)
    if k == 0 and n > 2:
        i = r.randrange(1, n - 1)
        lv[i] = max(0, lv[i] + r.choice([-1, 1, 2, -2]))
        return grid, lv, "level-perturbed"
    if k == 1 and n > 2:
        i = r.randrange(0, n - 1)
        grid[i], grid[i + 1] = grid[i + 1], grid[i]
        return grid, lv, "points-swapped"
    if k == 2:
        lv[r.choice([0, -1])] = r.choice([1, 2])
        return grid, lv, "boundary-level"
    if k == 3:
        i = r.randrange(0, n - 1)
        grid[i + 1] = grid[i]
        return grid, lv, "duplicate-point"
    if k == 4 and n > 2:
        i = r.randrange(1, n - 1)
        grid[i] = grid[i] + (grid[i + 1] - grid[i]) / 2      # moved off its dyadic position
        return grid, lv, "point-moved"
    i = r.randrange(1, n) if n > 2 else 1
    lv = [0] + [r.randint(0, 4) for _ in range(n - 2)] + [0]
    return grid, lv, "random-levels"


# ------------------------------------------------------------------------------------------------ implementation side

def impl_grid(gname, sname, cname, fb, grid, lv):
    """returns (status, object); status in ok / assert-set-grid / exc:<Type>"""
    ex = E()
    e = ex.ExtrapolationGrid(slice_grouping=ex.SliceGrouping[gname], slice_version=ex.SliceVersion[sname],
                             container_version=ex.SliceContainerVersion[cname], force_balanced_refinement_tree=fb)
    try:
        quiet(lambda: e.set_grid([float(x) for x in grid], [int(l) for l in lv]))
    except AssertionError:
        return "assert-set-grid", None
    except Exception as exn:
        return "exc-set-grid:" + type(exn).__name__, None
    return "ok", e


def impl_weights(e):
    try:
        return "ok", [float(w) for w in e.get_weights()]
    except AssertionError:
        return "assert-weights", None
    except Exception as exn:
        return "exc-weights:" + type(exn).__name__, None


def impl_state(e):
    seqs = [s.support_sequence for c in e.slice_containers for s in c.slices]
    return "G %s L %s C %s S [%s]" % (fmt_rats(e.get_grid()), fmt_nats(e.get_grid_levels()),
                                       fmt_nats([len(c.slices) for c in e.slice_containers]),
                                       ",".join(fmt_seq(s) for s in seqs))


def monomial(d):
    from sparseSpACE.Function import Polynomial1d
    return Polynomial1d([0.0] * d + [1.0])


def exact_monomial_integral(a, b, d):
    return (b ** (d + 1) - a ** (d + 1)) / (d + 1)


# ------------------------------------------------------------------------------------------------ one grid through all configurations

def check_extrapolation(ctx, drv, case, valid, complete_depth=None):
    grid = [Fr(x) for x in case["grid"]]
    lv = [int(l) for l in case["levels"]]
    ok = True
    a, b = grid[0], grid[-1]
    for gname, gi in GROUPINGS:
        for fb in (False, True):
            st_impl = {}
            for sname, si in SLICES:
                for cname, ci in CONTAINERS:
                    tags = {"grouping": gname, "slice": sname, "container": cname, "force_balanced": fb,
                            "n_points": len(grid)}
                    sub = dict(case, config=[gname, sname, cname, fb])
                    status, e = impl_grid(gname, sname, cname, fb, grid, lv)
                    line = "%d %d %d %d %s %s" % (gi, si, ci, 1 if fb else 0, rats(grid), nats(lv))
                    m_state = drv.ask("state " + line)
                    m_w = drv.ask("wts " + line)
                    if status != "ok":
                        ctx.count("outcome_" + status)
                        if m_w != status:
                            ok = False
                            ctx.corr_break("C11/set_grid-outcome", sub, {"impl": status, "model": m_w[:200]})
                        if valid:
                            ok = False
                            ctx.violation("exception", dict(tags, stage="set_grid", exc=status), sub,
                                          {"what": "set_grid raises on a valid refinement tree", "status": status})
                        continue
                    i_state = impl_state(e)
                    if si == 1 and ci == 1 and not fb:
                        for c in e.slice_containers:
                            ctx.count("container_size_%02d" % min(len(c.slices), 17))
                    if i_state != m_state:
                        ok = False
                        ctx.corr_break("C11/state", sub, {"impl": i_state[:600], "model": m_state[:600]})
                    wstatus, w = impl_weights(e)
                    ctx.count("outcome_" + wstatus)
                    if wstatus != "ok":
                        if m_w != wstatus:
                            ok = False
                            ctx.corr_break("C11/weights-outcome", sub, {"impl": wstatus, "model": m_w[:200]})
                        if valid:
                            ok = False
                            ctx.violation("exception", dict(tags, stage="get_weights", exc=wstatus), sub,
                                          {"what": "get_weights raises on a valid refinement tree"})
                        continue
                    if not m_w.startswith("ok "):
                        ok = False
                        ctx.corr_break("C11/weights-outcome", sub, {"impl": "ok", "model": m_w[:200]})
                    else:
                        mw = parse_vec(m_w[3:])
                        if len(mw) != len(w) or any(not close(x, y, TOL_CORR) for x, y in zip(w, mw)):
                            ok = False
                            ctx.corr_break("C11/weights", sub, {"impl": str(w)[:500], "model": m_w[:500]})
                    if not valid:
                        continue
                    # ---------------- oracle: the property on the implementation's own outputs
                    eg = [Fr(x) for x in e.get_grid()]
                    if len(w) != len(eg):
                        ok = False
                        ctx.violation("weights-length", tags, sub, {"weights": len(w), "grid": len(eg)})
                        continue
                    if fb is False and eg != grid:
                        ok = False
                        ctx.violation("grid-changed", tags, sub, {"grid": fmt_rats(eg)})
                    maxdeg = 1
                    if complete_depth is not None and sname == "ROMBERG_DEFAULT" and cname == "ROMBERG_DEFAULT":
                        maxdeg = 2 * complete_depth + 1
                    devs = []
                    for d in range(maxdeg + 1):
                        exact = exact_monomial_integral(a, b, d)
                        scale = max(1.0, abs(float(exact)), float(max(abs(a), abs(b)) ** d * (b - a)))
                        q_w = sum(Fr(wi) * x ** d for wi, x in zip(w, eg))
                        try:
                            q_i = Fr(float(e.integrate(monomial(d))))
                        except Exception as exn:
                            ok = False
                            ctx.violation("exception", dict(tags, stage="integrate", exc=type(exn).__name__), sub, {"degree": d})
                            continue
                        for name, q in (("weights", q_w), ("integrate", q_i)):
                            if abs(float(q - exact)) > TOL_ORACLE * scale:
                                devs.append((d, name, float(q), float(exact), q - exact))
                    if devs:
                        ok = False
                        probe = "weights-sum-linear" if all(d <= 1 for d, _, _, _, _ in devs) else "degree"
                        ctx.violation(probe, dict(tags, max_container=max(len(c.slices) for c in e.slice_containers)), sub,
                                      {"failed": [(d, n, q, x) for d, n, q, x, _ in devs[:4]],
                                       "containers": [len(c.slices) for c in e.slice_containers]})
    return ok


def check_balanced(ctx, drv, case, valid_full, complete_depth=None):
    ex = E()
    grid = [Fr(x) for x in case["grid"]]
    lv = [int(l) for l in case["levels"]]
    ok = True
    g = ex.BalancedExtrapolationGrid()
    try:
        g.set_grid([float(x) for x in grid], list(lv))
        w = [float(x) for x in g.get_weights()]
        status = "ok"
    except Exception as exn:
        status, w = "error", None
        exname = type(exn).__name__
    m = drv.ask("bal %s %s" % (rats(grid), nats(lv)))
    ctx.count("balanced_" + status)
    if status == "error":
        if m != "error":
            ok = False
            ctx.corr_break("C11/balanced-outcome", case, {"impl": "error:" + exname, "model": m[:200]})
        if valid_full:
            ok = False
            ctx.violation("balanced-exception", {"n_points": len(grid), "exc": exname}, case, {})
        return ok
    if not m.startswith("ok "):
        ctx.corr_break("C11/balanced-outcome", case, {"impl": "ok", "model": m[:200]})
        return False
    mw = parse_vec(m[3:])
    if len(mw) != len(w) or any(not close(x, y, TOL_CORR) for x, y in zip(w, mw)):
        ok = False
        ctx.corr_break("C11/balanced-weights", case, {"impl": str(w)[:500], "model": m[:500]})
    if not valid_full:
        return ok
    a, b = grid[0], grid[-1]
    if g.get_grid() != [float(x) for x in grid]:
        ok = False
        ctx.violation("balanced-grid", {"n_points": len(grid)}, case, {"grid": str(g.get_grid())[:300]})
    maxdeg = 1 if complete_depth is None else max(1, 2 * complete_depth - 1)
    bad = []
    for d in range(maxdeg + 1):
        exact = exact_monomial_integral(a, b, d)
        scale = max(1.0, abs(float(exact)), float(max(abs(a), abs(b)) ** d * (b - a)))
        q = sum(Fr(wi) * x ** d for wi, x in zip(w, grid))
        if abs(float(q - exact)) > TOL_ORACLE * scale:
            bad.append((d, float(q), float(exact)))
    if bad:
        ok = False
        ctx.violation("balanced-sum-linear" if all(d <= 1 for d, _, _ in bad) else "balanced-degree",
                      {"n_points": len(grid), "max_level": max(lv)}, case, {"failed": bad[:4]})
    return ok


def tree_nodes(node):
    return [] if node is None else tree_nodes(node.left_child) + [node] + tree_nodes(node.right_child)


def check_tree(ctx, drv, case, valid):
    ex = E()
    grid = [Fr(x) for x in case["grid"]]
    lv = [int(l) for l in case["levels"]]
    ok = True
    for op in ("tree", "full", "incr"):
        t = ex.GridBinaryTree()
        try:
            t.init_tree([float(x) for x in grid], list(lv))
            if op == "full":
                t.force_full_tree_invariant()
            elif op == "incr":
                t.increment_level_in_each_subtree()
            tg, tl = t.get_grid(), t.get_grid_levels()
            out = "G %s L %s" % (fmt_rats(tg), fmt_nats(tl))
        except AssertionError:
            out = "assert"
        except Exception as exn:
            out = "exc:" + type(exn).__name__
        m = drv.ask("%s %s %s" % (op, rats(grid), nats(lv)))
        ctx.count("tree_%s_%s" % (op, "ok" if out.startswith("G") else out))
        if out != m:
            ok = False
            ctx.corr_break("C11/" + op, dict(case, op=op), {"impl": out[:500], "model": m[:500]})
        if not valid or len(grid) < 3:
            continue
        tags = {"op": op, "n_points": len(grid)}
        if not out.startswith("G"):
            ok = False
            ctx.violation("tree-exception", dict(tags, exc=out), dict(case, op=op), {})
            continue
        tgf = [Fr(x) for x in tg]
        if op == "tree" and (tgf != grid or list(tl) != lv):
            ok = False
            ctx.violation("tree-round-trip", tags, dict(case, op=op), {"grid": out[:300]})
        if op == "full":
            bad = []
            if any(x not in tgf for x in grid):
                bad.append("given point lost")
            given = dict(zip(grid, lv))
            got = dict(zip(tgf, tl))
            if any(got.get(x) != l for x, l in given.items()):
                bad.append("level of a given point changed")
            if tgf != sorted(set(tgf)) or tgf[0] != grid[0] or tgf[-1] != grid[-1]:
                bad.append("grid not strictly increasing / boundary moved")
            nodes = tree_nodes(t.root_node)
            if any((n.left_child is None) != (n.right_child is None) for n in nodes):
                bad.append("node with exactly one child")
            if len(nodes) + 2 != len(tgf):
                bad.append("get_grid inconsistent with tree")
            # a full tree must be accepted unchanged
            if bad:
                ok = False
                ctx.violation("full-tree", tags, dict(case, op=op), {"failed": bad, "grid": out[:300]})
    return ok


def check_wrappers(ctx, case, prev):
    """Grid.py wrappers: GlobalRombergGrid (with its weight cache) and GlobalBalancedRombergGrid must hand out exactly
    the weights of ExtrapolationGrid / BalancedExtrapolationGrid, also for a cached key and after other keys"""
    ex = E()
    from sparseSpACE.Grid import GlobalRombergGrid, GlobalBalancedRombergGrid
    r = ctx.rng
    grid = [Fr(x) for x in case["grid"]]
    lv = [int(l) for l in case["levels"]]
    gname, sname, cname = r.choice(GROUPINGS)[0], r.choice(SLICES)[0], r.choice(CONTAINERS)[0]
    do_cache = r.random() < 0.8
    tags = {"grouping": gname, "slice": sname, "container": cname, "do_cache": do_cache, "n_points": len(grid)}
    sub = dict(case, config=[gname, sname, cname, False], do_cache=do_cache, prev=prev)
    ok = True

    def direct(g, l):
        st, e = impl_grid(gname, sname, cname, False, g, l)
        return impl_weights(e)[1] if st == "ok" else None

    try:
        a, b = float(grid[0]), float(grid[-1])
        w = GlobalRombergGrid([a], [b], do_cache=do_cache, slice_grouping=ex.SliceGrouping[gname],
                              slice_version=ex.SliceVersion[sname], container_version=ex.SliceContainerVersion[cname])
        seq = [(grid, lv)]
        if prev is not None and Fr(prev["grid"][0]) == grid[0] and Fr(prev["grid"][-1]) == grid[-1]:
            seq.append(([Fr(x) for x in prev["grid"]], [int(l) for l in prev["levels"]]))
        seq.append((grid, lv))
        for g, l in seq:
            w.initialize_grid()
            w.set_grid([[float(x) for x in g]], [list(l)])
            got = [float(x) for x in w.weights[0]]
            want = direct(g, l)
            if want is None or got != want:
                ok = False
                ctx.violation("wrapper-weights", tags, sub, {"wrapper": str(got)[:300], "direct": str(want)[:300]})
                break
        if case["kind"] in ("full", "complete") and len(grid) >= 3:
            wb = GlobalBalancedRombergGrid([a], [b])
            wb.set_grid([[float(x) for x in grid]], [list(lv)])
            got = [float(x) for x in wb.weights[0]]
            g0 = ex.BalancedExtrapolationGrid()
            g0.set_grid([float(x) for x in grid], list(lv))
            want = [float(x) for x in g0.get_weights()][1:-1]
            if got != want:
                ok = False
                ctx.violation("wrapper-weights", dict(tags, balanced=True), sub, {"wrapper": str(got)[:300], "direct": str(want)[:300]})
    except Exception as exn:
        ok = False
        ctx.violation("wrapper-exception", dict(tags, exc=type(exn).__name__), sub, {"msg": str(exn)[:200]})
    ctx.count("wrapper_checked")
    return ok


def place_tree(rel, a, b):
    return [a + (b - a) * x for x in rel]


def run_nd_calls(ctx, config, do_cache, calls, case):
    """ONE GlobalRombergGrid object per distinct box, reused over all `calls` on that box is not enough to see a stale
    cache across intervals, so ONE object is used for ALL calls: `calls` = list of per-dimension lists of
    (grid fractions, levels); the box of the object is that of the first call (the cache does not depend on it).
    Per dimension: weights must equal those of a fresh ExtrapolationGrid on that dimension's own grid, sum to the
    interval length and have the right first moment."""
    ex = E()
    from sparseSpACE.Grid import GlobalRombergGrid
    gname, sname, cname = config
    ok = True
    dim = len(calls[0])
    a0 = [float(Fr(g[0])) for g, _ in calls[0]]
    b0 = [float(Fr(g[-1])) for g, _ in calls[0]]
    tags = {"grouping": gname, "slice": sname, "container": cname, "do_cache": do_cache, "dim": dim, "nd": True}
    try:
        w = GlobalRombergGrid(a0, b0, do_cache=do_cache, slice_grouping=ex.SliceGrouping[gname],
                              slice_version=ex.SliceVersion[sname], container_version=ex.SliceContainerVersion[cname])
        for ci, call in enumerate(calls):
            grids = [[Fr(x) for x in g] for g, _ in call]
            lvs = [[int(l) for l in lv] for _, lv in call]
            w.a = [float(g[0]) for g in grids]
            w.b = [float(g[-1]) for g in grids]
            w.initialize_grid()
            w.set_grid([[float(x) for x in g] for g in grids], [list(l) for l in lvs])
            for d in range(dim):
                got = [float(x) for x in w.weights[d]]
                st, e = impl_grid(gname, sname, cname, False, grids[d], lvs[d])
                want = impl_weights(e)[1] if st == "ok" else None
                bad = []
                if want is None or got != want:
                    bad.append("differs from a fresh ExtrapolationGrid on this interval")
                if True:  # every container version (the Simpson level-0 row is repaired)
                    a, b = grids[d][0], grids[d][-1]
                    s0 = sum(Fr(x) for x in got)
                    s1 = sum(Fr(x) * p for x, p in zip(got, grids[d]))
                    if len(got) != len(grids[d]) or abs(float(s0 - (b - a))) > TOL_ORACLE * max(1.0, float(b - a)):
                        bad.append("sum %r != length %r" % (float(s0), float(b - a)))
                    elif abs(float(s1 - (b * b - a * a) / 2)) > TOL_ORACLE * max(1.0, abs(float((b * b - a * a) / 2)), float(b - a)):
                        bad.append("first moment %r != %r" % (float(s1), float((b * b - a * a) / 2)))
                if bad:
                    ok = False
                    ctx.violation("wrapper-weights", dict(tags, call=ci, d=d), case,
                                  {"failed": bad, "wrapper": str(got)[:300], "direct": str(want)[:300]})
                    return ok
            # use site: the wrapper's own integrator (points x tensor weights) on a product of linear functions
            cs = [(Fr(1, 2) + d, Fr(d + 1, 4) * (-1) ** d) for d in range(dim)]
            val = float(np_scalar(w.integrate(prod_linear(cs), [0] * dim, list(w.a), list(w.b))))
            exact = Fr(1)
            for (c0, c1), g in zip(cs, grids):
                exact *= c0 * (g[-1] - g[0]) + c1 * (g[-1] ** 2 - g[0] ** 2) / 2
            scale = 1.0
            for (c0, c1), g in zip(cs, grids):
                scale *= float((abs(c0) + abs(c1) * max(abs(g[0]), abs(g[-1]))) * (g[-1] - g[0]))
            if abs(val - float(exact)) > TOL_ORACLE * max(scale, abs(float(exact))):
                ok = False
                ctx.violation("wrapper-integrate", dict(tags, call=ci), case,
                              {"what": "GlobalRombergGrid.integrate of a product of linear functions", "got": val,
                               "exact": float(exact)})
                return ok
    except Exception as exn:
        ok = False
        ctx.violation("wrapper-exception", dict(tags, exc=type(exn).__name__), case, {"msg": str(exn)[:200]})
    ctx.count("wrapper_nd_checked")
    return ok


def check_wrappers_nd(ctx, case, prev):
    """dim 2-3, NON-cubic boxes, the same tree (same level sequence) deliberately in several dimensions, one wrapper
    object reused over several set_grid calls: same levels on other intervals, other levels on the same intervals"""
    r = ctx.rng
    grid = [Fr(x) for x in case["grid"]]
    lv = [int(l) for l in case["levels"]]
    if len(grid) < 2 or grid[-1] <= grid[0]:
        return True
    rel = [(x - grid[0]) / (grid[-1] - grid[0]) for x in grid]
    other = None
    if prev is not None:
        pg = [Fr(x) for x in prev["grid"]]
        other = ([(x - pg[0]) / (pg[-1] - pg[0]) for x in pg], [int(l) for l in prev["levels"]])
    dim = r.choice([2, 2, 3])
    # intervals of pairwise different length
    doms = []
    while len(doms) < 2 * dim:
        a, b = r.choice(DOMAINS)
        if all(b - a != y - x for x, y in doms):
            doms.append((a, b))
        elif r.random() < 0.3:
            k = r.choice([2, 4, Fr(1, 2)])
            if all((b - a) * k != y - x for x, y in doms):
                doms.append((a, a + (b - a) * k))
    box1, box2 = doms[:dim], doms[dim:]
    trees1 = [(rel, lv)] * dim
    if other is not None and dim == 3:
        trees1 = [(rel, lv), other, (rel, lv)]
    mk = lambda box, trees: [([frac_str(x) for x in place_tree(t[0], a, b)], list(t[1])) for (a, b), t in zip(box, trees)]
    calls = [mk(box1, trees1), mk(box2, trees1)]
    if other is not None:
        calls.append(mk(box2, [other] * dim))         # other levels, same intervals
    calls.append(mk(box1, trees1))                    # back to the first box
    config = [r.choice(GROUPINGS)[0], r.choice(SLICES)[0], r.choice(CONTAINERS)[0]]
    do_cache = r.random() < 0.9
    sub = {"kind": "wrapper-nd", "config": config, "do_cache": do_cache, "calls": calls}
    return run_nd_calls(ctx, config, do_cache, calls, sub)


def table_function():
    """a Function given by a value table on the dyadic points (deterministic, exact in floating point)"""
    from sparseSpACE.Function import Function

    class TableFunction(Function):
        def eval(self, coordinates):
            x = coordinates[0] if hasattr(coordinates, "__len__") else coordinates
            return float(table_value(Fr(float(x))))

        def getAnalyticSolutionIntegral(self, start, end):
            return 0.0

    return TableFunction()


def table_value(x):
    return Fr((int(x * 1024) * 7 + 3) % 23 - 11, 8)


HISTORY_FUNCS = ["const", "linear", "table"]


def history_f(name):
    from sparseSpACE.Function import Polynomial1d
    if name == "const":
        return Polynomial1d([1.0]), (lambda x: Fr(1))
    if name == "linear":
        return Polynomial1d([0.5, 2.0]), (lambda x: Fr(1, 2) + 2 * x)
    return table_function(), table_value


def run_history(ctx, drv, hist):
    """ONE ExtrapolationGrid (or BalancedExtrapolationGrid) object through successive set_grid calls; after every
    call integrate(f) / get_weights() must be those of the CURRENT grid: compared with a fresh object (exact), with
    the model's weights applied to f, and for constants / linear functions with the exact integral"""
    ex = E()
    steps = hist["steps"]
    ok = True
    if hist.get("balanced"):
        obj = ex.BalancedExtrapolationGrid()
        tags = {"object": "BalancedExtrapolationGrid", "steps": len(steps)}
        for i, (g, lv) in enumerate(steps):
            grid = [Fr(x) for x in g]
            try:
                obj.set_grid([float(x) for x in grid], list(lv))
                got = [float(x) for x in obj.get_weights()]
            except Exception as exn:
                got = "error"
            fresh = ex.BalancedExtrapolationGrid()
            try:
                fresh.set_grid([float(x) for x in grid], list(lv))
                want = [float(x) for x in fresh.get_weights()]
            except Exception:
                want = "error"
            if got != want:
                ok = False
                ctx.violation("history-balanced", dict(tags, step=i), hist, {"reused": str(got)[:300], "fresh": str(want)[:300]})
                break
            m = drv.ask("bal %s %s" % (rats(grid), nats(lv)))
            if (got == "error") != (m == "error") or (got != "error" and any(
                    not close(x, y, TOL_CORR) for x, y in zip(got, parse_vec(m[3:])))):
                ok = False
                ctx.corr_break("C11/history-balanced", dict(hist, step=i), {"impl": str(got)[:300], "model": m[:300]})
                break
        ctx.count("history_balanced")
        return ok
    gname, sname, cname, fb = hist["config"]
    gi = dict(GROUPINGS)[gname]
    si = dict(SLICES)[sname]
    ci = dict(CONTAINERS)[cname]
    tags = {"object": "ExtrapolationGrid", "grouping": gname, "slice": sname, "container": cname,
            "force_balanced": fb, "steps": len(steps)}
    obj = ex.ExtrapolationGrid(slice_grouping=ex.SliceGrouping[gname], slice_version=ex.SliceVersion[sname],
                               container_version=ex.SliceContainerVersion[cname], force_balanced_refinement_tree=fb)
    for i, (g, lv) in enumerate(steps):
        grid = [Fr(x) for x in g]
        line = "%d %d %d %d %s %s" % (gi, si, ci, 1 if fb else 0, rats(grid), nats(lv))
        m_w = drv.ask("wts " + line)
        try:
            quiet(lambda: obj.set_grid([float(x) for x in grid], list(lv)))
            status = "ok"
        except AssertionError:
            status = "assert-set-grid"
        except Exception as exn:
            status = "exc:" + type(exn).__name__
        if status != "ok":
            if m_w != status:
                ok = False
                ctx.corr_break("C11/history-outcome", dict(hist, step=i), {"impl": status, "model": m_w[:200]})
                break
            continue
        if not m_w.startswith("ok "):
            ok = False
            ctx.corr_break("C11/history-outcome", dict(hist, step=i), {"impl": "ok", "model": m_w[:200]})
            break
        mw = parse_vec(m_w[3:])
        eg = [Fr(x) for x in obj.get_grid()]
        a, b = eg[0], eg[-1]
        st, fresh = impl_grid(gname, sname, cname, fb, grid, lv)
        bad = []
        for fname in hist["funcs"]:
            f, fx = history_f(fname)
            try:
                got = float(obj.integrate(f))
            except Exception as exn:
                bad.append((fname, "integrate raises " + type(exn).__name__, None, None))
                continue
            want = float(fresh.integrate(history_f(fname)[0])) if st == "ok" else None
            if want is None or got != want:
                bad.append((fname, "differs from a fresh object", got, want))
            model = sum(w * fx(x) for w, x in zip(mw, eg)) if len(mw) == len(eg) else None
            if model is None or abs(got - float(model)) > 1e-11 * max(1.0, abs(float(model)), float(b - a) * 4):
                ok = False
                ctx.corr_break("C11/history-integrate", dict(hist, step=i, f=fname),
                               {"impl": got, "model": None if model is None else float(model)})
            if fname in ("const", "linear"):
                exact = (b - a) if fname == "const" else (Fr(1, 2) * (b - a) + (b * b - a * a))
                if abs(got - float(exact)) > TOL_ORACLE * max(1.0, abs(float(exact))):
                    bad.append((fname, "not the exact integral", got, float(exact)))
        gw = impl_weights(obj)[1]
        fw = impl_weights(fresh)[1] if st == "ok" else None
        if gw is not None and len(gw) == len(eg):
            f, fx = history_f("table")
            own = sum(Fr(x) * fx(p) for x, p in zip(gw, eg))
            val = float(obj.integrate(f))
            if abs(val - float(own)) > 1e-11 * max(1.0, abs(float(own)), float(b - a) * 4):
                bad.append(("table", "integrate() differs from sum get_weights()[i] f(grid[i])", val, float(own)))
        if gw != fw:
            bad.append(("get_weights", "differs from a fresh object", str(gw)[:200], str(fw)[:200]))
        if bad:
            ok = False
            ctx.violation("history-integrate", dict(tags, step=i), hist, {"failed": [list(map(str, x)) for x in bad[:4]]})
            break
    ctx.count("history_extrapolation")
    return ok


def mirrored(rel, lv):
    return [1 - x for x in reversed(rel)], list(reversed(lv))


def check_histories(ctx, drv, case, prev):
    r = ctx.rng
    grid = [Fr(x) for x in case["grid"]]
    lv = [int(l) for l in case["levels"]]
    if len(grid) < 2 or grid[-1] <= grid[0]:
        return True
    rel = [(x - grid[0]) / (grid[-1] - grid[0]) for x in grid]
    other_dom = lambda: r.choice([d for d in DOMAINS if d != (grid[0], grid[-1])])
    mk = lambda rl, l, dom: ([frac_str(x) for x in place_tree(rl, dom[0], dom[1])], list(l))
    variants = [mk(rel, lv, other_dom()),                            # same tree on another interval
                mk(*mirrored(rel, lv), dom=(grid[0], grid[-1])),     # mirrored tree, same interval, same count
                mk(*mirrored(rel, lv), dom=other_dom())]
    g2, l2 = gen_refinement_tree(r, len(grid), r.choice(["uniform", "deep", "breadth"]))
    variants.append(([frac_str(x) for x in g2], l2))                 # another tree with the same number of points
    if prev is not None:
        variants.append((list(prev["grid"]), list(prev["levels"])))  # (usually) another number of points
    if r.random() < 0.15 and len(grid) > 2:
        bg, bl, _ = malform(r, grid, lv)
        variants.append(([frac_str(x) for x in bg], list(bl)))       # a rejected set_grid in the middle
    r.shuffle(variants)
    steps = [(list(case["grid"]), lv)] + variants[:r.randint(1, 3)]
    if r.random() < 0.5:
        steps.append((list(case["grid"]), lv))
    config = [r.choice(GROUPINGS)[0], r.choice(SLICES)[0], r.choice(CONTAINERS)[0], r.random() < 0.4]
    hist = {"kind": "history", "config": config, "steps": steps, "funcs": HISTORY_FUNCS}
    ok = run_history(ctx, drv, hist)
    if case["kind"] in ("full", "complete") and len(grid) >= 3:
        bsteps = [(list(case["grid"]), lv), mk(*mirrored(rel, lv), dom=other_dom()), mk(rel, lv, other_dom())]
        if prev is not None and r.random() < 0.5:
            bsteps.insert(r.randint(1, 2), (list(prev["grid"]), list(prev["levels"])))   # may be rejected (not full)
        bsteps.append((list(case["grid"]), lv))
        ok = run_history(ctx, drv, {"kind": "history", "balanced": True, "steps": bsteps}) and ok
    return ok


SCALE_LEFTS = [Fr(0), Fr(1), Fr(-2)]
SCALE_EXPONENTS = [3, 10, 20, 24, 27, 28, 30, 33, 40]


def run_scale(ctx, drv, sc):
    """the tree `rel`/`levels` placed on [left, left + 2^-e]: container sizes / support sequences exact, weights relative
    to the interval length, sum and (centred) linear exactness relative to the interval length"""
    left, e = Fr(sc["left"]), int(sc["exponent"])
    H = Fr(1, 2 ** e)
    rel = [Fr(x) for x in sc["rel"]]
    lv = [int(l) for l in sc["levels"]]
    grid = [left + x * H for x in rel]
    if any(Fr(float(x)) != x for x in grid) or any(Fr(float(x) + float(y)) != x + y for x, y in zip(grid, grid[1:])):
        ctx.count("scale_not_representable")
        return True
    ok = True
    for gname, sname, cname, fb in sc["configs"]:
        gi, si, ci = dict(GROUPINGS)[gname], dict(SLICES)[sname], dict(CONTAINERS)[cname]
        tags = {"grouping": gname, "slice": sname, "container": cname, "force_balanced": fb, "n_points": len(grid),
                "exponent": e, "left": str(left), "scale": True}
        sub = dict(sc, config=[gname, sname, cname, fb])
        line = "%d %d %d %d %s %s" % (gi, si, ci, 1 if fb else 0, rats(grid), nats(lv))
        status, obj = impl_grid(gname, sname, cname, fb, grid, lv)
        m_w = drv.ask("wts " + line)
        if status != "ok":
            ok = False
            if m_w != status:
                ctx.corr_break("C11/scale-outcome", sub, {"impl": status, "model": m_w[:200]})
            ctx.violation("exception", dict(tags, stage="set_grid", exc=status), sub,
                          {"what": "set_grid raises on a valid refinement tree placed on a short interval"})
            continue
        i_state, m_state = impl_state(obj), drv.ask("state " + line)
        if i_state != m_state:
            ok = False
            ctx.corr_break("C11/scale-state", sub, {"impl": i_state[:500], "model": m_state[:500]})
        wst, w = impl_weights(obj)
        if wst != "ok" or not m_w.startswith("ok "):
            ok = False
            if wst != m_w.split(" ")[0].replace("ok", "ok"):
                ctx.corr_break("C11/scale-outcome", sub, {"impl": wst, "model": m_w[:200]})
            if wst != "ok":
                ctx.violation("exception", dict(tags, stage="get_weights", exc=wst), sub, {})
            continue
        mw = parse_vec(m_w[3:])
        hf = float(H)
        if len(mw) != len(w) or any(abs(x - float(y)) > 1e-12 * max(hf, abs(float(y))) for x, y in zip(w, mw)):
            ok = False
            ctx.corr_break("C11/scale-weights", sub, {"impl/H": str([x / hf for x in w])[:400],
                                                      "model/H": str([float(y / H) for y in mw])[:400]})
        eg = [Fr(x) for x in obj.get_grid()]
        bad = []
        if len(w) != len(eg):
            bad.append("%d weights for %d points" % (len(w), len(eg)))
        else:
            s0 = sum(Fr(x) for x in w)
            s1 = sum(Fr(x) * ((p - left) / H) for x, p in zip(w, eg))       # f(x) = (x - a) / (b - a), exact: H / 2
            if abs(float((s0 - H) / H)) > TOL_ORACLE:
                bad.append("sum / length = %r" % float(s0 / H))
            if abs(float((s1 - H / 2) / H)) > TOL_ORACLE:
                bad.append("integral of (x-a)/(b-a) / length = %r instead of 0.5" % float(s1 / H))
        if bad:
            ok = False
            ctx.violation("weights-sum-linear", dict(tags, max_container=max(len(c.slices) for c in obj.slice_containers)),
                          sub, {"failed": bad, "containers": [len(c.slices) for c in obj.slice_containers],
                                "weights/H": str([x / hf for x in w])[:300]})
    ctx.count("scale_checked")
    ctx.count("scale_exp_%02d" % e)
    return ok


def check_scales(ctx, drv, case):
    """interval-scale stream: the case's (adaptive) tree on [left, left + 2^-e], e up to 40, left in {0, 1, -2}"""
    r = ctx.rng
    grid = [Fr(x) for x in case["grid"]]
    lv = [int(l) for l in case["levels"]]
    if len(grid) < 3 or max(lv) > 8:
        return True
    rel = [(x - grid[0]) / (grid[-1] - grid[0]) for x in grid]
    ok = True
    for _ in range(1 if r.random() < 0.5 else 2):
        configs = [[g, sn, cn, False] for g in ("GROUPED", "GROUPED_OPTIMIZED") for sn, _ in SLICES for cn, _ in CONTAINERS]
        configs.append(["UNIT", r.choice(SLICES)[0], r.choice(CONTAINERS)[0], False])
        configs.append([r.choice(GROUPINGS)[0], r.choice(SLICES)[0], r.choice(CONTAINERS)[0], True])
        sc = {"kind": "scale", "left": str(r.choice(SCALE_LEFTS)), "exponent": r.choice(SCALE_EXPONENTS),
              "rel": [frac_str(x) for x in rel], "levels": lv, "configs": configs}
        ok = run_scale(ctx, drv, sc) and ok
    return ok


def check_factories(ctx, drv, r, n):
    ex = E()
    ok = True
    for _ in range(n):
        a, b = r.choice(DOMAINS)
        m = r.randint(0, 7)
        j = r.randint(0, m)
        e = r.choice([1, 2, 3])
        ver = {1: ex.ExtrapolationVersion.ROMBERG_LINEAR, 2: ex.ExtrapolationVersion.ROMBERG_DEFAULT,
               3: ex.ExtrapolationVersion.ROMBERG_SIMPSON}[e]
        case = {"kind": "factory", "a": str(a), "b": str(b), "m": m, "j": j, "e": e}
        c = ex.ExtrapolationCoefficientsFactory(ver).get(float(a), float(b)).get_coefficient(m, j)
        mc = drv.ask("coeff %d %d %d %s %s" % (e, m, j, frac_str(a), frac_str(b)))
        if not close(c, Fr(mc), TOL_CORR):
            ok = False
            ctx.corr_break("C11/coeff", case, {"impl": c, "model": mc})
        # oracle: the coefficients of a row sum to one
        s = sum(Fr(float(ex.ExtrapolationCoefficientsFactory(ver).get(float(a), float(b)).get_coefficient(m, jj))) for jj in range(m + 1))
        if abs(float(s) - 1) > TOL_ORACLE:
            ok = False
            ctx.violation("coefficient-sum", {"exponent": e, "m": m}, case, {"sum": float(s)})
        vcode = {2: 1, 1: 2, 3: 3}[e]      # driver: 1 default, 2 linear, 3 simpson
        f = ex.RombergWeightFactory.get(float(a), float(b), ver)
        bw = f.get_boundary_point_weight(m)
        mb = drv.ask("bw %d %s %s %d" % (vcode, frac_str(a), frac_str(b), m))
        if not close(bw, Fr(mb), TOL_CORR):
            ok = False
            ctx.corr_break("C11/boundary-weight", case, {"impl": bw, "model": mb})
        l = r.randint(0, m + 1)
        try:
            iw = f.get_inner_point_weight(l, m)
            iws = "ok"
        except AssertionError:
            iws = "assert"
        mi = drv.ask("iw %d %s %s %d %d" % (vcode, frac_str(a), frac_str(b), l, m))
        if (iws == "assert") != (mi == "assert") or (iws == "ok" and not close(iw, Fr(mi), TOL_CORR)):
            ok = False
            ctx.corr_break("C11/inner-weight", dict(case, l=l), {"impl": iws if iws != "ok" else iw, "model": mi})
        ctx.count("factory_e%d" % e)
        ctx.case(dict(case, l=l), nontrivial=m >= 1)
    return ok


# ------------------------------------------------------------------------------------------------ entry points

def np_scalar(v):
    try:
        return v[0]
    except Exception:
        return v


def prod_linear(cs):
    """f(x) = prod_d (c0_d + c1_d x_d) as a sparseSpACE Function"""
    from sparseSpACE.Function import Function

    class ProdLinear(Function):
        def eval(self, coordinates):
            v = 1.0
            for (c0, c1), x in zip(cs, coordinates):
                v *= float(c0) + float(c1) * float(x)
            return v

    return ProdLinear()


# ------------------------------------------------------------------------------------------------ process histories
# several objects alive at once (sibling ExtrapolationGrid / GlobalRombergGrid objects with different options and equal
# grids, the balanced classes, the GridBinaryTree singleton used in between), the caller's argument lists reused and
# overwritten in place, returned weight lists overwritten by the caller, rarely used toggles in the middle.

def run_process(ctx, drv, proc):
    ex = E()
    from sparseSpACE.Grid import GlobalRombergGrid, GlobalBalancedRombergGrid
    grids = [([Fr(x) for x in g], [int(l) for l in lv]) for g, lv in proc["grids"]]
    objs, cur = [], []
    for spec in proc["objs"]:
        if spec[0] == "EG":
            o = ex.ExtrapolationGrid(slice_grouping=ex.SliceGrouping[spec[1]], slice_version=ex.SliceVersion[spec[2]],
                                     container_version=ex.SliceContainerVersion[spec[3]],
                                     force_balanced_refinement_tree=spec[4])
        elif spec[0] == "GRG":
            g0 = grids[0][0]
            o = GlobalRombergGrid([float(g0[0])], [float(g0[-1])], do_cache=spec[4],
                                  slice_grouping=ex.SliceGrouping[spec[1]], slice_version=ex.SliceVersion[spec[2]],
                                  container_version=ex.SliceContainerVersion[spec[3]])
        elif spec[0] == "BEG":
            o = ex.BalancedExtrapolationGrid()
        else:
            g0 = grids[0][0]
            o = GlobalBalancedRombergGrid([float(g0[0])], [float(g0[-1])])
        objs.append(o)
        cur.append(None)
    # the caller's argument lists: one pair per object, overwritten in place for every further call on that object
    # (ExtrapolationGrid keeps a reference to the list it was given, so a pair shared between objects would change the
    # evaluation points of integrate() behind the back of the other object -- caller's responsibility, not part of C11)
    bufs = [([], []) for _ in proc["objs"]]
    ok = True

    def expected(k):
        """model weights of object k on its current grid (the model was compared with isolated objects before)"""
        spec, (g, lv) = proc["objs"][k], grids[cur[k]]
        if spec[0] in ("EG", "GRG"):
            fb = spec[4] if spec[0] == "EG" else False
            m = drv.ask("wts %d %d %d %d %s %s" % (dict(GROUPINGS)[spec[1]], dict(SLICES)[spec[2]], dict(CONTAINERS)[spec[3]],
                                                   1 if fb else 0, rats(g), nats(lv)))
            mg = drv.ask("state %d %d %d %d %s %s" % (dict(GROUPINGS)[spec[1]], dict(SLICES)[spec[2]], dict(CONTAINERS)[spec[3]],
                                                     1 if fb else 0, rats(g), nats(lv)))
            if not m.startswith("ok "):
                return None, None
            return parse_vec(m[3:]), parse_vec(mg[2:mg.index(" L ")])
        m = drv.ask("bal %s %s" % (rats(g), nats(lv)))
        if not m.startswith("ok "):
            return None, None
        w = parse_vec(m[3:])
        return (w if spec[0] == "BEG" else w[1:-1]), (g if spec[0] == "BEG" else g[1:-1])

    def fail(i, op, what, detail):
        ctx.violation("process", {"op": op[0], "object": proc["objs"][op[1]][0] if len(op) > 1 and op[1] is not None else "-",
                                  "what": what, "n_objects": len(objs)}, dict(proc, failed_at=i), detail)

    for i, op in enumerate(proc["ops"]):
        try:
            if op[0] == "set":
                k, gi = op[1], op[2]
                g, lv = grids[gi]
                buf_g, buf_l = bufs[k]
                buf_g[:] = [float(x) for x in g]
                buf_l[:] = list(lv)
                spec = proc["objs"][k]
                try:
                    if spec[0] in ("EG", "BEG"):
                        quiet(lambda: objs[k].set_grid(buf_g, buf_l))
                    else:
                        objs[k].a, objs[k].b = [buf_g[0]], [buf_g[-1]]
                        if op[3]:
                            objs[k].initialize_grid()
                        objs[k].set_grid([buf_g], [buf_l])
                    cur[k] = gi
                except AssertionError:
                    cur[k] = None
                    if expected_ok(proc, drv, k, g, lv):
                        fail(i, op, "set_grid raises AssertionError although the model accepts the grid", {})
                        return False
                if buf_g != [float(x) for x in g] or buf_l != list(lv):
                    fail(i, op, "set_grid modified the caller's argument lists", {"grid": str(buf_g)[:200], "levels": str(buf_l)[:200]})
                    return False
            elif op[0] == "tree":                       # the GridBinaryTree singleton is used by somebody else
                g, lv = grids[op[2]]
                t = ex.GridBinaryTree()
                try:
                    t.init_tree([float(x) for x in g], list(lv))
                    t.force_full_tree_invariant()
                except AssertionError:
                    pass
            elif op[0] == "toggle":
                k = op[1]
                spec = proc["objs"][k]
                if spec[0] == "EG":
                    if op[2] == 0:
                        objs[k].set_function(history_f("linear")[0])
                    elif cur[k] is not None:
                        objs[k].update_weights()
                elif spec[0] == "GRG":
                    objs[k].initialize_grid()
            elif op[0] in ("obs", "mutate"):
                k = op[1]
                if cur[k] is None:
                    continue
                spec = proc["objs"][k]
                mw, mg = expected(k)
                if mw is None:
                    continue
                reps = []
                for rep in range(2):
                    if spec[0] in ("EG", "BEG"):
                        reps.append(objs[k].get_weights())
                    else:
                        reps.append(list(objs[k].weights[0]))
                got = [float(x) for x in reps[0]]
                if [float(x) for x in reps[1]] != got:
                    fail(i, op, "two successive reads of the weights differ", {})
                    return False
                if len(got) != len(mw) or any(not close(x, y, TOL_CORR) for x, y in zip(got, mw)):
                    fail(i, op, "weights are not those of this object's options on its current grid",
                         {"got": str(got)[:300], "model": str([float(y) for y in mw])[:300], "spec": spec,
                          "grid": proc["grids"][cur[k]]})
                    return False
                if spec[0] == "EG":
                    f, fx = history_f("table")
                    val = float(objs[k].integrate(f))
                    own = sum(Fr(x) * fx(p) for x, p in zip(got, mg))
                    if abs(val - float(own)) > 1e-11 * max(1.0, abs(float(own)), 4 * float(mg[-1] - mg[0])):
                        fail(i, op, "integrate() does not use the weights get_weights() returns on the current grid",
                             {"integrate": val, "sum w f": float(own)})
                        return False
                if spec[0] == "GRG":
                    cs = [(Fr(3, 4), Fr(-1, 2))]
                    val = float(np_scalar(objs[k].integrate(prod_linear(cs), [0], list(objs[k].a), list(objs[k].b))))
                    own = sum(Fr(x) * (cs[0][0] + cs[0][1] * p) for x, p in zip(got, mg))
                    if abs(val - float(own)) > 1e-11 * max(1.0, abs(float(own))):
                        fail(i, op, "the wrapper's integrator does not use its stored weights", {"integrate": val, "sum w f": float(own)})
                        return False
                if op[0] == "mutate" and not (spec[0] == "GRG" and spec[4]):
                    # the caller overwrites the list it received (the cached list of a caching wrapper is the cache
                    # entry itself in the unchanged code, so that case is not part of the stream)
                    for rr in reps:
                        for j in range(len(rr)):
                            rr[j] = -7.0
        except Exception as exn:
            import traceback
            fail(i, op, "exception " + type(exn).__name__, {"trace": traceback.format_exc()[-600:]})
            return False
    ctx.count("process_checked")
    return ok


def expected_ok(proc, drv, k, g, lv):
    spec = proc["objs"][k]
    if spec[0] in ("EG", "GRG"):
        fb = spec[4] if spec[0] == "EG" else False
        m = drv.ask("wts %d %d %d %d %s %s" % (dict(GROUPINGS)[spec[1]], dict(SLICES)[spec[2]], dict(CONTAINERS)[spec[3]],
                                               1 if fb else 0, rats(g), nats(lv)))
    else:
        m = drv.ask("bal %s %s" % (rats(g), nats(lv)))
    return m.startswith("ok ")


def check_process(ctx, drv, case, prev):
    r = ctx.rng
    grid = [Fr(x) for x in case["grid"]]
    lv = [int(l) for l in case["levels"]]
    if len(grid) < 2:
        return True
    rel = [(x - grid[0]) / (grid[-1] - grid[0]) for x in grid]
    dom = (grid[0], grid[-1])
    mk = lambda rl, l: ([frac_str(x) for x in place_tree(rl, dom[0], dom[1])], list(l))
    gl = [(list(case["grid"]), lv), mk(*mirrored(rel, lv))]
    g2, l2 = gen_refinement_tree(r, len(grid), r.choice(["uniform", "deep", "breadth"]))
    rel2 = [(x - g2[0]) / (g2[-1] - g2[0]) for x in g2]
    gl.append(mk(rel2, l2))
    full = case["kind"] in ("full", "complete") and len(grid) >= 3
    cfg = lambda: [r.choice(GROUPINGS)[0], r.choice(SLICES)[0], r.choice(CONTAINERS)[0]]
    c1 = cfg()
    c2 = cfg()
    while c2 == c1:
        c2 = cfg()
    objs = [["EG"] + c1 + [False], ["EG"] + c2 + [r.random() < 0.5], ["GRG"] + c1 + [True], ["GRG"] + c2 + [True],
            ["GRG"] + cfg() + [False]]
    if full:
        objs += [["BEG"], ["GBRG"]]
    n = len(objs)
    ok_grids = [0, 1] if full else [0, 1, 2]          # the balanced classes only accept full trees
    ops = [["set", k, 0, False] for k in range(n)] + [["obs", k] for k in range(n)]
    for _ in range(r.randint(6, 12)):
        x = r.random()
        k = r.randrange(n)
        gi = r.choice(ok_grids if objs[k][0] in ("BEG", "GBRG") else [0, 1, 2])
        if x < 0.35:
            ops.append(["set", k, gi, r.random() < 0.5])
            ops.append(["obs", r.randrange(n)])
        elif x < 0.6:
            ops.append(["obs", k])
        elif x < 0.75:
            ops.append(["mutate", k])
        elif x < 0.87:
            ops.append(["tree", None, r.randrange(3)])
        else:
            ops.append(["toggle", k, r.randrange(2)])
    ops += [["obs", k] for k in range(n)]
    proc = {"kind": "process", "grids": gl, "objs": objs, "ops": ops}
    return run_process(ctx, drv, proc)


def gen_runs_tree(r):
    """size switches of the containers: a complete grid of depth m whose first j slices are refined once more gives
    runs of 2j fine and 2^m - j coarse slices (container sizes 1, 2, powers of two and every split 3, 5, 6, 7, ...)"""
    m = r.randint(1, 4)
    grid, lv = gen_complete(r, m)
    j = r.randint(1, 2 ** m - 1)
    side = r.random() < 0.5
    pts = list(zip(grid, lv))
    if side:
        pts = [(grid[0] + grid[-1] - x, l) for x, l in reversed(pts)]
    out = []
    for i in range(len(pts) - 1):
        out.append(pts[i])
        if i < j:
            out.append(((pts[i][0] + pts[i + 1][0]) / 2, max(pts[i][1], pts[i + 1][1]) + 1))
    out.append(pts[-1])
    if side:
        a, b = out[0][0], out[-1][0]
        out = [(a + b - x, l) for x, l in reversed(out)]
    return [x for x, _ in out], [l for _, l in out]


def run_case(ctx, drv, case, prev=None):
    try:
        return run_case_inner(ctx, drv, case, prev)
    except Exception as exn:
        import traceback
        detail = {"exception": type(exn).__name__, "trace": traceback.format_exc()[-900:]}
        if case["kind"] in ("tree", "complete", "full"):
            ctx.violation("exception", {"stage": "observation", "exc": type(exn).__name__, "n_points": len(case["grid"])},
                          dict(case, prev=prev), detail)
        else:
            ctx.corr_break("C11/exception-on-malformed-input", dict(case, prev=prev), detail)
        return False


def run_case_inner(ctx, drv, case, prev=None):
    kind = case["kind"]
    valid = kind in ("tree", "complete", "full")
    depth = case.get("depth") if kind == "complete" else None
    ok = check_extrapolation(ctx, drv, case, valid, depth)
    ok = check_tree(ctx, drv, case, valid) and ok
    if kind in ("full", "complete") and len(case["grid"]) >= 3:
        ok = check_balanced(ctx, drv, case, True, depth) and ok
    else:
        ok = check_balanced(ctx, drv, case, False) and ok
    if valid:
        ok = check_wrappers(ctx, case, prev) and ok
        ok = check_wrappers_nd(ctx, case, prev) and ok
        ok = check_histories(ctx, drv, case, prev) and ok
        ok = check_scales(ctx, drv, case) and ok
        if ctx.tier == "thorough" or ctx.rng.random() < 0.6:
            ok = check_process(ctx, drv, case, prev) and ok
    return ok


def mk_case(kind, grid, lv, **kw):
    return dict(kind=kind, grid=[frac_str(x) for x in grid], levels=[int(l) for l in lv], **kw)


def run(ctx):
    thorough = ctx.tier == "thorough"
    r = ctx.rng
    ctx.rule = ("random dyadic refinement trees (repeated bisection, 2-33 points, uniform / deep / breadth-first refinement, 9 domains), "
                "complete dyadic grids of depth 0-5, full point trees (0 or 2 children) and a malformed stream (perturbed levels, swapped / "
                "duplicated / moved points, non-zero boundary level, random levels); every grid goes through the 24 configurations "
                "grouping x slice x container x force_balanced, GridBinaryTree (init, force_full, increment), BalancedExtrapolationGrid, "
                "the Grid.py wrappers (1-D cache re-keying; one GlobalRombergGrid object over dim 2-3 non-cubic boxes sharing a tree across "
                "dimensions and over successive set_grid calls), object histories (one ExtrapolationGrid / BalancedExtrapolationGrid object "
                "through 2-5 set_grid calls, integrate(const / linear / value table) and get_weights after each) and an interval-scale stream "
                "(the tree placed on [a, a + 2^-e], e in 3..40, a in {0, 1, -2}, all grouped configurations, weights and clauses relative to "
                "the interval length), process histories (sibling ExtrapolationGrid / GlobalRombergGrid objects with different options and equal "
                "grids plus the balanced classes alive at once, interleaved set_grid / observations, caller lists reused in place, returned "
                "weights overwritten, GridBinaryTree singleton and toggles in between, wrapper integrator route) and run-length trees (container "
                "sizes 1, 2, 2^k and every split); "
                "a case is one (grid, levels) pair, distinct by its canonical fractions, non-trivial if it has at least 3 points")
    ctx.assumptions = ["floating-point rounding is not modelled: dyadic grid points are exact in binary floating point, weights are compared at 1e-12, property clauses at 1e-9",
                       "the experimental LAGRANGE_* containers and ROMBERG_DEFAULT_CONST_SUBTRACTION slices are out of scope of C11 and not exercised"]
    drv = ctx.driver("drv_c11")
    import romberg_gen, sys
    romberg_gen.run(ctx, drv, sys.modules[__name__])      # translator tie of the Romberg coefficients / point weights (see romberg_gen.py)
    check_factories(ctx, drv, r, 40 if not thorough else 300)
    # complete grids: the degree clause
    for m in range(0, 6):
        grid, lv = gen_complete(r, m)
        case = mk_case("complete", grid, lv, depth=m)
        run_case(ctx, drv, case)
        ctx.count("kind_complete")
        ctx.case(case, nontrivial=m >= 1, sample=case if m == 2 else None)
    # the trivial tree
    case = mk_case("tree", [Fr(0), Fr(1)], [0, 0])
    run_case(ctx, drv, case)
    ctx.case(case, nontrivial=False)
    n = 500 if not thorough else 6000
    budget = 90 if not thorough else 540
    prev = None
    for k in range(n):
        if ctx.time_left(budget) < 0:
            break
        x = r.random()
        if x < 0.1:
            grid, lv = gen_runs_tree(r)
            kind = "tree"
            ctx.count("kind_runs")
        elif x < 0.55:
            npts = r.choice([2, 3, 3, 4, 5, 6, 7, 8, 9, 11, 13, 17, 21, 25, 33])
            grid, lv = gen_refinement_tree(r, npts, r.choice(["uniform", "uniform", "deep", "breadth"]))
            kind = "tree"
        elif x < 0.75:
            grid, lv = gen_full_tree(r, r.choice([3, 5, 7, 9, 13, 17, 25, 33]))
            kind = "full"
        else:
            grid, lv = gen_refinement_tree(r, r.choice([2, 3, 4, 5, 7, 9, 13]), r.choice(["uniform", "deep", "breadth"]))
            if r.random() < 0.3:
                grid, lv = gen_full_tree(r, r.choice([3, 5, 7, 9, 13]))
            grid, lv, what = malform(r, grid, lv)
            kind = "malformed"
            ctx.count("malformed_" + what)
        case = mk_case(kind, grid, lv)
        ok = run_case(ctx, drv, case, prev)
        if kind != "malformed":
            prev = {"grid": case["grid"], "levels": case["levels"]}
        ctx.count("kind_" + kind)
        ctx.count("points_%02d" % (len(grid) if len(grid) <= 9 else (len(grid) // 8) * 8))
        ctx.case(case, nontrivial=len(grid) >= 3, sample=case if k < 2 else None)
        if not ok and (len(ctx.violations) + len(ctx.corr_breaks)) >= 40:
            break


def replay(ctx, rp):
    case = rp["case"]
    drv = ctx.driver("drv_c11")
    if case.get("kind") == "process":
        ok = run_process(ctx, drv, case)
        print("replay: %s" % ("property holds on this process history" if ok else "REPRODUCED"))
        for v in ctx.violations[:4]:
            print("  violation:", v["probe"], v["tags"], str(v["detail"])[:600])
        for d in ctx._drivers:
            d.close()
        return 0 if ok else 1
    if case.get("kind") == "scale":
        ok = run_scale(ctx, drv, dict(case, configs=[case["config"]] if "config" in case else case["configs"]))
        print("replay: %s" % ("property holds and model agrees on this case" if ok else "REPRODUCED"))
        for v in ctx.violations[:4]:
            print("  violation:", v["probe"], v["tags"], v["detail"])
        for c in ctx.corr_breaks[:4]:
            print("  disagreement:", c["observable"], c["detail"])
        for d in ctx._drivers:
            d.close()
        return 0 if ok else 1
    if case.get("kind") == "history":
        ok = run_history(ctx, drv, case)
        print("replay: %s" % ("property holds and model agrees on this history" if ok else "REPRODUCED"))
        for v in ctx.violations[:4]:
            print("  violation:", v["probe"], v["tags"], v["detail"])
        for c in ctx.corr_breaks[:4]:
            print("  disagreement:", c["observable"], c["detail"])
        for d in ctx._drivers:
            d.close()
        return 0 if ok else 1
    if case.get("kind") == "wrapper-nd":
        ok = run_nd_calls(ctx, case["config"], case["do_cache"], case["calls"], case)
        print("replay: %s" % ("property holds on this case" if ok else "REPRODUCED"))
        for v in ctx.violations[:4]:
            print("  violation:", v["probe"], v["tags"], v["detail"])
        return 0 if ok else 1
    if case.get("kind") == "factory":
        print("replay: factory cases are regenerated from the seed, not replayed individually")
        return 0
    ok = run_case(ctx, drv, case, case.get("prev"))
    unlisted = len(ctx.violations)
    print("replay: %s" % ("property holds and model agrees on this case" if ok and not ctx.known_hits else
                          ("REPRODUCED" if unlisted or ctx.corr_breaks else "only known findings reproduced")))
    for v in ctx.violations[:4]:
        print("  violation:", v["probe"], v["tags"], v["detail"])
    for fid, (f, cnt) in ctx.known_hits.items():
        print("  known finding:", fid, cnt)
    for c in ctx.corr_breaks[:4]:
        print("  disagreement:", c["observable"], c["detail"])
    for d in ctx._drivers:
        d.close()
    return 1 if (unlisted or ctx.corr_breaks) else 0
