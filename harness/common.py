"""Shared machinery of the sparseSpACE verification checks.

Every check  (./check Cxx [--tier quick|thorough] [--replay file])  does, in this order:
  1. build the Lean library + the line-protocol driver of the property (lake, serialised by flock);
  2. audit: `#print axioms` of every property theorem (obligations) -- all must be present and depend on
     nothing but propext / Classical.choice / Quot.sound;
  3. run the property module: correspondence (model vs. the real implementation imported from /repo's
     working tree) and oracle (the property statement itself evaluated on the implementation);
  4. verdict + evidence file.
"""
import fcntl
import hashlib
import json
import os
import random
import re
import subprocess
import sys
import time
import traceback
import warnings

ROOT = os.path.dirname(os.path.dirname(os.path.abspath(__file__)))
LEAN = os.environ.get("VERIF_LEAN") or os.path.join(ROOT, "lean")
REPO = os.environ.get("VERIF_REPO", "/repo")
ALLOWED_AXIOMS = {"propext", "Classical.choice", "Quot.sound"}
FORBIDDEN = re.compile(r"\b(sorry|admit|native_decide|bv_decide|implemented_by|unsafe|maxHeartbeats 0)\b|^axiom ", re.M)

TRUSTED_BASE = [
    "Lean 4.33.0 kernel (lake build; leanchecker re-check in the thorough tier)",
    "axioms propext, Classical.choice, Quot.sound (audited per theorem with #print axioms)",
    "hand-written Lean model; faithfulness checked by the differential correspondence of this run only on the generated inputs",
    "Python harness, its canonicalisation and tolerances; CPython, numpy, scipy",
    "floating-point rounding is not modelled (exact Int/Rat model, dyadic inputs or tolerance 1e-9)",
]


def import_repo():
    """make `import sparseSpACE` resolve to the working tree under test"""
    if REPO not in sys.path:
        sys.path.insert(0, REPO)
    warnings.filterwarnings("ignore")
    import sparseSpACE  # noqa: F401
    p = os.path.realpath(os.path.dirname(sparseSpACE.__file__))
    assert p.startswith(os.path.realpath(REPO)), "sparseSpACE imported from %s, not from %s" % (p, REPO)


class Driver:
    """line-protocol connection to a compiled Lean model driver"""

    def __init__(self, exe):
        self.exe = exe
        self.p = subprocess.Popen([exe], stdin=subprocess.PIPE, stdout=subprocess.PIPE, text=True, bufsize=1)
        self.lines = 0

    def ask(self, line):
        assert "\n" not in line
        self.p.stdin.write(line + "\n")
        self.p.stdin.flush()
        out = self.p.stdout.readline()
        if out == "":
            raise RuntimeError("model driver %s died on line %r" % (self.exe, line))
        self.lines += 1
        return out.rstrip("\n")

    def close(self):
        try:
            self.p.stdin.close()
            self.p.wait(timeout=10)
        except Exception:
            self.p.kill()


class Ctx:
    def __init__(self, prop, tier, seed):
        self.prop = prop
        self.tier = tier
        self.seed = seed
        self.rng = random.Random((seed * 1000003) ^ int(hashlib.sha256(prop.encode()).hexdigest()[:8], 16))
        self.t0 = time.time()
        self.t_start = self.t0
        self.evaluations = 0
        self.hashes = set()
        self.samples = []
        self.hist = {}
        self.violations = []      # unlisted property violations on the implementation (with replay case)
        self.known_hits = {}      # finding id -> count
        self.corr_breaks = []     # model/implementation disagreements
        self.proof_failures = []  # obligations not discharged
        self.obligations = []
        self.discharged = []
        self.assumptions = []
        self.extra = {}
        self.rule = ""
        self.checker_cmd = ""
        self._drivers = []
        self.max_reports = 5
        kf = os.environ.get("VERIF_KNOWN") or os.path.join(ROOT, "known_findings.json")
        self.known = json.load(open(kf)).get("findings", []) if os.path.exists(kf) else []

    # ---------------------------------------------------------------- Lean side
    def lean_build(self, targets):
        lock = open(os.path.join(LEAN, ".build.lock"), "w")
        fcntl.flock(lock, fcntl.LOCK_EX)
        try:
            r = subprocess.run(["lake", "build"] + targets, cwd=LEAN, capture_output=True, text=True)
        finally:
            fcntl.flock(lock, fcntl.LOCK_UN)
            lock.close()
        return r.returncode == 0, (r.stdout + r.stderr)

    def audit(self):
        """obligations = the `#print axioms` lines of Audit/<prop>.lean"""
        pid = self.prop
        audit_file = os.path.join(LEAN, "SparseSpace", "Audit", pid + ".lean")
        names = re.findall(r"^#print axioms\s+(\S+)", open(audit_file).read(), re.M)
        self.obligations = names
        self.checker_cmd = "cd lean && lake build SparseSpace.Properties.%s && lake env lean SparseSpace/Audit/%s.lean" % (pid, pid)
        targets = re.findall(r"^import\s+(SparseSpace\.\S+)", open(audit_file).read(), re.M) or ["SparseSpace.Properties." + pid]
        ok, log = self.lean_build(targets)
        if not ok:
            self.proof_failures.append({"theorem": "SparseSpace.Properties." + pid, "reason": "lake build failed", "log": log[-3000:]})
            return
        r = subprocess.run(["lake", "env", "lean", "SparseSpace/Audit/%s.lean" % pid], cwd=LEAN, capture_output=True, text=True)
        out = r.stdout + r.stderr
        found = {}
        for m in re.finditer(r"'([^']+)' depends on axioms: \[([^\]]*)\]", out, re.S):
            found[m.group(1)] = {a.strip() for a in m.group(2).replace("\n", " ").split(",") if a.strip()}
        for m in re.finditer(r"'([^']+)' does not depend on any axioms", out):
            found[m.group(1)] = set()
        for n in names:
            if n not in found:
                self.proof_failures.append({"theorem": n, "reason": "not found / does not elaborate", "log": out[-2000:]})
            elif not found[n] <= ALLOWED_AXIOMS:
                self.proof_failures.append({"theorem": n, "reason": "inadmissible axioms %s" % sorted(found[n] - ALLOWED_AXIOMS)})
            else:
                self.discharged.append(n)
        if self.tier == "thorough":
            t = time.time()
            rc = subprocess.run(["lake", "env", "leanchecker", "SparseSpace.Properties." + pid], cwd=LEAN, capture_output=True, text=True)
            self.extra["leanchecker"] = {"module": "SparseSpace.Properties." + pid, "rc": rc.returncode, "wall_s": round(time.time() - t, 1)}
            if rc.returncode != 0:
                self.proof_failures.append({"theorem": "SparseSpace.Properties." + pid, "reason": "leanchecker rejected the compiled module",
                                            "log": (rc.stdout + rc.stderr)[-2000:]})
        # textual audit of the property file and everything it could import (comments stripped)
        hits = []
        for dp, _, fs in os.walk(os.path.join(LEAN, "SparseSpace")):
            for f in fs:
                if f.endswith(".lean"):
                    src = open(os.path.join(dp, f)).read()
                    src = re.sub(r"/-.*?-/", "", src, flags=re.S)
                    src = re.sub(r"--.*", "", src)
                    if FORBIDDEN.search(src):
                        hits.append(os.path.relpath(os.path.join(dp, f), LEAN))
        self.extra["forbidden_token_files"] = hits

    def driver(self, name):
        ok, log = self.lean_build([name])
        exe = os.path.join(LEAN, ".lake", "build", "bin", name)
        if not ok or not os.path.exists(exe):
            raise RuntimeError("cannot build model driver %s:\n%s" % (name, log[-3000:]))
        d = Driver(exe)
        self._drivers.append(d)
        return d

    # ---------------------------------------------------------------- bookkeeping
    def count(self, key, n=1):
        self.hist[key] = self.hist.get(key, 0) + n

    def case(self, canon, nontrivial=True, sample=None):
        """one explored case; `canon` any JSON-able canonical description used for distinctness"""
        self.evaluations += 1
        if nontrivial:
            self.hashes.add(hashlib.sha1(json.dumps(canon, sort_keys=True, default=str).encode()).hexdigest())
        if sample is not None and len(self.samples) < 4:
            self.samples.append(sample)

    def _known(self, probe, tags):
        for f in self.known:
            if f.get("property") != self.prop or f.get("probe") != probe:
                continue
            ok = True
            for k, cond in f.get("match", {}).items():
                v = tags.get(k)
                if isinstance(cond, dict):
                    if "ge" in cond and not (v is not None and v >= cond["ge"]):
                        ok = False
                    if "le" in cond and not (v is not None and v <= cond["le"]):
                        ok = False
                elif isinstance(cond, list):
                    if v not in cond:
                        ok = False
                elif v != cond:
                    ok = False
            if ok:
                return f
        return None

    def violation(self, probe, tags, case, detail):
        """the property fails on the implementation for `case` (replayable)"""
        f = self._known(probe, tags)
        if f is not None:
            self.known_hits.setdefault(f["id"], [f, 0])[1] += 1
            return False
        if len(self.violations) < 50:
            self.violations.append({"probe": probe, "tags": tags, "case": case, "detail": detail})
        return True

    def corr_break(self, observable, case, detail):
        """model and implementation disagree on `observable` for `case`"""
        if len(self.corr_breaks) < 50:
            self.corr_breaks.append({"observable": observable, "case": case, "detail": detail})

    def time_left(self, budget):
        return budget - (time.time() - self.t0)

    # ---------------------------------------------------------------- verdict
    def finish(self):
        for d in self._drivers:
            d.close()
        wall = time.time() - self.t_start
        rc = 0
        lines = []
        for fid, (f, n) in sorted(self.known_hits.items()):
            lines.append("KNOWN-FINDING: property=%s %s [%s, %d case(s) this run]" % (self.prop, f["what"], fid, n))
        rdir = os.path.join(ROOT, "replays")
        os.makedirs(rdir, exist_ok=True)
        if self.violations:
            rc = 1
            seen = set()
            k = 0
            for v in self.violations:
                if v["probe"] in seen:
                    continue
                seen.add(v["probe"])
                path = os.path.join(rdir, "%s-%d-%d.json" % (self.prop, self.seed, k))
                k += 1
                json.dump({"property": self.prop, "kind": "failing-input", "probe": v["probe"], "tags": v["tags"],
                           "case": v["case"], "detail": v["detail"], "seed": self.seed, "tier": self.tier},
                          open(path, "w"), indent=1, default=str)
                lines.append("VIOLATION property=%s replay=%s" % (self.prop, os.path.relpath(path, ROOT)))
        elif self.proof_failures or self.corr_breaks:
            rc = 1
            path = os.path.join(rdir, "%s-%d-unchecked.json" % (self.prop, self.seed))
            json.dump({"property": self.prop, "kind": "no-failing-input-found",
                       "theorems_not_checking": self.proof_failures,
                       "correspondence_not_checking": self.corr_breaks[:10],
                       "searched": {"evaluations": self.evaluations, "distinct": len(self.hashes)},
                       "seed": self.seed, "tier": self.tier}, open(path, "w"), indent=1, default=str)
            lines.append("VIOLATION property=%s replay=%s no-failing-input-found" % (self.prop, os.path.relpath(path, ROOT)))
        cov = {
            "obligations": len(self.obligations),
            "discharged": len(self.discharged),
            "checker_cmd": self.checker_cmd,
            "trusted_base": TRUSTED_BASE,
            "theorems": self.obligations,
            "evaluations": self.evaluations,
            "distinct_nontrivial": len(self.hashes),
            "rule": self.rule,
            "samples": self.samples if self.samples else [{"obligation": o} for o in self.obligations[:3]],
            "histogram": dict(sorted(self.hist.items())),
            "correspondence_disagreements": len(self.corr_breaks),
            "known_findings_hit": {k: v[1] for k, v in self.known_hits.items()},
            "model_driver_lines": sum(d.lines for d in self._drivers),
        }
        cov.update({k: v for k, v in self.extra.items() if not k.startswith("_")})
        ev = {"property_id": self.prop, "tier": self.tier, "seed": self.seed, "level": "proof", "coverage": cov,
              "assumptions": self.assumptions, "wall_s": round(wall, 2),
              "violations": len(self.violations) + (1 if (rc and not self.violations) else 0)}
        os.makedirs(os.path.join(ROOT, "evidence"), exist_ok=True)
        json.dump(ev, open(os.path.join(ROOT, "evidence", self.prop + ".json"), "w"), indent=1, default=str)
        for l in lines:
            print(l)
        print("%s tier=%s seed=%d obligations=%d/%d cases=%d distinct=%d corr_disagreements=%d violations=%d known=%d wall=%.1fs -> exit %d"
              % (self.prop, self.tier, self.seed, len(self.discharged), len(self.obligations), self.evaluations,
                 len(self.hashes), len(self.corr_breaks), len(self.violations), len(self.known_hits), wall, rc))
        sys.stdout.flush()
        return rc


def frac_str(x):
    """canonical p/q string of a python float / Fraction / int (exact)"""
    from fractions import Fraction
    f = Fraction(x)
    return str(f.numerator) if f.denominator == 1 else "%d/%d" % (f.numerator, f.denominator)


def parse_frac(s):
    from fractions import Fraction
    return Fraction(s)


def vec_str(v):
    return ",".join(str(int(x)) for x in v) if len(v) else "-"


def close(a, b, tol=1e-9):
    return abs(float(a) - float(b)) <= tol * max(1.0, abs(float(b)))
