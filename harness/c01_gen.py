"""C01 translator tie: the Lean definitions GENERATED from the current combiScheme.py must still satisfy C01gen.

Called by harness/c01.py at the start of every run:
  (a) tools/py2lean translates <REPO>/sparseSpACE/combiScheme.py into a scratch directory;
  (b) output byte-identical to the committed lean/SparseSpace/Generated/CombiGen.lean  ->  the tie holds by the
      already built and audited theorems of Properties/C01gen.lean (count gen-tie_identical);
  (c) otherwise the fresh file + Lemmas/CombiGen*.lean + Properties/C01gen.lean are compiled (module root GenScratch)
      against the built library; all proofs still check -> gen-tie_regenerated-ok; translation or a proof fails ->
      ctx.corr_break("gen-tie", ...) with message and diff, and a DIRECTED search for a failing input: the fresh
      definitions are evaluated next to the hand model on all small configurations / short histories (lean --run),
      the disagreeing histories and a systematic stream of small histories are replayed on the real implementation
      (correspondence + oracle of c01.py).
Nothing outside <LEAN>/.gen-scratch/<pid>/ is written; the directory is removed afterwards."""
import difflib
import os
import re
import shutil
import subprocess
import sys
import time

import common

TOOL = os.path.join(common.ROOT, "tools", "py2lean", "py2lean.py")
COMMITTED = os.path.join(common.LEAN, "SparseSpace", "Generated", "CombiGen.lean")
DIFF_DRIVER = os.path.join(os.path.dirname(os.path.abspath(__file__)), "c01_gen_diff.lean")
TRUSTED = ("translator tie: the translator tools/py2lean and the helper semantics of Model/PyRt.lean (set = duplicate-free list in insertion "
           "order, dict = association list, list/tuple = List under value semantics, int / exact Rat for true division, raising "
           "operations totalised) are trusted; they are cross-checked by the unchanged correspondence test, which runs the real Python")


def _lean_env(scratch):
    r = subprocess.run(["lake", "env", "printenv", "LEAN_PATH"], cwd=common.LEAN, capture_output=True, text=True)
    env = dict(os.environ)
    env["LEAN_PATH"] = r.stdout.strip() + os.pathsep + scratch
    return env


def _proof_files():
    """(module name in scratch, source path) of the files that depend on the generated definitions, in import order"""
    lem = os.path.join(common.LEAN, "SparseSpace", "Lemmas")
    files = {}
    for f in sorted(os.listdir(lem)):
        if re.fullmatch(r"CombiGen\w*\.lean", f):
            files["SparseSpace.Lemmas." + f[:-5]] = os.path.join(lem, f)
    files["SparseSpace.Properties.C01gen"] = os.path.join(common.LEAN, "SparseSpace", "Properties", "C01gen.lean")
    deps = {m: [d for d in re.findall(r"^import\s+(\S+)", open(p).read(), re.M)] for m, p in files.items()}
    # only files that (transitively) import the generated module are recompiled
    dirty = {"SparseSpace.Generated.CombiGen"}
    changed = True
    while changed:
        changed = False
        for m in files:
            if m not in dirty and any(d in dirty for d in deps[m]):
                dirty.add(m)
                changed = True
    order, done = [], set()

    def visit(m):
        if m in done or m not in files or m not in dirty:
            return
        done.add(m)
        for d in deps[m]:
            visit(d)
        order.append(m)
    for m in files:
        visit(m)
    return [(m, files[m]) for m in order], dirty


def _scratch_name(mod):
    """module name of a recompiled file in the scratch tree (the generated file keeps the name CombiGen)"""
    parts = mod.split(".")
    return "GenScratch." + (parts[-1] if parts[-2] == "Generated" else parts[-2] + "_" + parts[-1])


def compile_fresh(scratch, env, budget=100.0):
    """compile the fresh generated file and every proof file depending on it; -> (ok, stage, message, seconds)"""
    t0 = time.time()
    gdir = os.path.join(scratch, "GenScratch")
    order, dirty = _proof_files()
    jobs = [("GenScratch.CombiGen", os.path.join(gdir, "CombiGen.lean"))]
    for mod, path in order:
        src = open(path).read()
        src = re.sub(r"^import\s+(\S+)", lambda m: "import " + (_scratch_name(m.group(1)) if m.group(1) in dirty else m.group(1)), src, flags=re.M)
        dst = os.path.join(gdir, _scratch_name(mod).split(".")[-1] + ".lean")
        open(dst, "w").write(src)
        jobs.append((_scratch_name(mod), dst))
    for mod, path in jobs:
        left = budget - (time.time() - t0)
        try:
            r = subprocess.run(["lean", "-o", path[:-5] + ".olean", path], cwd=scratch, env=env, capture_output=True, text=True,
                               timeout=max(5.0, left))
        except subprocess.TimeoutExpired:
            return False, mod, "timeout while compiling " + mod, time.time() - t0
        out = r.stdout + r.stderr
        if r.returncode != 0 or re.search(r": error", out) or "sorry" in out:
            m = re.search(r"^.*?: error.*?(?=^\S+?:\d+:\d+: |\Z)", out, re.M | re.S)
            return False, mod, (m.group(0) if m else out)[:1500], time.time() - t0
    return True, "", "", time.time() - t0


def directed_histories():
    """systematic small histories (dim, lmin, lmax, ops) for the real implementation: every vector of a small box as a
    single request, and chains refining active vectors in sorted / reverse order"""
    import itertools
    from sparseSpACE.combiScheme import CombiScheme
    out = []
    for dim in (1, 2, 3):
        for lmin, lmax in ((1, 1), (1, 2), (1, 3), (0, 2), (2, 3), (2, 4)):
            if dim <= 2:
                for v in itertools.product(range(lmin - 1, lmax + 2), repeat=dim):
                    out.append((dim, lmin, lmax, [list(v)]))
            for rev in (False, True):
                cs = CombiScheme(dim)
                try:
                    cs.init_adaptive_combi_scheme(lmax, lmin)
                    ops = []
                    for _ in range(4 if dim <= 2 else 3):
                        act = sorted(cs.active_index_set, reverse=rev)
                        if not act:
                            break
                        ops.append(list(act[0]))
                        cs.update_adaptive_combi(list(act[0]))
                        if len(act) > 1:
                            ops.append(list(act[-1]))
                            cs.update_adaptive_combi(list(act[-1]))
                    out.append((dim, lmin, lmax, ops))
                except Exception:
                    out.append((dim, lmin, lmax, []))
    return out


def lean_disagreements(scratch, env):
    """run the fresh generated definitions against the hand model (lean --run); -> list of (what, dim, lmin, lmax, ops)"""
    dst = os.path.join(scratch, "GenScratch", "Diff.lean")
    shutil.copy(DIFF_DRIVER, dst)
    try:
        r = subprocess.run(["lean", "--run", dst], cwd=scratch, env=env, capture_output=True, text=True, timeout=60)
    except subprocess.TimeoutExpired:
        return [], "timeout"
    res = []
    for line in r.stdout.splitlines():
        m = re.fullmatch(r"DIS (\S+) (\d+) (-?\d+) (-?\d+) ;\s*(.*)", line.strip())
        if m:
            ops = [[int(x) for x in v.strip().split(",")] if v.strip() != "-" else [] for v in m.group(5).split(";") if v.strip()]
            res.append((m.group(1), int(m.group(2)), int(m.group(3)), int(m.group(4)), ops))
    note = "" if r.returncode == 0 else (r.stdout + r.stderr)[-600:]
    return res, note


def run(ctx, drv, run_history):
    """the tie check; `run_history(ctx, drv, dim, lmin, lmax, ops)` is c01.py's differential run + oracle"""
    info = {"translator": os.path.relpath(TOOL, common.ROOT), "source": os.path.join(common.REPO, "sparseSpACE", "combiScheme.py")}
    ctx.extra["translator_tie"] = info
    ctx.extra["trusted_base"] = list(common.TRUSTED_BASE) + [TRUSTED]
    scratch = os.path.join(common.LEAN, ".gen-scratch", str(os.getpid()))
    t0 = time.time()
    try:
        os.makedirs(os.path.join(scratch, "GenScratch"), exist_ok=True)
        fresh = os.path.join(scratch, "GenScratch", "CombiGen.lean")
        r = subprocess.run([sys.executable, TOOL, "--repo", common.REPO, "--out", fresh, "--json", os.path.join(scratch, "CombiGen.json")],
                           capture_output=True, text=True)
        committed = open(COMMITTED).read() if os.path.exists(COMMITTED) else ""
        env = None
        if r.returncode != 0:
            info.update(status="translation-failed", message=(r.stderr or r.stdout)[-800:])
            ctx.count("gen-tie_translation-failed")
            ctx.corr_break("gen-tie", {"kind": "translator-tie", "stage": "translate"},
                           {"message": info["message"], "note": "the source left the translated Python subset: the generated model "
                            "cannot be regenerated, the theorems of Properties/C01gen do not cover the current code"})
            have_fresh = False
        else:
            text = open(fresh).read()
            if text == committed:
                info.update(status="identical", wall_s=round(time.time() - t0, 2))
                ctx.count("gen-tie_identical")
                return info
            diff = "".join(difflib.unified_diff(committed.splitlines(True), text.splitlines(True), "committed/CombiGen.lean", "regenerated/CombiGen.lean"))
            env = _lean_env(scratch)
            ok, stage, msg, secs = compile_fresh(scratch, env)
            info.update(compile_s=round(secs, 1), diff_lines=diff.count("\n"))
            if ok:
                info.update(status="regenerated-ok", wall_s=round(time.time() - t0, 2), diff=diff[:3000])
                ctx.count("gen-tie_regenerated-ok")
                return info
            info.update(status="proof-failed", failed_module=stage, message=msg)
            ctx.count("gen-tie_proof-failed")
            ctx.corr_break("gen-tie", {"kind": "translator-tie", "stage": "compile", "module": stage},
                           {"first_error": msg, "diff_generated_vs_committed": diff[:6000]})
            have_fresh = stage != "GenScratch.CombiGen"
        # ---------------------------------------------------------------- directed search for a failing input
        t1 = time.time()
        tried = 0
        found_before = len(ctx.violations)
        if have_fresh and env is not None:
            dis, note = lean_disagreements(scratch, env)
            info["lean_disagreements"] = [{"what": w, "dim": d, "lmin": a, "lmax": b, "ops": ops} for w, d, a, b, ops in dis[:10]]
            if note:
                info["lean_diff_driver_note"] = note
            for w, dim, lmin, lmax, ops in dis:
                if len(ctx.violations) > found_before or time.time() - t1 > 40:
                    break
                tried += 1
                ctx.count("gen-tie_directed_lean")
                ok, case = run_history(ctx, drv, dim, lmin, lmax, ops, obs_seed=0)
                ctx.case(case, nontrivial=True)
        if len(ctx.violations) == found_before:
            for dim, lmin, lmax, ops in directed_histories():
                if len(ctx.violations) > found_before or time.time() - t1 > 40:
                    break
                tried += 1
                ctx.count("gen-tie_directed_stream")
                try:
                    ok, case = run_history(ctx, drv, dim, lmin, lmax, ops, obs_seed=0)
                    ctx.case(case, nontrivial=True)
                except Exception as e:           # the implementation raises on a systematic small input
                    ctx.corr_break("gen-tie/directed-exception", {"dim": dim, "lmin": lmin, "lmax": lmax, "ops": ops}, repr(e)[:300])
        info.update(directed_tried=tried, directed_found=len(ctx.violations) - found_before, wall_s=round(time.time() - t0, 2))
        return info
    finally:
        shutil.rmtree(scratch, ignore_errors=True)
        try:
            os.rmdir(os.path.join(common.LEAN, ".gen-scratch"))
        except OSError:
            pass
