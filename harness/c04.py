"""C04 -- refinement never loses exactness the initial configuration had.

For every strategy / option set a refinement history is run on the REAL implementation with a vector-valued
function whose component 0 drives nothing or the refinement (a peaky function) and whose other components carry
test functions of the space the initial configuration treats exactly:
  * dimension-wise strategy: tensor hats of the level vectors of the initial (lmin,lmax) index set (nodal hats of every
    level vector = a generating system of the piecewise-multilinear sparse-grid space) and random dyadic combinations;
    with modified_basis=True: (multi)linear functions for the integral, interior hats for the interpolant;
  * extend-split (version 0) and the cell scheme (lmin = lmax): all multilinear monomials, products of affine functions and
    sums of them; family `esmulti`: split_single_dim=True with prescribed benefits for ALL areas in every round, so that one
    refine() call contains multi-dimension splits of old areas followed by lmax-raising extends of newer ones; family
    `esgrid`: the other local grid families that are exact for multilinear functions (LagrangeGrid p=1,2,3,
    ClenshawCurtisGrid, GaussLegendreGrid, SimpsonGrid; high-order ones only with split_single_dim=False), oracle only.
Refinement decisions are scripted (own ErrorCalculator returning pseudo-random errors keyed by the interval/area and
the round) or come from the library's own estimators with a peaky function, so that histories are diverse.
After each stop:
  ORACLE (independent of the model): combined result [3] == exact rational integral, __call__(points) == exact values.
  CORRESPONDENCE: the Lean model (Model/Exactness: non-uniform trapezoid / piecewise-linear interpolation on the
  observed node lists, combination with the observed scheme; local uniform grids per area; the cell parent stencil)
  computes the same numbers from the observed refinement state; `keepsInitial` (H_keep) is evaluated on every state
  and must imply exactness of every initial hat (that is the proved theorem).
"""
import contextlib
import io
import itertools
import random
from fractions import Fraction as Fr

import numpy as np

from common import frac_str, vec_str

DOMAINS = [(0.0, 1.0), (0.0, 1.0), (-1.0, 1.0), (0.0, 2.0), (-2.0, 2.0), (1.0, 3.0), (0.5, 1.5), (-0.25, 0.75)]
LEVELS = [(1, 2), (1, 3), (2, 3), (2, 4)]
DW_VERSIONS = [2, 3, 6, 7, 8]
DW_VERSION_MIX = [2] + [3, 6, 7, 8] * 2          # version 2 is a known finding: keep it, but rarely
TOL = 1e-9
# scale extremes (catalogue e): far from the origin on both sides (|a|/(b-a) = 8192) and tiny intervals (2^-40); dyadic,
# so the exact-rational oracle still applies
EXTREME_DOMAINS = [(8192.0, 8193.0), (-8192.0, -8191.0), (16384.0, 16388.0), (0.0, 2.0 ** -40), (1.0, 1.0 + 2.0 ** -40)]


def harden_options(r, case, strat, thorough):
    """options of the hardening pass (catalogue of missed change patterns), each drawn with a small probability so that
    the budgets stay: toggle (l), resume / rerun (h), scale (e), sibling (b) -- all part of the case dict = replayable"""
    dim = case["dim"]
    if r.random() < 0.08 and (dim == 2 or strat == "dw"):
        # (dim 3 extend-split on far boxes refines nearly every area in every round with the library's estimator: too slow)
        ext = r.choice(EXTREME_DOMAINS)
        case["dom"] = [list(ext) if (r.random() < 0.6 or d == 0) else case["dom"][d] for d in range(dim)]
        case["scale"] = "extreme"
    x = r.random()
    case["toggle"] = "nocache" if x < 0.08 else ("reset" if x < 0.16 else None)
    case["resume"] = r.random() < 0.2
    case["rerun"] = r.random() < 0.15
    case["queries"] = r.random() < 0.5
    if r.random() < 0.1:
        other = r.choice(["dwraise", "es", "cell", strat if strat in ("es", "cell") else "dwraise"])
        sub = GENERATORS[other](FakeCtx(r), False)
        for k in ("sibling", "sibling_at", "rerun", "resume", "reeval", "queries"):
            sub.pop(k, None)
        sub["rounds"] = [1, 1] if isinstance(sub["rounds"], list) else 2
        if sub["strategy"] == case["strategy"] and sub["strategy"] in ("es", "cell"):
            # equal keys (same box, same start level), different configuration
            sub["dim"], sub["dom"], sub["peak"] = dim, [list(x) for x in case["dom"]], list(case["peak"])
            if sub["strategy"] == "cell":
                sub["lmin"] = sub["lmax"] = case["lmin"]
        case["sibling"] = sub
        case["sibling_at"] = 1
    return case


class FakeCtx:
    """generators only use ctx.rng"""

    def __init__(self, rng):
        self.rng = rng


# ------------------------------------------------------------------------------------------------ test functions
def fr(x):
    return Fr(x)


def spec_str(sp):
    if sp[0] == "h":
        return "h:%d:%d" % (sp[1], sp[2])
    return "a:%s:%s" % (frac_str(sp[1]), frac_str(sp[2]))


def spec_exact_int(sp, a, b):
    a, b = Fr(a), Fr(b)
    if sp[0] == "h":
        h = (b - a) / 2 ** sp[1]
        return h if 0 < sp[2] < 2 ** sp[1] else h / 2
    return Fr(sp[1]) * (b - a) + Fr(sp[2]) * (b * b - a * a) / 2


def spec_exact_val(sp, a, b, x):
    a, b, x = Fr(a), Fr(b), Fr(x)
    if sp[0] == "h":
        h = (b - a) / 2 ** sp[1]
        v = 1 - abs(x - (a + sp[2] * h)) / h
        return v if v > 0 else Fr(0)
    return Fr(sp[1]) + Fr(sp[2]) * x


def make_function_class():
    from sparseSpACE.Function import Function

    class TestFunction(Function):
        """component 0: peaky driver 1/(1+s*|x-p|^2); component k>=1: sum of coef * prod_d g_d(x_d)"""

        def __init__(self, dom, comps, peak, sharp, sym=None):
            super().__init__()
            self.dom = dom
            self.comps = comps
            self.peak = np.asarray(peak, dtype=float)
            self.sharp = float(sharp)
            # sym = level: driver sum_d frac(rel_d * 2^level)^2 -- looks the same in every cell of that level and in
            # every dimension (equal twin errors in all dimensions -> extend-split splits in several dimensions at once)
            self.sym = sym
            self.lo = np.asarray([x[0] for x in dom], dtype=float)
            self.width = np.asarray([x[1] - x[0] for x in dom], dtype=float)

        def output_length(self):
            return 1 + len(self.comps)

        def g(self, sp, d, x):
            if sp[0] == "h":
                a, b = self.dom[d]
                h = (b - a) / 2 ** sp[1]
                return np.maximum(0.0, 1.0 - np.abs(x - (a + sp[2] * h)) / h)
            return float(sp[1]) + float(sp[2]) * x

        def eval_vectorized(self, coordinates):
            c = np.asarray(coordinates, dtype=float)
            out = np.empty(c.shape[:-1] + (self.output_length(),))
            if self.sym is None:
                out[..., 0] = 1.0 / (1.0 + self.sharp * np.sum((c - self.peak) ** 2, axis=-1))
            else:
                w = ((c - self.lo) / self.width) * 2 ** self.sym
                w = w - np.floor(w)
                out[..., 0] = np.sum(w * w, axis=-1)
            for k, terms in enumerate(self.comps):
                s = np.zeros(c.shape[:-1])
                for coef, specs in terms:
                    p = np.full(c.shape[:-1], float(coef))
                    for d, sp in enumerate(specs):
                        p = p * self.g(sp, d, c[..., d])
                    s = s + p
                out[..., k + 1] = s
            return out

        def eval(self, coordinates):
            return self.eval_vectorized(np.asarray([tuple(coordinates)], dtype=float))[0]

    return TestFunction


def comp_exact_int(terms, dom):
    s = Fr(0)
    for coef, specs in terms:
        p = Fr(coef)
        for d, sp in enumerate(specs):
            p *= spec_exact_int(sp, *dom[d])
        s += p
    return s


def comp_exact_val(terms, dom, x):
    s = Fr(0)
    for coef, specs in terms:
        p = Fr(coef)
        for d, sp in enumerate(specs):
            p *= spec_exact_val(sp, dom[d][0], dom[d][1], x[d])
        s += p
    return s


def init_index_set(dim, lmin, lmax):
    return [k for k in itertools.product(range(lmin, lmax + 1), repeat=dim) if sum(k) <= lmax + (dim - 1) * lmin]


def gen_hat_comps(rng, dim, lmin, lmax, interior_only, per_level, ncombo):
    """nodal tensor hats of every level vector of the initial index set + random dyadic combinations"""
    comps = []
    single = []
    for k in init_index_set(dim, lmin, lmax):
        seen = set()
        for _ in range(per_level):
            idx = tuple(rng.randint(1, 2 ** k[d] - 1) if interior_only else rng.randint(0, 2 ** k[d]) for d in range(dim))
            if idx in seen:
                continue
            seen.add(idx)
            t = (Fr(1), [("h", k[d], idx[d]) for d in range(dim)])
            single.append(t)
            comps.append([t])
    for _ in range(ncombo):
        n = rng.randint(2, 4)
        comps.append([(Fr(rng.choice([-3, -2, -1, 1, 2, 3, 5]), rng.choice([1, 2, 4])), t[1]) for t in rng.sample(single, min(n, len(single)))])
    return comps


def rand_dyadic(rng, lo=-3, hi=3, den=(1, 2, 4)):
    return Fr(rng.randint(lo * 4, hi * 4), 4 * rng.choice(den))


def gen_multilinear_comps(rng, dim, n_single, n_sum, linear_too=True):
    comps = []
    single = []
    if linear_too:
        # all 2^dim multilinear monomials: 1, x_e, x_e x_f, ...
        for mask in itertools.product([0, 1], repeat=dim):
            comps.append([(Fr(1), [("a", Fr(0), Fr(1)) if mask[d] else ("a", Fr(1), Fr(0)) for d in range(dim)])])
    for _ in range(n_single):
        t = (Fr(1), [("a", rand_dyadic(rng), rand_dyadic(rng)) for _ in range(dim)])
        single.append(t)
        comps.append([t])
    for _ in range(n_sum):
        comps.append([(rand_dyadic(rng, -2, 2, (1, 2)), t[1]) for t in rng.sample(single, min(rng.randint(2, 3), len(single)))])
    return comps


def rand_points(rng, dom, n, den=64):
    pts = []
    for _ in range(n):
        pts.append(tuple(a + (b - a) * rng.randint(0, den) / den for (a, b) in dom))
    return pts


# ------------------------------------------------------------------------------------------------ scripted decisions
def make_scripted_class():
    from sparseSpACE.ErrorCalculator import ErrorCalculator

    class Scripted(ErrorCalculator):
        """pseudo-random error keyed by (seed, round, dimension, start, end); `rounds` is advanced by the harness at
        every refine() call; in a `stop round` every error is 0 so that the run stops (error <= tol)"""

        def __init__(self, seed, power, is_global, multi=None):
            super().__init__()
            self.is_global = is_global
            self.seed = seed
            self.power = power
            self.round = 0
            self.stop_round = None
            self.after_eval = None
            # multi = p: prescribe the BENEFIT (error / evaluations): with probability p an object gets a benefit within
            # the refinement margin of the maximum, so that one refine() call refines several objects (splits and
            # extends in the same round)
            self.multi = multi
            # table = [[(dim, side), ...] per round]: in round r exactly the outermost interval (side 0: at the lower domain
            # end, side 1: at the upper end) of the listed dimensions gets error 1, everything else 0 (directed histories)
            self.table = None

        def calc_global_error(self, data, grid_scheme):
            return None

        def calc_error(self, ro, norm, volume_weights=None):
            if self.after_eval is not None:
                self.after_eval(ro)
            if self.stop_round is not None and self.round >= self.stop_round:
                return 0.0
            if self.table is not None:
                want = self.table[self.round] if self.round < len(self.table) else []
                d = int(getattr(ro, "this_dim", -1))
                for (dd, side) in want:
                    if dd == d and ((side == 0 and float(ro.start) == float(ro.a)) or (side == 1 and float(ro.end) == float(ro.b))):
                        return 1.0
                return 0.0
            key = "%d:%d:%s:%s:%s" % (self.seed, self.round, getattr(ro, "this_dim", -1),
                                      np.asarray(ro.start, dtype=float).tobytes().hex(),
                                      np.asarray(ro.end, dtype=float).tobytes().hex())
            r = random.Random(key)
            if self.multi is not None:
                target = 0.92 + 0.08 * r.random() if r.random() < self.multi else 0.3 * r.random()
                ev = getattr(ro, "evaluations", 0) or 0
                return target * (ev if ev > 0 else 1)
            return r.random() ** self.power + 1e-6

        def target(self, ro):
            """the prescribed benefit of `ro` in the current round (multi mode)"""
            key = "%d:%d:%s:%s:%s" % (self.seed, self.round, getattr(ro, "this_dim", -1),
                                      np.asarray(ro.start, dtype=float).tobytes().hex(),
                                      np.asarray(ro.end, dtype=float).tobytes().hex())
            r = random.Random(key)
            return 0.92 + 0.08 * r.random() if r.random() < self.multi else 0.3 * r.random()

    return Scripted


@contextlib.contextmanager
def quiet():
    with contextlib.redirect_stdout(io.StringIO()):
        yield


# ------------------------------------------------------------------------------------------------ checks shared
_PROCESS_HISTORY = {"cell": [], "es": [], "dw": [], "current_group": None}


class Recorder:
    """collects what happened in one history"""

    def __init__(self, ctx, case, tags):
        self.ctx = ctx
        self.case = case
        self.tags = tags
        self.ok = True
        self.n_viol = 0

    def violation(self, probe, kind, detail, extra_tags=None):
        self.ok = False
        self.n_viol += 1
        if self.n_viol <= 1:      # one report per history and probe is enough; the replay reproduces all of them
            t = dict(self.tags, kind=kind)
            if extra_tags:
                t.update(extra_tags)
            hist = _PROCESS_HISTORY.get(_PROCESS_HISTORY.get("current_group") or "", [])
            case = dict(self.case, process_history=list(hist)) if hist else self.case
            self.ctx.violation(probe, t, case, detail)

    def corr(self, obs, detail):
        self.ok = False
        self.ctx.corr_break("C04/" + obs, self.case, detail)


def cmp_float_frac(v, ex, floor=1.0):
    return abs(float(v) - float(ex)) <= TOL * max(floor, abs(float(ex)))


def int_floor(dom):
    """magnitude below which an integral is compared absolutely: the volume of the box if that is below 1 (tiny boxes:
    a fixed absolute tolerance would make the comparison vacuous)"""
    vol = 1.0
    for (lo, hi) in dom:
        vol *= float(hi) - float(lo)
    return min(1.0, vol)


def oracle_integrals(rec, probe, stop, result, comps, dom):
    bad = []
    for k, terms in enumerate(comps):
        ex = comp_exact_int(terms, dom)
        if not cmp_float_frac(result[k + 1], ex, int_floor(dom)):
            bad.append({"component": k, "terms": terms_str(terms), "result": float(result[k + 1]), "exact": frac_str(ex)})
    rec.ctx.count("oracle_integrals", len(comps))
    if bad:
        rec.violation(probe, "integral", {"stop": stop, "failed": bad[:4], "n_failed": len(bad)})
    return bad


def oracle_values(rec, probe, stop, pts, vals, comps, dom, which=None):
    bad = []
    for p, v in zip(pts, vals):
        for k, terms in enumerate(comps):
            if which is not None and k not in which:
                continue
            ex = comp_exact_val(terms, dom, p)
            if not cmp_float_frac(v[k + 1], ex):
                bad.append({"component": k, "terms": terms_str(terms), "point": [float(x) for x in p], "result": float(v[k + 1]), "exact": frac_str(ex)})
    rec.ctx.count("oracle_values", len(pts) * len(comps))
    if bad:
        rec.violation(probe, "interpolation", {"stop": stop, "failed": bad[:4], "n_failed": len(bad)})
    return bad


def terms_str(terms):
    return " + ".join("%s*[%s]" % (frac_str(c), " ".join(spec_str(sp) for sp in specs)) for c, specs in terms)


def model_sum(drv, op, terms, prefix=""):
    """sum_t coef_t * (driver value of the tensor term)"""
    s = Fr(0)
    for coef, specs in terms:
        r = drv.ask(op + " " + prefix + " ".join(spec_str(sp) for sp in specs))
        try:
            s += Fr(coef) * Fr(r)
        except (ValueError, ZeroDivisionError):
            return None, r
    return s, None


def ratvec(xs):
    return ",".join(frac_str(x) for x in xs) if len(xs) else "-"


# ------------------------------------------------------------------------------------------------ dimension-wise
def gen_dw_case(ctx, thorough):
    r = ctx.rng
    dim = r.choice([2, 2, 2, 3])
    lmin, lmax = r.choice(LEVELS)
    if dim == 3 and (lmin, lmax) == (2, 4):
        lmin, lmax = r.choice([(1, 2), (1, 3), (2, 3)])
    boundary = r.random() < 0.6
    modified = (not boundary) and r.random() < 0.45
    est = "scripted" if r.random() < 0.75 else "volume"
    nstops = r.randint(2, 3) if not thorough else r.randint(2, 4)
    case = {"strategy": "dw", "dim": dim, "lmin": lmin, "lmax": lmax,
            "dom": [list(r.choice(DOMAINS)) for _ in range(dim)],
            "version": r.choice(DW_VERSION_MIX), "rebalancing": r.random() < 0.25, "boundary": boundary, "modified": modified,
            "margin": r.choice([0.9, 0.9, 0.6]), "estimator": est, "seed": r.randrange(10 ** 9),
            "power": r.choice([1, 3, 6]), "rounds": [r.randint(1, 2) for _ in range(nstops)],
            "per_level": 2 if not thorough else 3, "peak": [r.randint(1, 15) / 16 for _ in range(dim)], "sharp": r.choice([4, 40, 400]),
            # scripted estimator only: every stop's result [3] comes from evaluate_final_combi()
            "reeval": est == "scripted" and r.random() < 0.3}
    if thorough and r.random() < 0.05:
        case.update({"dim": 4, "lmin": 1, "lmax": 2, "dom": [list(r.choice(DOMAINS)) for _ in range(4)], "peak": [r.randint(1, 15) / 16 for _ in range(4)], "per_level": 1})
    return harden_options(r, case, "dw", thorough)


def gen_dwcorner_case(ctx, thorough):
    """directed family: dim 3, lmax - lmin = 3, rebalancing off, a few rounds that deepen one corner of the domain in a
    (changing) subset of the dimensions, so that lmax grows differently per dimension (max_coarsenings like [1,2,2]):
    the per-dimension subtraction values of versions 6-8 then have to be covered by the growth of the index set"""
    r = ctx.rng
    dim = 3
    lmin, lmax = r.choice([(1, 4), (1, 4), (1, 4), (2, 5)])
    sides = [r.randint(0, 1) for _ in range(dim)]
    nrounds = r.randint(2, 3)
    table = []
    for k in range(nrounds):
        ds = [d for d in range(dim) if r.random() < (0.9 if k == 0 else 0.65)] or [r.randrange(dim)]
        table.append([[d, sides[d]] for d in ds])
    return {"strategy": "dw", "family": "corner", "dim": dim, "lmin": lmin, "lmax": lmax,
            "dom": [list(r.choice(DOMAINS)) for _ in range(dim)],
            "version": r.choice([6, 6, 8, 8, 7, 3]), "rebalancing": False, "boundary": r.random() < 0.8, "modified": False,
            "margin": r.choice([0.9, 1.0]), "estimator": "scripted", "seed": r.randrange(10 ** 9), "power": 1,
            "rounds": [1] * nrounds, "table": table, "per_level": 1,
            "peak": [0.5] * dim, "sharp": 4}


def gen_dwraise_case(ctx, thorough):
    """directed "raise-all" family inside the class proved safe for the clean code (rebalancing off, dim 2): every round
    refines the outermost interval at one end of the listed dimensions (= a deepest interval there), every dimension is
    hit at least once, so lmax is raised in EVERY dimension while untouched regions keep their initial local maximum
    level (= lmax0); version 3 (whose rounding rule depends on that local maximum level) most of the time"""
    r = ctx.rng
    dim = 2
    lmin, lmax = r.choice([(1, 3), (1, 3), (1, 3), (1, 2), (2, 4)])
    nrounds = r.randint(2, 4)
    table = []
    for k in range(nrounds):
        ds = [d for d in range(dim) if r.random() < 0.6] or [r.randrange(dim)]
        table.append([[d, r.randint(0, 1)] for d in ds])
    missing = [d for d in range(dim) if not any(x[0] == d for rnd in table for x in rnd)]
    for d in missing:
        table[r.randrange(nrounds)].append([d, r.randint(0, 1)])
    return {"strategy": "dw", "family": "raise", "dim": dim, "lmin": lmin, "lmax": lmax,
            "dom": [list(r.choice(DOMAINS)) for _ in range(dim)],
            "version": r.choice([3, 3, 3, 6, 7, 8]), "rebalancing": False, "boundary": r.random() < 0.7, "modified": False,
            "margin": r.choice([0.9, 1.0]), "estimator": "scripted", "seed": r.randrange(10 ** 9), "power": 1,
            "rounds": [1] * nrounds, "table": table, "per_level": 2,
            "peak": [0.5] * dim, "sharp": 4, "reeval": r.random() < 0.2}


def dw_state_lines(sa, case):
    """scheme, index set and the table (dimension, component level) -> node list as the implementation computes them"""
    dim = case["dim"]
    lines = ["newstate"]
    table = [dict() for _ in range(dim)]
    conflict = None
    for cg in sa.scheme:
        lv = [int(x) for x in cg.levelvector]
        coords, _, _ = sa.get_point_coord_for_each_dim(lv)
        for d in range(dim):
            xs = [float(x) for x in coords[d]]
            if lv[d] in table[d] and table[d][lv[d]] != xs:
                conflict = (d, lv[d], lv)
            table[d][lv[d]] = xs
        lines.append("coef %s %d" % (vec_str(lv), int(round(cg.coefficient))))
    for d in range(dim):
        for j in sorted(table[d]):
            lines.append("pts %d %d %s" % (d, j, ratvec(table[d][j])))
    for l in sorted(sa.combischeme.get_index_set()):
        lines.append("idx " + vec_str(l))
    return lines, table, conflict


def check_subtraction_clip(ctx, drv, rec, sa, case, stop, thr_cache):
    """versions 3 (since its repair), 6, 7, 8: the subtraction value of every interval is clipped at l_d - lmin, and the
    node list of every component level is `start` + the interval ends of level <= keepThreshold (model, via the driver)"""
    dim, lmin = case["dim"], case["lmin"]
    max_coarsenings = np.zeros(dim, dtype=int)
    for d in range(dim):
        max_coarsenings[d] = sa.refinement.get_max_coarsening(d)
    for cg in sa.scheme:
        lv = [int(x) for x in cg.levelvector]
        coords, _, _ = sa.get_point_coord_for_each_dim(lv)
        for d in range(dim):
            cont = sa.refinement.get_refinement_container_for_dim(d)
            objs = cont.get_objects()
            pts = [float(objs[0].start)]
            for i, o in enumerate(objs):
                sub = sa.get_subtraction_value(o, cont, i, max_coarsenings, d, lv)
                ctx.count("dw_subtraction_values")
                if sub != int(sub) or sub > lv[d] - lmin:
                    rec.violation("dw-subtraction-clip", "clip", {"stop": stop, "levelvec": lv, "dimension": d, "interval": i, "subtraction_value": float(sub), "bound": lv[d] - lmin})
                    return
                # Model/DimWise.subValue on the observed inputs (version, dim, d, lmin, lmax_d, max_coarsenings, local
                # max level, l_d); version 3 rounds in floats: exact for dim 2 (halves), compared there only
                if case["version"] in (6, 7, 8) or dim == 2:
                    ml = int(sa.max_level_dict[(d, i)])
                    skey = ("subv", case["version"], dim, d, lmin, int(sa.lmax[d]), tuple(int(x) for x in max_coarsenings), ml, lv[d])
                    if skey not in thr_cache:
                        thr_cache[skey] = drv.ask("subv %d %d %d %d %d %s %d %d" % (skey[1], dim, d, lmin, skey[5], vec_str(skey[6]), ml, lv[d]))
                    ctx.count("dw_subtraction_values_vs_model")
                    if thr_cache[skey] != str(int(sub)):
                        rec.corr("dw/subtraction-value", {"stop": stop, "levelvec": lv, "dimension": d, "interval": i, "max_level": ml,
                                                          "lmax": [int(x) for x in sa.lmax], "max_coarsenings": [int(x) for x in max_coarsenings],
                                                          "impl": int(sub), "model": thr_cache[skey]})
                        return
                key = (lv[d], int(sub), lmin)
                if key not in thr_cache:
                    thr_cache[key] = drv.ask("thr %d %d %d" % key)
                try:
                    thr = int(thr_cache[key])
                except ValueError:
                    rec.corr("dw/keep-threshold", {"impl": str(key), "model": thr_cache[key]})
                    return
                if o.levels[1] <= thr:
                    pts.append(float(o.end))
            if pts != [float(x) for x in coords[d]]:
                rec.corr("dw/keep-threshold", {"stop": stop, "levelvec": lv, "dimension": d, "impl": str([float(x) for x in coords[d]])[:300], "model": str(pts)[:300]})
                return


def run_dw(ctx, drv, case, report_case=None):
    from sparseSpACE.Grid import GlobalTrapezoidalGrid
    from sparseSpACE.GridOperation import Integration
    from sparseSpACE.ErrorCalculator import ErrorCalculatorSingleDimVolumeGuided
    from sparseSpACE.spatiallyAdaptiveSingleDimension2 import SpatiallyAdaptiveSingleDimensions2
    dim, lmin, lmax = case["dim"], case["lmin"], case["lmax"]
    dom = [tuple(x) for x in case["dom"]]
    rng = random.Random(case["seed"])
    boundary, modified = case["boundary"], case["modified"]
    tags = {"strategy": "dw", "version": case["version"], "rebalancing": case["rebalancing"], "boundary": boundary,
            "modified": modified, "estimator": case["estimator"], "lmin": lmin, "dim": dim, "span": lmax - lmin,
            "scale": case.get("scale", "std")}
    rec = Recorder(ctx, report_case or case, tags)
    hats = gen_hat_comps(rng, dim, lmin, lmax, interior_only=not boundary, per_level=case["per_level"], ncombo=3)
    lin = gen_multilinear_comps(rng, dim, 2, 1) if modified else []
    # with the modified basis: integrals of (multi)linear functions, interpolation of interior hats;
    # without: integrals and interpolation of the hats
    comps = lin + hats
    int_comps = set(range(len(lin))) if modified else set(range(len(comps)))
    val_comps = set(range(len(lin), len(comps)))
    f = make_function_class()(dom, comps, [dom[d][0] + (dom[d][1] - dom[d][0]) * case["peak"][d] for d in range(dim)], case["sharp"])
    a = np.array([x[0] for x in dom])
    b = np.array([x[1] for x in dom])
    rule = "std" if boundary else ("mod" if modified else "nobd")

    def setup_driver():
        ok = drv.ask("dw %d %d %d %s" % (dim, lmin, lmax, rule)) == "ok"
        for d in range(dim):
            ok = drv.ask("dom %d %s %s" % (d, frac_str(dom[d][0]), frac_str(dom[d][1]))) == "ok" and ok
        return ok
    if not setup_driver():
        rec.corr("driver-setup", {"impl": "ok", "model": "rejected"})
        return rec
    exc = None
    res = None
    try:
        with quiet():
            if case.get("toggle") == "nocache":
                f.deactivate_caching()
            grid = GlobalTrapezoidalGrid(a, b, boundary=boundary, modified_basis=modified)
            op = Integration(f, grid=grid, dim=dim, log_level=50, print_level=50)
            op.validation_set = None
            if case["estimator"] == "scripted":
                ec = make_scripted_class()(case["seed"], case["power"], True)
                if case.get("table") is not None:
                    ec.table = [[tuple(x) for x in rnd] for rnd in case["table"]]
            else:
                ec = ErrorCalculatorSingleDimVolumeGuided()
            sa = SpatiallyAdaptiveSingleDimensions2(a, b, version=case["version"], operation=op, rebalancing=case["rebalancing"],
                                                    margin=case["margin"], log_level=50, print_level=50)
            orig_refine = sa.refine
            rounds_done = [0]

            def refine_hook():
                rounds_done[0] += 1
                if hasattr(ec, "round"):
                    ec.round = rounds_done[0]
                orig_refine()
            sa.refine = refine_hook
    except Exception as e:  # construction must work
        rec.violation("dw-exception", "construction", {"exception": repr(e)[:300]})
        return rec
    target = 0
    thr_cache = {}
    for stop, nr in enumerate(case["rounds"]):
        target += nr
        if case.get("sibling") and stop == case.get("sibling_at") and report_case is None:
            run_sibling(ctx, drv, case)
            setup_driver()
        try:
            with quiet():
                if case.get("toggle") == "reset" and stop > 0:
                    f.reset_dictionary()
                if case["estimator"] == "scripted":
                    ec.stop_round = target
                    if stop == 0:
                        res = sa.performSpatiallyAdaptiv(lmin, lmax, ec, tol=1e-300, print_output=False, reevaluate_at_end=bool(case.get("reeval")))
                    elif case.get("resume") and stop == 1:
                        # catalogue h: resume through performSpatiallyAdaptiv(refinement_container=<the object's own container>)
                        res = sa.performSpatiallyAdaptiv(lmin, lmax, ec, tol=1e-300, print_output=False, reevaluate_at_end=bool(case.get("reeval")),
                                                         refinement_container=sa.refinement)
                        ctx.count("dw_resumes")
                    else:
                        res = sa.continue_adaptive_refinement(tol=1e-300)
                else:
                    # the library's estimator: stop as soon as the number of points has grown `nr` times
                    class _Stop(Exception):
                        pass
                    limit = [target]

                    def refine_limited():
                        if rounds_done[0] >= limit[0]:
                            raise _Stop()
                        refine_hook()
                    sa.refine = refine_limited
                    try:
                        if stop == 0:
                            res = sa.performSpatiallyAdaptiv(lmin, lmax, ec, tol=-1.0, print_output=False)
                        else:
                            res = sa.continue_adaptive_refinement(tol=-1.0)
                    except _Stop:
                        res = [None, None, None, np.array(op.get_result())]
        except Exception as e:
            exc = e
            import traceback
            where = traceback.extract_tb(e.__traceback__)[-1]
            rec.violation("dw-exception", "exception", {"stop": stop, "exception": repr(e)[:300], "where": "%s:%d" % (where.filename.split("/")[-1], where.lineno)},
                          {"exception": type(e).__name__})
            break
        result = np.asarray(res[3], dtype=float)
        ctx.count("dw_stops")
        ctx.count("dw_lmax_growth_%d" % min(6, max(sa.lmax) - lmax))
        # ---- oracle on the implementation
        bad_int = oracle_integrals_subset(rec, "dw-exact", stop, result, comps, dom, int_comps)
        pts = rand_points(rng, dom, 5)
        try:
            with quiet():
                vals = np.asarray(sa(pts), dtype=float)
                lines, table, conflict = dw_state_lines(sa, case)
        except Exception as e:
            rec.violation("dw-exception", "exception", {"stop": stop, "exception": repr(e)[:300], "where": "__call__ / get_point_coord_for_each_dim"},
                          {"exception": type(e).__name__})
            break
        bad_val = oracle_values(rec, "dw-exact", stop, pts, vals, comps, dom, val_comps)
        # ---- model on the observed state
        if conflict is not None:
            rec.corr("dw/points-depend-on-level-only", {"impl": "two component grids with the same level in dimension %d (level %d) have different node lists" % conflict[:2], "model": "function of (d, l_d)"})
            break
        for ln in lines:
            if drv.ask(ln) != "ok":
                rec.corr("dw/state-transfer", {"impl": ln[:200], "model": "rejected"})
                return rec
        keeps = drv.ask("keeps")
        ctx.count("dw_keeps_" + keeps.split(" ")[0])
        if case["version"] in (3, 6, 7, 8):
            with quiet():
                check_subtraction_clip(ctx, drv, rec, sa, case, stop, thr_cache)
        for k, terms in enumerate(comps):
            if k in int_comps:
                m, err = model_sum(drv, "dwint", terms)
                if m is None or not cmp_float_frac(result[k + 1], m, int_floor(dom)):
                    rec.corr("dw/combined-integral", {"stop": stop, "terms": terms_str(terms), "impl": float(result[k + 1]), "model": frac_str(m) if m is not None else err})
                    break
        for p, v in zip(pts[:3], vals[:3]):
            for k, terms in enumerate(comps):
                if k in val_comps:
                    m, err = model_sum(drv, "dwval", terms, ratvec(p) + " ")
                    if m is None or not cmp_float_frac(v[k + 1], m):
                        rec.corr("dw/combined-interpolant", {"stop": stop, "terms": terms_str(terms), "point": [float(x) for x in p], "impl": float(v[k + 1]), "model": frac_str(m) if m is not None else err})
                        break
        # H_keep is false: look for a hat of the lost level vector on the implementation's own state (independent of
        # which hats happen to be carried as components)
        if keeps.startswith("false [") and not (bad_int or bad_val) and not modified:
            lost = [int(x) for x in keeps[len("false ["):-1].split(",")]
            found = lost_level_search(sa, make_function_class(), dom, a, b, lost, not boundary, rng)
            ctx.count("dw_lost_level_searches")
            if found is not None:
                rec.violation("dw-exact", "integral-lost-level", {"stop": stop, "lost_level": lost, "failed": [found]})
            else:
                ctx.count("dw_keeps_false_but_lost_level_exact")
        # the proved theorem: keepsInitial => every initial hat is integrated and interpolated exactly
        hats_bad = [x for x in bad_int + bad_val if x["component"] >= len(lin)]
        if keeps == "true" and hats_bad and not modified:
            rec.corr("dw/keepsInitial-implies-exact", {"stop": stop, "impl": "inexact: " + str(hats_bad[0])[:300], "model": "keepsInitial = true"})
        if keeps != "true" and not hats_bad:
            ctx.count("dw_keeps_false_but_sampled_hats_exact")
        if not rec.ok:
            break
    if rec.ok and exc is None and case.get("queries"):
        extra_queries(rec, "dw-exact", sa, op, f, comps, dom, a, b, rng, int_comps, val_comps)
    if rec.ok and exc is None and case.get("rerun") and case["estimator"] == "scripted":
        # catalogue h: a second performSpatiallyAdaptiv on the same object starts from scratch and is exact again
        try:
            with quiet():
                ec.round = 0
                rounds_done[0] = 0
                ec.stop_round = 1
                res = sa.performSpatiallyAdaptiv(lmin, lmax, ec, tol=1e-300, print_output=False)
            ctx.count("dw_second_runs")
            oracle_integrals_subset(rec, "dw-exact", "second-run-on-same-object", np.asarray(res[3], dtype=float), comps, dom, int_comps)
        except Exception as e:
            rec.violation("dw-exception", "exception", {"exception": repr(e)[:300], "where": "second run on the same object"}, {"exception": type(e).__name__})
    ctx.count("dw_v%d_rebal%d_bnd%d_mod%d" % (case["version"], case["rebalancing"], boundary, modified))
    ctx.count("dw_est_" + case["estimator"])
    return rec


def lost_level_search(sa, TestFunction, dom, a, b, level, interior_only, rng, limit=60):
    """combined integral of nodal hats of the level vector `level` on the CURRENT state, computed with the
    implementation's own grid/integrator exactly as Integration.calculate_operation_dimension_wise does"""
    dim = len(dom)
    ranges = [range(1, 2 ** level[d]) if interior_only else range(0, 2 ** level[d] + 1) for d in range(dim)]
    allidx = list(itertools.product(*ranges))
    if len(allidx) > limit:
        allidx = rng.sample(allidx, limit)
    if not allidx:
        return None
    comps = [[(Fr(1), [("h", level[d], idx[d]) for d in range(dim)])] for idx in allidx]
    f = TestFunction(dom, comps, [0.0] * dim, 1.0)
    total = np.zeros(f.output_length())
    with quiet():
        for cg in sa.scheme:
            coords, levels, _ = sa.get_point_coord_for_each_dim(cg.levelvector)
            sa.grid.set_grid(coords, levels)
            total = total + cg.coefficient * np.asarray(sa.grid.integrate(f, cg.levelvector, a, b), dtype=float)
    for k, terms in enumerate(comps):
        ex = comp_exact_int(terms, dom)
        if not cmp_float_frac(total[k + 1], ex, int_floor(dom)):
            return {"terms": terms_str(terms), "result": float(total[k + 1]), "exact": frac_str(ex)}
    return None


def oracle_integrals_subset(rec, probe, stop, result, comps, dom, which):
    bad = []
    for k, terms in enumerate(comps):
        if k not in which:
            continue
        ex = comp_exact_int(terms, dom)
        if not cmp_float_frac(result[k + 1], ex, int_floor(dom)):
            bad.append({"component": k, "terms": terms_str(terms), "result": float(result[k + 1]), "exact": frac_str(ex)})
    rec.ctx.count("oracle_integrals", len(which))
    if bad:
        rec.violation(probe, "integral", {"stop": stop, "failed": bad[:4], "n_failed": len(bad)})
    return bad


# ------------------------------------------------------------------------------------------------ extend-split
def extra_queries(rec, probe, sa, op, f, comps, dom, a, b, rng, int_which, val_which, do_weights=True):
    """catalogue a / c / d / i on the final state of a history:
    a. every query twice on the same object, same answer; queries do not modify the stored combined result;
    c. the caller's point list is reused and overwritten in place between two calls (no memoisation by identity), the
       returned array is modified by the caller before the next call (no aliasing of internal state), the implementation
       does not modify its arguments (point list, domain arrays);
    d. other public routes to the same quantities: interpolate_grid (tensor grid of points), get_points_and_weights
       (combined quadrature rule: sum_i w_i u(x_i) must be the exact integral);
    i. the object's own combined grid points fed back into __call__."""
    from sparseSpACE.Utils import get_cross_product_list
    dim = len(dom)
    try:
        with quiet():
            r0 = np.array(op.get_result(), dtype=float)
            L = rand_points(rng, dom, 4)
            L_before = list(L)
            v1 = np.asarray(sa(L), dtype=float)
            v1_copy = v1.copy()
            args_ok = (L == L_before)
            returned = sa(L)
            try:
                np.asarray(returned)[...] = 7.5       # the caller scribbles over the returned values
            except Exception:
                pass
            v1b = np.asarray(sa(L), dtype=float)
            L2 = rand_points(rng, dom, 4)
            L[:] = L2                                  # same list object, new contents
            v2 = np.asarray(sa(L), dtype=float)
            coords = [sorted(set(dom[d][0] + (dom[d][1] - dom[d][0]) * rng.randint(0, 32) / 32 for _ in range(3))) for d in range(dim)]
            gv = np.asarray(sa.interpolate_grid(coords), dtype=float)
            gpts = get_cross_product_list(coords)
            if do_weights:
                pw = sa.get_points_and_weights()
                P = np.array([tuple(x) for x in pw[0]], dtype=float).reshape(-1, dim)
                W = np.array(pw[1], dtype=float)
                F = f.eval_vectorized(P)
                quad = np.concatenate([[0.0], (W[:, None] * F[:, 1:]).sum(axis=0)])
                own = [tuple(float(x) for x in P[i]) for i in rng.sample(range(len(P)), min(4, len(P)))] if len(P) else []
                vown = np.asarray(sa(own), dtype=float) if own else np.zeros((0, f.output_length()))
            r1 = np.array(op.get_result(), dtype=float)
    except Exception as e:
        import traceback
        where = traceback.extract_tb(e.__traceback__)[-1]
        rec.violation(probe.split("-")[0] + "-exception", "exception", {"exception": repr(e)[:300], "where": "queries %s:%d" % (where.filename.split("/")[-1], where.lineno)},
                      {"exception": type(e).__name__})
        return
    rec.ctx.count("extra_query_blocks")
    oracle_values(rec, probe, "call", L_before, v1_copy, comps, dom, val_which)
    if not args_ok or [float(x) for x in a] != [float(d[0]) for d in dom] or [float(x) for x in b] != [float(d[1]) for d in dom]:
        rec.violation(probe, "arguments-modified", {"points_unchanged": args_ok, "a": [float(x) for x in a], "b": [float(x) for x in b]})
    if not np.array_equal(v1b, v1_copy):
        rec.violation(probe, "repeated-call-differs", {"first": v1_copy[:2].tolist(), "again_after_caller_modified_returned_array": v1b[:2].tolist()})
    oracle_values(rec, probe, "call-same-list-new-points", L2, v2, comps, dom, val_which)
    oracle_values(rec, probe, "interpolate_grid", gpts, gv, comps, dom, val_which)
    if do_weights:
        oracle_integrals_subset(rec, probe, "get_points_and_weights", quad, comps, dom, int_which if int_which is not None else set(range(len(comps))))
        oracle_values(rec, probe, "call-at-own-grid-points", own, vown, comps, dom, val_which)
    if not np.array_equal(r0, r1):
        rec.violation(probe, "query-modified-result", {"before": r0[:4].tolist(), "after": r1[:4].tolist()})


def run_sibling(ctx, drv, case):
    """catalogue b: another scheme object (other configuration, often another strategy class) is created and does a
    complete small history while this one is in the middle of its own; everything it finds is reported with the PARENT
    case (the process history is part of the replay)"""
    sub = case["sibling"]
    ctx.count("sibling_runs")
    RUNNERS[sub["strategy"] if sub.get("family") not in ("multi", "grid") else "es"](ctx, drv, sub, report_case=case)


def finish_with_reevaluation(rec, probe, sa, op, comps, dom, orig_refine):
    """the adaptive run was interrupted right after an evaluation: finish it through the public API with a tolerance that
    is met immediately; with reevaluate_at_end=True the returned [3] comes from evaluate_final_combi(); then call
    evaluate_final_combi() directly once more (re-evaluation from scratch must be idempotent)"""
    try:
        with quiet():
            sa.refine = orig_refine
            sa.reevaluate_at_end = True
            res = sa.continue_adaptive_refinement(tol=1e300)
        oracle_integrals(rec, probe, "reevaluate_at_end", np.asarray(res[3], dtype=float), comps, dom)
        if rec.ok:
            with quiet():
                res2, _ = sa.evaluate_final_combi()
            oracle_integrals(rec, probe, "evaluate_final_combi", np.asarray(res2, dtype=float), comps, dom)
        rec.ctx.count("reevaluations")
    except Exception as e:
        import traceback
        where = traceback.extract_tb(e.__traceback__)[-1]
        rec.violation(probe.split("-")[0] + "-exception", "exception", {"exception": repr(e)[:300], "where": "reevaluate %s:%d" % (where.filename.split("/")[-1], where.lineno)},
                      {"exception": type(e).__name__})


def gen_es_case(ctx, thorough):
    r = ctx.rng
    dim = r.choice([2, 2, 3])
    lmin, lmax = r.choice(LEVELS)
    if dim == 3 and lmax - lmin > 1:
        lmin, lmax = r.choice([(1, 2), (2, 3)])
    if thorough and r.random() < 0.04:
        dim, lmin, lmax = 4, 1, 2
    case = {"strategy": "es", "dim": dim, "lmin": lmin, "lmax": lmax, "dom": [list(r.choice(DOMAINS)) for _ in range(dim)],
            "version": 0, "automatic_extend_split": r.random() < 0.4, "split_single_dim": r.random() < 0.35,
            "before_extend": r.randint(0, 2), "estimator": r.choice(["scripted", "scripted", "default"]),
            "seed": r.randrange(10 ** 9), "power": r.choice([1, 3, 6]), "rounds": r.randint(2, 4 if not thorough else 6),
            "peak": [r.randint(1, 15) / 16 for _ in range(dim)], "sharp": r.choice([4, 40, 400]),
            # recalculate_frequently=True with refinements_for_recalculate lowered to this value (None: off);
            # reeval: finish with continue_adaptive_refinement(reevaluate_at_end=True) + evaluate_final_combi()
            "recalc": r.choice([None, None, 1, 2, 3]), "reeval": r.random() < 0.6}
    return harden_options(r, case, "es", thorough)


def gen_esmulti_case(ctx, thorough):
    """extend-split with split_single_dim=True and prescribed benefits such that one refinement round contains several
    refinements: multi-dimension splits of areas that were not refined yet followed (later container positions) by
    extends that raise lmax; symmetric set-up (same non-unit interval in every dimension, peak on the diagonal) so that
    the twin errors of several dimensions are within the 0.9 threshold of get_split_dims"""
    r = ctx.rng
    dim = r.choice([2, 2, 2, 3])
    lmin, lmax = r.choice([(1, 2), (1, 2), (1, 3), (2, 3)])
    if dim == 3:
        lmin, lmax = r.choice([(1, 2), (2, 3)])
    dom1 = list(r.choice([(-1.0, 2.0), (-1.0, 1.0), (0.0, 2.0), (1.0, 3.0), (0.5, 1.5), (0.0, 1.0)]))
    t = r.randint(1, 15) / 16
    diag = r.random() < 0.75
    return {"strategy": "es", "family": "multi", "dim": dim, "lmin": lmin, "lmax": lmax, "dom": [dom1] * dim,
            "version": 0, "automatic_extend_split": r.random() < 0.15, "split_single_dim": True,
            "before_extend": r.choice([1, 1, 2]), "estimator": "scripted", "multi": r.choice([0.4, 0.6, 0.8]),
            "seed": r.randrange(10 ** 9), "power": 1, "rounds": r.randint(2, 4),
            "peak": [t] * dim if diag else [r.randint(1, 15) / 16 for _ in range(dim)], "sharp": r.choice([0.5, 4, 40]),
            "sym": lmin if r.random() < 0.7 else None}


ES_GRIDS = ["trapezoid", "lagrange1", "lagrange2", "lagrange3", "clenshawcurtis", "gausslegendre", "simpson"]


def make_local_grid(kind, a, b):
    """local grid families whose rules are exact for multilinear functions (assumed per family for all but the
    trapezoidal one, which is modelled and proved)"""
    from sparseSpACE import Grid as G
    if kind == "trapezoid":
        return G.TrapezoidalGrid(a, b, boundary=True)
    if kind.startswith("lagrange"):
        return G.LagrangeGrid(a, b, boundary=True, p=int(kind[-1]))
    if kind == "clenshawcurtis":
        return G.ClenshawCurtisGrid(a, b, boundary=True)
    if kind == "gausslegendre":
        return G.GaussLegendreGrid(a, b)
    if kind == "simpson":
        return G.SimpsonGrid(a, b, boundary=True)
    raise ValueError(kind)


HIGH_ORDER_GRIDS = ("lagrange2", "lagrange3", "clenshawcurtis", "gausslegendre")


def gen_esgrid_case(ctx, thorough):
    """extend-split on the other local grid families that are exact for multilinear functions.  High-order families
    (is_high_order_grid(): Lagrange p >= 2, Clenshaw-Curtis, Gauss-Legendre) switch the error estimation to the parent
    estimation; with split_single_dim=True they trip the code's own assert in get_sum_sibling_value (2 or 2^dim children
    expected) on the unchanged tree -- that combination is left out"""
    r = ctx.rng
    case = gen_es_case(ctx, thorough)
    g = r.choice(ES_GRIDS[1:])
    case["family"] = "grid"
    case["grid"] = g
    case["automatic_extend_split"] = r.random() < 0.6
    if g in HIGH_ORDER_GRIDS:
        case["split_single_dim"] = False
    if g in ("lagrange3", "gausslegendre", "clenshawcurtis") and case["dim"] == 3:
        case["lmin"], case["lmax"] = 1, 2
    return case


def run_es(ctx, drv, case, report_case=None):
    from sparseSpACE.Grid import TrapezoidalGrid
    from sparseSpACE.GridOperation import Integration
    from sparseSpACE.ErrorCalculator import ErrorCalculatorExtendSplit
    from sparseSpACE.spatiallyAdaptiveExtendSplit import SpatiallyAdaptiveExtendScheme
    dim, lmin, lmax = case["dim"], case["lmin"], case["lmax"]
    dom = [tuple(x) for x in case["dom"]]
    rng = random.Random(case["seed"])
    gkind = case.get("grid", "trapezoid")
    tags = {"strategy": "es", "version": case["version"], "automatic_extend_split": case["automatic_extend_split"],
            "split_single_dim": case["split_single_dim"], "before_extend": case["before_extend"], "estimator": case["estimator"],
            "grid": gkind}
    rec = Recorder(ctx, report_case or case, tags)
    comps = gen_multilinear_comps(rng, dim, 3, 2)
    f = make_function_class()(dom, comps, [dom[d][0] + (dom[d][1] - dom[d][0]) * case["peak"][d] for d in range(dim)], case["sharp"],
                              sym=case.get("sym"))
    a = np.array([x[0] for x in dom])
    b = np.array([x[1] for x in dom])

    def setup_driver():
        ok = drv.ask("dw %d %d %d std" % (dim, lmin, lmax)) == "ok"
        for d in range(dim):
            ok = drv.ask("dom %d %s %s" % (d, frac_str(dom[d][0]), frac_str(dom[d][1]))) == "ok" and ok
        return ok
    if not setup_driver():
        rec.corr("driver-setup", {"impl": "ok", "model": "rejected"})
        return rec
    snapshots = []          # (result at the moment a stop would return it, refinement state) before every refine()
    act_of = {}             # id(area) -> active (coarsened level, coefficient) list at the time of its evaluation
    with quiet():
        if case.get("toggle") == "nocache":
            f.deactivate_caching()
        grid = make_local_grid(case.get("grid", "trapezoid"), a, b)
        op = Integration(f, grid=grid, dim=dim, log_level=50, print_level=50)
        Scripted = make_scripted_class()
        if case["estimator"] == "scripted":
            ec = Scripted(case["seed"], case["power"], False, case.get("multi"))
        else:
            ec = ErrorCalculatorExtendSplit()
        sa = SpatiallyAdaptiveExtendScheme(a, b, number_of_refinements_before_extend=case["before_extend"], version=case["version"],
                                           automatic_extend_split=case["automatic_extend_split"], split_single_dim=case["split_single_dim"], operation=op)

    class _Stop(Exception):
        pass
    rounds_done = [0]
    orig_refine = sa.refine
    orig_eval_area = sa.evaluate_operation_area

    def eval_area_hook(component_grid, area, additional_info=None):
        # record what is computed on the area for the combined result (not the error-estimate evaluations)
        if additional_info is None:
            lv, do = sa.coarsen_grid(component_grid.levelvector, area)
            if do:
                act_of.setdefault(id(area), (area, []))[1].append(([int(x) for x in lv], int(round(component_grid.coefficient))))
        return orig_eval_area(component_grid, area, additional_info)
    sa.evaluate_operation_area = eval_area_hook
    orig_preprocess = op.area_preprocessing

    def preprocess_hook(area):
        act_of.pop(id(area), None)     # the area is (re-)evaluated from scratch
        return orig_preprocess(area)
    op.area_preprocessing = preprocess_hook

    def snapshot():
        areas = list(sa.refinement.get_objects())
        snapshots.append((np.array(op.get_result(), dtype=float), [(np.array(A.start, dtype=float), np.array(A.end, dtype=float), list(act_of.get(id(A), (A, []))[1]), A) for A in areas]))

    round_limit = [case["rounds"]]

    def refine_hook():
        snapshot()
        if rounds_done[0] >= round_limit[0]:
            raise _Stop()
        if case.get("sibling") and rounds_done[0] == case.get("sibling_at") and report_case is None:
            run_sibling(ctx, drv, case)
        if case.get("toggle") == "reset" and rounds_done[0] >= 1:
            f.reset_dictionary()
        rounds_done[0] += 1
        if hasattr(ec, "round"):
            ec.round = rounds_done[0]
        if case.get("multi") is not None and case["estimator"] == "scripted":
            # re-estimate EVERY area in every round (the library only estimates new areas): prescribed benefits, several
            # areas within the margin, old unrefined areas (-> multi-dimension split) before new ones (-> extend)
            for A in sa.refinement.get_objects():
                A.benefit = ec.target(A)
            sa.benefit_max = sa.refinement.get_max_benefit()
        orig_refine()
    sa.refine = refine_hook
    try:
        with quiet():
            try:
                if case.get("recalc"):
                    sa.refinements_for_recalculate = case["recalc"]
                res = sa.performSpatiallyAdaptiv(lmin, lmax, ec, tol=-1.0, print_output=False,
                                                 recalculate_frequently=bool(case.get("recalc")))
                final = np.asarray(res[3], dtype=float)
            except _Stop:
                final = None
    except Exception as e:
        import traceback
        where = traceback.extract_tb(e.__traceback__)[-1]
        rec.violation("es-exception", "exception", {"exception": repr(e)[:300], "where": "%s:%d" % (where.filename.split("/")[-1], where.lineno), "round": rounds_done[0]},
                      {"exception": type(e).__name__})
        return rec
    if case.get("resume"):
        # catalogue h: one more round through performSpatiallyAdaptiv(refinement_container=<own container>)
        try:
            with quiet():
                round_limit[0] += 1
                try:
                    sa.performSpatiallyAdaptiv(lmin, lmax, ec, tol=-1.0, print_output=False, refinement_container=sa.refinement,
                                               recalculate_frequently=bool(case.get("recalc")))
                except _Stop:
                    pass
            ctx.count("es_resumes")
        except Exception as e:
            rec.violation("es-exception", "exception", {"exception": repr(e)[:300], "where": "resume with refinement_container"}, {"exception": type(e).__name__})
            return rec
    setup_driver()
    for stop, (result, areas) in enumerate(snapshots):
        ctx.count("es_stops")
        oracle_integrals(rec, "es-exact", stop, result, comps, dom)
        # local coefficient sums (what the theorem needs)
        sums = [sum(c for _, c in act) for (_, _, act, _) in areas]
        if any(x != 1 for x in sums):
            ctx.count("es_local_coefficient_sum_not_1")
        if gkind != "trapezoid":
            # the model's local rule is the trapezoidal one; for the other families exactness of the local rule for
            # multilinear functions is an assumption (oracle only)
            if not rec.ok:
                break
            continue
        # model: areas with their active lists
        drv.ask("newstate")
        for (s, e, act, A) in areas:
            drv.ask("area " + ratvec([x for d in range(dim) for x in (s[d], e[d])]))
            for lv, c in act:
                if drv.ask("act %s %d" % (vec_str(lv), c)) != "ok":
                    rec.corr("es/state-transfer", {"impl": str((lv, c)), "model": "rejected"})
                    return rec
        for k, terms in enumerate(comps):
            m, err = model_sum(drv, "esint", terms)
            if m is None or not cmp_float_frac(result[k + 1], m, int_floor(dom)):
                rec.corr("es/combined-integral", {"stop": stop, "terms": terms_str(terms), "impl": float(result[k + 1]), "model": frac_str(m) if m is not None else err})
                break
        if not rec.ok:
            break
    # interpolation on the final state (d-linear interpolation needs the boundary points of the local grids; the basis
    # grids bring their own interpolation)
    if rec.ok and (gkind == "trapezoid" or gkind.startswith("lagrange")):
        pts = rand_points(rng, dom, 6)
        try:
            with quiet():
                sa.refine = orig_refine
                vals = np.asarray(sa(pts), dtype=float)
            oracle_values(rec, "es-exact", len(snapshots) - 1, pts, vals, comps, dom)
        except Exception as e:
            rec.violation("es-exception", "exception", {"exception": repr(e)[:300], "where": "__call__"}, {"exception": type(e).__name__})
    if rec.ok and case.get("queries") and gkind == "trapezoid":
        sa.refine = orig_refine
        extra_queries(rec, "es-exact", sa, op, f, comps, dom, a, b, rng, None, None)
    if rec.ok and case.get("reeval"):
        finish_with_reevaluation(rec, "es-exact", sa, op, comps, dom, orig_refine)
    if rec.ok and case.get("rerun"):
        try:
            with quiet():
                sa.refine = refine_hook
                rounds_done[0] = 0
                round_limit[0] = 1
                if hasattr(ec, "round"):
                    ec.round = 0
                try:
                    sa.performSpatiallyAdaptiv(lmin, lmax, ec, tol=-1.0, print_output=False)
                except _Stop:
                    pass
            ctx.count("es_second_runs")
            oracle_integrals(rec, "es-exact", "second-run-on-same-object", np.array(op.get_result(), dtype=float), comps, dom)
        except Exception as e:
            rec.violation("es-exception", "exception", {"exception": repr(e)[:300], "where": "second run on the same object"}, {"exception": type(e).__name__})
    if case.get("recalc"):
        ctx.count("es_recalculate_frequently")
    ctx.count("es_auto%d_single%d_before%d" % (case["automatic_extend_split"], case["split_single_dim"], case["before_extend"]))
    ctx.count("es_est_" + case["estimator"])
    ctx.count("es_grid_" + gkind)
    return rec


def gen_escont_case(ctx, thorough):
    case = gen_es_case(ctx, thorough)
    case["strategy"] = "escont"
    case["estimator"] = "default"
    case["extra_points"] = [ctx.rng.randint(0, 40) for _ in range(ctx.rng.randint(1, 2))]
    return case


def run_escont(ctx, drv, case):
    """extend-split with real stops: performSpatiallyAdaptiv(max_evaluations) then continue_adaptive_refinement;
    oracle only (the re-evaluation of the last new areas at the start of a continuation is C14's subject)"""
    from sparseSpACE.Grid import TrapezoidalGrid
    from sparseSpACE.GridOperation import Integration
    from sparseSpACE.ErrorCalculator import ErrorCalculatorExtendSplit
    from sparseSpACE.spatiallyAdaptiveExtendSplit import SpatiallyAdaptiveExtendScheme
    dim, lmin, lmax = case["dim"], case["lmin"], case["lmax"]
    dom = [tuple(x) for x in case["dom"]]
    rng = random.Random(case["seed"])
    tags = {"strategy": "es", "version": case["version"], "automatic_extend_split": case["automatic_extend_split"],
            "split_single_dim": case["split_single_dim"], "before_extend": case["before_extend"]}
    rec = Recorder(ctx, case, tags)
    comps = gen_multilinear_comps(rng, dim, 3, 2)
    f = make_function_class()(dom, comps, [dom[d][0] + (dom[d][1] - dom[d][0]) * case["peak"][d] for d in range(dim)], case["sharp"])
    a = np.array([x[0] for x in dom])
    b = np.array([x[1] for x in dom])
    try:
        with quiet():
            grid = TrapezoidalGrid(a, b, boundary=True)
            op = Integration(f, grid=grid, dim=dim, log_level=50, print_level=50)
            sa = SpatiallyAdaptiveExtendScheme(a, b, number_of_refinements_before_extend=case["before_extend"], version=case["version"],
                                               automatic_extend_split=case["automatic_extend_split"], split_single_dim=case["split_single_dim"], operation=op)
            res = sa.performSpatiallyAdaptiv(lmin, lmax, ErrorCalculatorExtendSplit(), tol=-1.0, max_evaluations=1, print_output=False)
        oracle_integrals(rec, "es-exact", 0, np.asarray(res[3], dtype=float), comps, dom)
        for i, extra in enumerate(case["extra_points"]):
            if not rec.ok:
                break
            with quiet():
                res = sa.continue_adaptive_refinement(tol=-1.0, max_evaluations=f.get_f_dict_size() + extra)
            ctx.count("es_continuations")
            oracle_integrals(rec, "es-continue-exact", i + 1, np.asarray(res[3], dtype=float), comps, dom)
    except Exception as e:
        import traceback
        where = traceback.extract_tb(e.__traceback__)[-1]
        rec.violation("es-exception", "exception", {"exception": repr(e)[:300], "where": "%s:%d" % (where.filename.split("/")[-1], where.lineno)},
                      {"exception": type(e).__name__})
    return rec


# ------------------------------------------------------------------------------------------------ cell scheme
def gen_cell_case(ctx, thorough):
    r = ctx.rng
    dim = r.choice([2, 2, 3])
    l = r.choice([1, 2, 2, 3]) if dim == 2 else r.choice([1, 2])
    case = {"strategy": "cell", "dim": dim, "lmin": l, "lmax": l, "dom": [list(r.choice(DOMAINS)) for _ in range(dim)],
            "estimator": r.choice(["scripted", "scripted", "default"]), "seed": r.randrange(10 ** 9), "power": r.choice([1, 3, 6]),
            "rounds": r.randint(2, 5 if not thorough else 8), "peak": [r.randint(1, 15) / 16 for _ in range(dim)], "sharp": r.choice([4, 40, 400]),
            "recalc": r.choice([None, None, 1, 3]), "reeval": r.random() < 0.7}
    return harden_options(r, case, "cell", thorough)


def run_cell(ctx, drv, case, report_case=None):
    from sparseSpACE.Grid import TrapezoidalGrid
    from sparseSpACE.GridOperation import Integration
    from sparseSpACE.ErrorCalculator import ErrorCalculatorSurplusCell
    from sparseSpACE.spatiallyAdaptiveCell import SpatiallyAdaptiveCellScheme
    dim, lmin, lmax = case["dim"], case["lmin"], case["lmax"]
    dom = [tuple(x) for x in case["dom"]]
    rng = random.Random(case["seed"])
    tags = {"strategy": "cell", "estimator": case["estimator"], "lmin": lmin}
    rec = Recorder(ctx, report_case or case, tags)
    comps = gen_multilinear_comps(rng, dim, 3, 2)
    f = make_function_class()(dom, comps, [dom[d][0] + (dom[d][1] - dom[d][0]) * case["peak"][d] for d in range(dim)], case["sharp"])
    a = np.array([x[0] for x in dom])
    b = np.array([x[1] for x in dom])
    def setup_driver():
        ok = drv.ask("dw %d %d %d std" % (dim, lmin, lmax)) == "ok"
        for d in range(dim):
            ok = drv.ask("dom %d %s %s" % (d, frac_str(dom[d][0]), frac_str(dom[d][1]))) == "ok" and ok
        return drv.ask("cellmin " + vec_str([lmin] * dim)) == "ok" and ok
    if not setup_driver():
        rec.corr("driver-setup", {"impl": "ok", "model": "rejected"})
        return rec
    snapshots = []
    with quiet():
        if case.get("toggle") == "nocache":
            f.deactivate_caching()
        grid = TrapezoidalGrid(a, b, boundary=True)
        op = Integration(f, grid=grid, dim=dim, log_level=50, print_level=50)
        if case["estimator"] == "scripted":
            ec = make_scripted_class()(case["seed"], case["power"], False)
        else:
            ec = ErrorCalculatorSurplusCell()
        sa = SpatiallyAdaptiveCellScheme(a, b, operation=op)

    class _Stop(Exception):
        pass
    rounds_done = [0]
    orig_refine = sa.refine

    def refine_hook():
        cells = list(sa.refinement.get_objects())
        snapshots.append((np.array(op.get_result(), dtype=float), [(np.array(c.start, dtype=float), np.array(c.end, dtype=float), [int(x) for x in c.levelvec]) for c in cells]))
        if rounds_done[0] >= round_limit[0]:
            raise _Stop()
        if case.get("sibling") and rounds_done[0] == case.get("sibling_at") and report_case is None:
            run_sibling(ctx, drv, case)
        if case.get("toggle") == "reset" and rounds_done[0] >= 1:
            f.reset_dictionary()
        rounds_done[0] += 1
        if hasattr(ec, "round"):
            ec.round = rounds_done[0]
        orig_refine()
    round_limit = [case["rounds"]]
    sa.refine = refine_hook
    try:
        with quiet():
            try:
                if case.get("recalc"):
                    sa.refinements_for_recalculate = case["recalc"]
                sa.performSpatiallyAdaptiv(lmin, lmax, ec, tol=-1.0, print_output=False, recalculate_frequently=bool(case.get("recalc")))
            except _Stop:
                pass
            if case.get("resume"):
                round_limit[0] += 1
                try:
                    sa.performSpatiallyAdaptiv(lmin, lmax, ec, tol=-1.0, print_output=False, refinement_container=sa.refinement,
                                               recalculate_frequently=bool(case.get("recalc")))
                except _Stop:
                    pass
                ctx.count("cell_resumes")
    except Exception as e:
        import traceback
        where = traceback.extract_tb(e.__traceback__)[-1]
        rec.violation("cell-exception", "exception", {"exception": repr(e)[:300], "where": "%s:%d" % (where.filename.split("/")[-1], where.lineno), "round": rounds_done[0]},
                      {"exception": type(e).__name__})
        return rec
    setup_driver()
    for stop, (result, cells) in enumerate(snapshots):
        ctx.count("cell_stops")
        ctx.count("cell_cells", len(cells))
        oracle_integrals(rec, "cell-exact", stop, result, comps, dom)
        drv.ask("cellmin " + vec_str([lmin] * dim))
        for (s, e, lv) in cells:
            if drv.ask("cell %s %s" % (ratvec([x for d in range(dim) for x in (s[d], e[d])]), vec_str(lv))) != "ok":
                rec.corr("cell/state-transfer", {"impl": str(lv), "model": "rejected"})
                return rec
        for k, terms in enumerate(comps):
            m, err = model_sum(drv, "cellint", terms)
            if m is None or not cmp_float_frac(result[k + 1], m, int_floor(dom)):
                rec.corr("cell/combined-integral", {"stop": stop, "terms": terms_str(terms), "impl": float(result[k + 1]), "model": frac_str(m) if m is not None else err})
                break
        if not rec.ok:
            break
    if rec.ok and case.get("reeval"):
        finish_with_reevaluation(rec, "cell-exact", sa, op, comps, dom, orig_refine)
    if rec.ok and case.get("rerun"):
        # catalogue h: a second performSpatiallyAdaptiv on the same object (own probe: the unchanged code keeps the cells of
        # the first run in self.cell_dict, the second run creates no cells and returns 0 -- proposed known finding / fix)
        try:
            with quiet():
                sa.refine = refine_hook
                rounds_done[0] = 0
                round_limit[0] = 1
                if hasattr(ec, "round"):
                    ec.round = 0
                try:
                    sa.performSpatiallyAdaptiv(lmin, lmax, ec, tol=-1.0, print_output=False)
                except _Stop:
                    pass
            ctx.count("cell_second_runs")
            oracle_integrals(rec, "cell-rerun-exact", "second-run-on-same-object", np.array(op.get_result(), dtype=float), comps, dom)
        except Exception as e:
            rec.violation("cell-exception", "exception", {"exception": repr(e)[:300], "where": "second run on the same object"}, {"exception": type(e).__name__})
    if case.get("recalc"):
        ctx.count("cell_recalculate_frequently")
    ctx.count("cell_est_" + case["estimator"])
    return rec


# ------------------------------------------------------------------------------------------------ 1-D unit stream
def run_unit_1d(ctx, drv, n):
    """the model's 1-D operators against the library's 1-D building blocks (compute_weights, interpn) on random
    non-uniform node lists, plus a small malformed stream"""
    from sparseSpACE.Grid import GlobalTrapezoidalGrid
    from scipy.interpolate import interpn
    r = ctx.rng
    for _ in range(n):
        m = r.randint(3, 9)
        a, b = r.choice(DOMAINS)
        inner = sorted(set(r.randint(1, 63) for _ in range(m - 2))) if r.random() < 0.9 else [32]
        xs = [a] + [a + (b - a) * i / 64 for i in inner] + [b]
        case = {"strategy": "unit1d", "xs": xs}
        for modified in (False, True):
            if modified and len(xs) < 3:
                continue
            try:
                with quiet():
                    w = GlobalTrapezoidalGrid.compute_weights(xs, a, b, modified)
            except Exception as e:
                ctx.violation("unit-exception", {"modified": modified, "n": len(xs), "exception": type(e).__name__}, dict(case, modified=modified),
                              {"exception": repr(e)[:300], "call": "GlobalTrapezoidalGrid.compute_weights"})
                continue
            if not modified:
                mw = drv.ask("weights " + ratvec(xs))
                if mw != "[" + ",".join(frac_str(float(x)) for x in w) + "]":
                    ctx.corr_break("C04/unit/weights", case, {"impl": str(list(w)), "model": mw})
            for spec in [("a", rand_dyadic(r), rand_dyadic(r)), ("h", 2, r.randint(0, 4)), ("h", 3, r.randint(0, 8))]:
                vals = [float(spec_exact_val(spec, a, b, x)) for x in xs]
                impl = float(np.dot(w, vals))
                mq = drv.ask("quad1 %s %s %s" % ("mod" if modified else "std", spec_str(spec), ratvec(xs)))
                try:
                    okq = cmp_float_frac(impl, Fr(mq))
                except ValueError:
                    okq = False
                if not okq:
                    ctx.corr_break("C04/unit/quad1", dict(case, modified=modified, spec=spec_str(spec)), {"impl": impl, "model": mq})
                promised = (not modified) or len(xs) >= 4 or xs[1] == (a + b) / 2
                if spec[0] == "a" and promised and not cmp_float_frac(impl, spec_exact_int(spec, a, b)):
                    ctx.violation("unit-affine-exact", {"modified": modified, "n": len(xs)}, dict(case, modified=modified, spec=spec_str(spec)),
                                  {"impl": impl, "exact": frac_str(spec_exact_int(spec, a, b))})
                if not modified:
                    x = a + (b - a) * r.randint(0, 128) / 128
                    iv = float(interpn([np.array(xs)], np.array(vals), [[x]], method="linear")[0])
                    mi = drv.ask("interp1 std %s %s %s" % (spec_str(spec), frac_str(x), ratvec(xs)))
                    try:
                        oki = cmp_float_frac(iv, Fr(mi))
                    except ValueError:
                        oki = False
                    if not oki:
                        ctx.corr_break("C04/unit/interp1", dict(case, spec=spec_str(spec), x=x), {"impl": iv, "model": mi})
        ctx.count("unit1d_lists")
        ctx.case(case, nontrivial=True)
    # malformed lines must be rejected, never defaulted
    for bad in ["dwint h:1", "pts 0 x 1,2", "quad1 foo a:1:1 0,1", "interp1 std a:1:1 5 0,1", "coef 1,a 1", "area 0,1,2", "cell 0,1 1,1,1", "", "dyadic 0 1 99"]:
        out = drv.ask(bad)
        if out not in ("bad-op", "assert"):
            ctx.corr_break("C04/unit/malformed", {"line": bad}, {"impl": "rejected", "model": out})
        ctx.count("malformed_lines")


# ------------------------------------------------------------------------------------------------ entry points
class CaseTimeout(BaseException):
    pass


@contextlib.contextmanager
def case_watchdog(seconds):
    """wall-clock limit for one history (SIGALRM in the main thread; no-op where signals are unavailable)"""
    import signal

    def handler(signum, frame):
        raise CaseTimeout()
    try:
        old = signal.signal(signal.SIGALRM, handler)
        signal.setitimer(signal.ITIMER_REAL, seconds)
    except (ValueError, AttributeError):
        yield
        return
    try:
        yield
    finally:
        signal.setitimer(signal.ITIMER_REAL, 0)
        signal.signal(signal.SIGALRM, old)


def classify_escaped_exception(ctx, strat, case, e):
    """catalogue k: an exception that escapes a runner and was raised inside the implementation under test is a violation
    with the replayable case; only an exception raised by the harness itself is a harness problem"""
    import traceback
    frames = traceback.extract_tb(e.__traceback__)
    inner = frames[-1] if frames else None
    in_impl = any("sparseSpACE" in (fr_.filename or "") for fr_ in frames[-3:])
    if in_impl:
        ctx.violation(("dw" if strat.startswith("dw") else ("cell" if strat == "cell" else "es")) + "-exception",
                      {"strategy": strat, "exception": type(e).__name__, "kind": "escaped"}, case,
                      {"exception": repr(e)[:300], "where": "%s:%d" % (inner.filename.split("/")[-1], inner.lineno) if inner else "?"})
    else:
        ctx.corr_break("C04/harness-exception", case, traceback.format_exc()[-1500:])


RUNNERS = {"dw": run_dw, "es": run_es, "cell": run_cell, "escont": run_escont, "esmulti": run_es, "esgrid": run_es, "dwcorner": run_dw, "dwraise": run_dw}
GENERATORS = {"dw": gen_dw_case, "es": gen_es_case, "cell": gen_cell_case, "escont": gen_escont_case, "esmulti": gen_esmulti_case, "esgrid": gen_esgrid_case, "dwcorner": gen_dwcorner_case, "dwraise": gen_dwraise_case}


def run(ctx):
    thorough = ctx.tier == "thorough"
    ctx.rule = ("refinement histories of the three adaptive strategies on the real implementation (dimension-wise: dim 2-3, (lmin,lmax) in "
                "{(1,2),(1,3),(2,3),(2,4)}, versions 2,3,6,7,8, rebalancing/boundary/modified basis on/off, scripted or library error estimator, 2-4 stops of "
                "1-2 refinement rounds; extend-split version 0 with automatic_extend_split/split_single_dim on/off, 0-2 refinements before extend; cell scheme "
                "lmin=lmax) with test functions of the initially exact space carried as extra output components; oracle: result[3] and __call__ against exact "
                "rationals; correspondence: Lean model on the observed state, keepsInitial monitored on every state; a case is one history, distinct by its "
                "full parameter dict, non-trivial if at least one refinement round ran")
    ctx.assumptions = [
        "H_keep (Model/Exactness.keepsInitial) is evaluated on every state the explored histories reach; the for-all-histories statement "
        "'the dimension-wise refinement (versions 3, 6, 7, 8, rebalancing off) only reaches states with keepsInitial = true' is monitored, not proved -- and FALSE for dim >= 3 with lmax-lmin >= 3 (known findings C04-dw-v68/v7/v3-dim3-span3)",
        "hypotheses hid / hJdown of the criterion are C01's theorems (used without hypotheses in *_adaptive for the CombiScheme model)",
        "the node list of a component grid depends on the component only through (d, l_d) (C03); checked on every state (two grids with equal l_d)",
        "scipy.interpolate.interpn(method='linear') is modelled as iterated 1-D piecewise-linear interpolation (tensor functions: product of 1-D interpolants); checked by correspondence",
        "the refinement process itself (which node lists / areas / cells arise) is not modelled here: the model starts from the observed refinement state",
    ]
    drv = ctx.driver("drv_c04")
    import dimwise_gen
    dimwise_gen.run(ctx, None, "C04")      # translator tie of the dimension-wise logic (see dimwise_gen.py); this harness is the search
    import globaltrap_gen
    globaltrap_gen.run(ctx)      # translator tie of GlobalTrapezoidalGrid.compute_weights (see globaltrap_gen.py); tie only
    run_unit_1d(ctx, drv, 40 if not thorough else 300)
    # corpus: witnesses of the known findings (and any minimised past failure) always run first
    import glob
    import json
    import os
    for path in sorted(glob.glob(os.path.join(os.path.dirname(os.path.dirname(os.path.abspath(__file__))), "corpus", "C04", "*.json"))):
        try:
            case = json.load(open(path))["case"]
            RUNNERS[case["strategy"]](ctx, drv, case)
            ctx.count("corpus_cases")
            ctx.case(case, nontrivial=True)
        except Exception:
            import traceback
            ctx.corr_break("C04/corpus-case", {"file": os.path.basename(path)}, traceback.format_exc()[-1500:])
    budget = 85 if not thorough else 600
    mix = ["dw", "es", "dw", "esgrid", "cell", "esmulti", "dw", "es", "dwcorner", "dwraise", "dw", "dw", "cell", "esgrid", "es", "dw", "dwraise", "escont", "esmulti"]
    k = 0
    while ctx.time_left(budget) > 0 and k < (400 if not thorough else 6000):
        strat = mix[k % len(mix)]
        case = GENERATORS[strat](ctx, thorough)
        # catalogue b: the process history is part of the replay -- a reported violation carries the list of the earlier
        # cases of the same strategy class of this process (class-level / module-level state of the library survives
        # between scheme objects); replay() runs them first
        group = "cell" if strat == "cell" else ("dw" if strat.startswith("dw") else "es")
        _PROCESS_HISTORY["current_group"] = group
        try:
            with case_watchdog(30 if not thorough else 90):
                rec = RUNNERS[strat](ctx, drv, case)
        except CaseTimeout:
            # keeps the time budget; counted, never silently dropped (a genuine endless loop shows up as a growing count)
            ctx.count("case_timeouts")
            ctx.count("case_timeouts_" + strat)
            drv.ask("dw 1 0 0 std")
            k += 1
            continue
        except Exception as e:
            import traceback
            classify_escaped_exception(ctx, strat, case, e)
            k += 1
            continue
        ctx.count("histories_" + strat)
        ctx.case(case, nontrivial=True, sample=case if k < 3 else None)
        _PROCESS_HISTORY[group].append(case)
        k += 1
        if len(ctx.violations) + len(ctx.corr_breaks) >= ctx.max_reports * 4:
            break


def replay(ctx, rp):
    case = rp["case"]
    drv = ctx.driver("drv_c04")
    strat = case.get("strategy")
    if strat not in RUNNERS:
        print("replay: unknown strategy %r" % strat)
        return 1
    if case.get("process_history"):
        import common
        scratch = common.Ctx(ctx.prop, ctx.tier, ctx.seed)
        for pre in case["process_history"]:
            try:
                RUNNERS[pre.get("strategy")](scratch, drv, pre)
            except Exception as e:
                print("replay: an earlier case of the process history raised %r" % (e,))
        print("replay: %d earlier case(s) of the process history run first" % len(case["process_history"]))
        case = {kk: vv for kk, vv in case.items() if kk != "process_history"}
    rec = RUNNERS[strat](ctx, drv, case)
    print("replay: %s" % ("property holds and model agrees on this case" if rec.ok else "REPRODUCED"))
    for v in ctx.violations[:3]:
        print("  violation:", v["probe"], v["tags"], str(v["detail"])[:600])
    for f, n in ctx.known_hits.values():
        print("  known finding:", f["id"], n)
    for c in ctx.corr_breaks[:3]:
        print("  disagreement:", c["observable"], str(c["detail"])[:600])
    for d in ctx._drivers:
        d.close()
    return 0 if rec.ok else 1
