"""C11 translator tie: the Romberg extrapolation coefficients (class family ExtrapolationCoefficients / RombergLinear- /
RombergDefault- / RombergSimpsonCoefficients: get_step_width, get_romberg_coefficient, get_coefficient with dynamic dispatch)
and the point weights of RombergTrapezoidalWeights / RombergSimpsonWeights (get_boundary_point_weight,
get_inner_point_weight, inherited get_step_width / get_extrapolation_coefficient) are regenerated from the CURRENT
sparseSpACE/Extrapolation.py on every run (tools/py2lean, specs romberg.json, romberg_trap.json, romberg_simpson.json) and
tied to Properties/C11gen.lean by the generic engine harness/gen_tie.py.

On a broken tie the fresh definitions and the hand model `Model/Romberg` are evaluated for all classes, levels 0..5 and two
intervals (romberg_gen_diff.lean); the disagreeing (function, class, interval, levels) go into the replay and the factory
correspondence / coefficient-sum test of the unchanged C11 harness (check_factories) is run with ten times its usual
sample; with mod = None only the tie is checked."""
import os
import time

import gen_tie

HERE = os.path.dirname(os.path.abspath(__file__))
TIE = gen_tie.Tie(
    "romberg-weights", [("romberg.json", "RombergGen"), ("romberg_trap.json", "RombergTrapGen"), ("romberg_simpson.json", "RombergSimpGen")],
    r"RombergGen\w*\.lean", "C11gen",
    diff_driver=os.path.join(HERE, "romberg_gen_diff.lean"), build_target="SparseSpace.Properties.C11gen",
    trusted=("translator tie (Romberg coefficients and point weights): tools/py2lean (incl. its flattening of single inheritance, the "
             "class-family dispatch on a class tag, and int -> float widening of loop-carried numbers), the interface declarations "
             "tools/py2lean/specs/romberg*.json (interval ends as exact rationals, levels as ints, the attribute extrapolation_factory of "
             "the weight classes is an object of the coefficient family) and the helper semantics of Model/PyRt.lean are trusted; which "
             "class the factories build for an ExtrapolationVersion is not translated; cross-checked by the unchanged correspondence "
             "test on the real Python"))


def run(ctx, drv=None, mod=None):
    """mod: the c11 module (check_factories) or None"""
    info = TIE.check(ctx)
    if info["status"] not in ("translation-failed", "proof-failed") or mod is None or drv is None:
        return info
    t1 = time.time()
    found_before = len(ctx.violations) + len(ctx.corr_breaks)
    ctx.count("gen-tie_directed_factories")
    try:
        mod.check_factories(ctx, drv, ctx.rng, 400)
    except Exception:
        import traceback
        ctx.corr_break("gen-tie/directed-exception", {"kind": "factory"}, traceback.format_exc()[-1500:])
    info.update(directed_tried=400, directed_found=len(ctx.violations) + len(ctx.corr_breaks) - found_before, directed_s=round(time.time() - t1, 1))
    return info
