"""C02 -- the standard combination equals the sparse-grid interpolant.

Correspondence: StandardCombi + Integration/Interpolation on a TrapezoidalGrid (boundary on/off) vs. the Lean model
(Model/Interp, Model/StdCombi, stdScheme of Model/Combi): scheme, per-component points / weights / announced counts,
union grid, point-wise coefficient sums, combined points and weights, combined integral, combined interpolant at
all sparse-grid points and at random dyadic points, interpolate_grid, single-component interpolants; all exact
(dyadic inputs).

Oracle (independent of the model, evaluated on the implementation's outputs): announced count = number of returned
points = number of weights; union of the component grids = the sparse grid of the index set (built here from its
definition); every union point has coefficient sum 1; nodal reproduction of arbitrary tables and of nodal unit
functions at every sparse-grid point; exact interpolation (at sparse-grid points and random points) and exact
integration (closed form) of every tensor hat whose level lies in the index set; interpolate_grid = __call__ on the
cross product; sum of combined weights x values = reported integral."""
import contextlib
import io
import itertools
import traceback
from fractions import Fraction as Fr

import numpy as np

from common import frac_str, vec_str

F = Fr


# ------------------------------------------------------------------------------------------------ helpers
def fs(x):
    x = float(x)
    if x != x:
        return "nan"
    if x in (float("inf"), float("-inf")):
        return "inf" if x > 0 else "-inf"
    return frac_str(x)


def feq(x, target):
    """exact equality of a float of the implementation with a Fraction (nan / inf are never equal)"""
    x = float(x)
    return x == x and x not in (float("inf"), float("-inf")) and F(x) == target


def str_frac(x):
    x = F(x)
    return str(x.numerator) if x.denominator == 1 else "%d/%d" % (x.numerator, x.denominator)


def fmt_pt(p):
    return ",".join(fs(c) for c in p)


def fmt_pts(ps):
    return "|".join(fmt_pt(p) for p in ps) if len(ps) else "-"


def fmt_vals(vs):
    return "|".join(fs(v) for v in vs)


def quiet():
    return contextlib.redirect_stdout(io.StringIO())


def simplex(dim, lmin, lmax):
    """the index set of the truncated standard scheme, from its definition"""
    n = lmax - lmin
    out = []
    for k in itertools.product(range(lmin, lmax + 1), repeat=dim):
        if sum(k) - dim * lmin <= n:
            out.append(k)
    return out


def flags_of(cfg):
    """boundary flag per dimension (uniform configurations carry only the aggregate cfg['bd'])"""
    return [bool(x) for x in cfg["flags"]] if "flags" in cfg else [bool(cfg["bd"])] * cfg["dim"]


def mk_flag(v, typ):
    """the same truth value as a literal bool, a numpy bool or an int (all are accepted as `boundary=`)"""
    return np.bool_(v) if typ == "npbool" else (int(v) if typ == "int" else bool(v))


def level_pts_1d(a, b, l, bd):
    n = 2 ** l
    idx = range(0, n + 1) if bd else range(1, n)
    return [float(F(a) + (F(b) - F(a)) * i / n) for i in idx]


def sparse_grid(a, b, dim, lmin, lmax, fl):
    pts = set()
    for k in simplex(dim, lmin, lmax):
        pts.update(itertools.product(*[level_pts_1d(a[d], b[d], k[d], fl[d]) for d in range(dim)]))
    return pts


def hat1(a, b, k, i, x):
    """1-D nodal hat of the level-k grid of [a,b] at index i (exact, Fractions)"""
    h = (F(b) - F(a)) / 2 ** k
    c = F(a) + h * i
    t = 1 - abs(F(x) - c) / h
    return t if t > 0 else F(0)


def hat1f(a, b, k, i, x):
    """the same hat in floats -- exact for the dyadic lattice points the harness evaluates"""
    h = (b - a) / 2 ** k
    t = 1.0 - abs(x - (a + h * i)) / h
    return t if t > 0 else 0.0


def near_end(x, e, a, b):
    """the boundary test of the repaired Grid.points_not_zero for one coordinate (tolerance relative to the width)"""
    return abs(x - e) <= 1e-12 * (b - a)


def make_function(dim, comps, box=None):
    """comps: list of components, each ('tab', dict point->Fraction, label) or ('hat', a, b, k, i); a Function subclass
    with output_length len(comps) evaluating them exactly (dyadic values -> exact floats).  The function RECORDS every
    point at which it is evaluated (`evaluated`).  A table labelled 'singular' is infinite wherever a coordinate lies on
    the excluded boundary of `box = (a, b, flags)` (the kind of function boundary=False exists for)."""
    from sparseSpACE.Function import Function

    class TabFunction(Function):
        def __init__(self):
            super().__init__()
            self.comps = comps
            self.evaluated = set()

        def output_length(self):
            return len(self.comps)

        def eval(self, coordinates):
            p = tuple(float(c) for c in coordinates)
            self.evaluated.add(p)
            # on the EXCLUDED boundary: a coordinate on an end of a dimension without boundary points
            on_bd = box is not None and any((not box[2][d]) and (p[d] == box[0][d] or p[d] == box[1][d]) for d in range(dim))
            out = []
            for c in self.comps:
                if c[0] == "tab":
                    out.append(float("inf") if (on_bd and c[2] == "singular") else float(c[1].get(p, 0)))
                else:
                    _, a, b, k, i = c
                    v = 1.0
                    for d in range(dim):
                        v *= hat1f(a[d], b[d], k[d], i[d], p[d])
                        if v == 0.0:
                            break
                    out.append(v)
            return out

    return TabFunction()


def comp_value(dim, c, p):
    if c[0] == "tab":
        return F(c[1].get(tuple(float(x) for x in p), 0))
    _, a, b, k, i = c
    v = F(1)
    for d in range(dim):
        v *= hat1(a[d], b[d], k[d], i[d], p[d])
    return v


def build(cfg, f, interp_op, integrator=None, print_output=False):
    from sparseSpACE.StandardCombi import StandardCombi
    from sparseSpACE.GridOperation import Integration, Interpolation
    from sparseSpACE.Grid import TrapezoidalGrid, TrapezoidalGrid1D, MixedGrid
    from sparseSpACE.Utils import print_levels, log_levels
    a = np.array(cfg["a"], dtype=float)
    b = np.array(cfg["b"], dtype=float)
    fl = flags_of(cfg)
    typ = cfg.get("flagtype", "bool")
    via = cfg.get("via", "trapezoidal")
    # integrator=None: IntegratorArbitraryGridScalarProduct (points x weights); 'old': the index-based
    # IntegratorArbitraryGrid (getWeight / getCoordinate per index vector)
    if via == "mixed":             # one 1-D grid per dimension, each with its own flag
        grid = MixedGrid(a, b, grids=[TrapezoidalGrid1D(a=a[d], b=b[d], boundary=mk_flag(fl[d], typ)) for d in range(cfg["dim"])],
                         integrator=integrator)
    elif via == "set_boundaries":  # flags changed after construction (the aggregate flag all(flags) stays what it was)
        grid = TrapezoidalGrid(a, b, boundary=mk_flag(all(fl), typ), integrator=integrator)
        grid.set_boundaries([mk_flag(x, typ) for x in fl])
    else:
        assert all(x == fl[0] for x in fl)
        grid = TrapezoidalGrid(a, b, boundary=mk_flag(fl[0], typ), integrator=integrator)
    cls = Interpolation if interp_op else Integration
    op = cls(f, grid=grid, dim=cfg["dim"])
    sc = StandardCombi(a, b, operation=op, print_output=print_output, print_level=print_levels.NONE, log_level=log_levels.NONE)
    # object history: earlier parameter sets requested on the SAME object (a scheme getter with hidden state, e.g. a
    # memo keyed too coarsely, must not leak an earlier scheme into the one under test)
    for (l0, l1) in cfg.get("warm", []):
        with quiet():
            sc.set_combi_parameters(int(l0), int(l1))
    # foreign-object history: sibling StandardCombi objects of the same dimension with ANOTHER box / other boundary
    # flags live in the same process and work (same level vectors) before the object under test is observed; state
    # shared between objects (class attributes, module globals) must not leak from one to the other
    if cfg.get("siblings") and not cfg.get("_is_sibling"):
        sc._verif_siblings = [build_sibling(cfg, sib) for sib in cfg["siblings"]]
        work_siblings(sc, cfg)
    return sc, grid, op


# objects built earlier in this process (one per explored configuration): a failing input is only self-contained
# together with them, so every reported case carries the earlier configurations of its dimension ("history") and the
# replay lets them work first
HISTORY = []
_ALIVE = []


def with_history(case):
    dim = case.get("cfg", {}).get("dim")
    return dict(case, history=[h for h in HISTORY if h["dim"] == dim])


def remember(cfg):
    HISTORY.append({k: cfg[k] for k in ("dim", "lmin", "lmax", "bd", "a", "b", "flags", "via", "flagtype") if k in cfg})


def replay_history(hist):
    from sparseSpACE.Function import FunctionLinear
    for h in hist:
        c2 = dict(h, _is_sibling=True)
        sc = build(c2, FunctionLinear([float(d + 1) for d in range(h["dim"])]), False)[0]
        sc._verif_siblings = [sc]
        work_siblings(sc, h)
        sc._verif_siblings = []
        _ALIVE.append(sc)


def build_sibling(cfg, sib):
    c2 = dict(cfg, a=sib["a"], b=sib["b"], bd=sib["bd"], _is_sibling=True)
    for k in ("flags", "via", "warm", "siblings"):
        c2.pop(k, None)
    if "flags" in sib:
        c2["flags"], c2["via"] = sib["flags"], sib.get("via", "mixed")
    from sparseSpACE.Function import FunctionLinear
    g = FunctionLinear([float(d + 1) for d in range(cfg["dim"])])
    return build(c2, g, False)[0]


def work_siblings(sc, cfg):
    """let every sibling object do what the object under test is going to do"""
    lmin, lmax, dim = cfg["lmin"], cfg["lmax"], cfg["dim"]
    for sib in getattr(sc, "_verif_siblings", []):
        with quiet():
            sib.perform_operation(lmin, lmax)
            for g in sib.scheme:
                sib.get_points_component_grid(g.levelvector)
                sib.get_num_points_component_grid(g.levelvector, False)
            sib.get_points_and_weights()
            mid = [tuple(float((sib.a[d] + sib.b[d]) / 2) for d in range(dim))]
            sib(mid)
            sib.interpolate_grid([[mid[0][d]] for d in range(dim)])


# ------------------------------------------------------------------------------------------------ generators
BOX_STARTS = [F(0), F(0), F(-1), F(1, 2), F(-3), F(2), F(-1, 4), F(5)]
BOX_LENGTHS = [F(1), F(1), F(2), F(1, 2), F(3), F(3, 2), F(4), F(5, 4), F(1, 4)]
FAR_STARTS = [F(1024), F(4096), F(-2048), F(8192)]


def est_cost(cfg):
    """total number of component-grid points of the scheme (drives the run time of one configuration)"""
    dim, lmin, lmax = cfg["dim"], cfg["lmin"], cfg["lmax"]
    n = lmax - lmin
    tot = 0
    for k in simplex(dim, lmin, lmax):
        if sum(k) - dim * lmin >= n - dim + 1:
            t = 1
            for x in k:
                t *= 2 ** x + 1
            tot += t
    return tot


def gen_cfg(ctx, thorough, far=False):
    """thorough tier: big configurations are thinned out (kept with probability 0.2) so that the budget buys breadth"""
    while True:
        cfg = gen_cfg0(ctx, thorough, far)
        if far or not thorough or est_cost(cfg) <= 20000 or ctx.rng.random() < 0.2:
            return cfg


def gen_cfg0(ctx, thorough, far=False):
    r = ctx.rng
    if far and r.random() < 0.4:
        # the other scale extreme: tiny boxes (width 2^-40, dyadic, so every comparison stays exact), boundary on or off
        dim = r.choice([1, 2, 2])
        lmin = r.choice([1, 2])
        lmax = lmin + r.choice([2, 3, 4])
        a = [r.choice([F(0), F(1), F(-1), F(1, 2 ** 20)]) for _ in range(dim)]
        b = [x + F(1, 2 ** 40) * r.choice([1, 1, 3]) for x in a]
        if dim == 2 and r.random() < 0.5:   # tiny in one dimension only: very non-cubic
            a[1], b[1] = F(-3), F(5)
        return {"dim": dim, "lmin": lmin, "lmax": lmax, "bd": r.random() < 0.5, "a": [float(x) for x in a],
                "b": [float(x) for x in b], "flagtype": r.choice(["bool", "npbool", "int"]), "tiny": True}
    if far:
        dim = r.choice([1, 1, 2])
        lmin = r.choice([1, 2])
        lmax = r.choice([7, 8]) if dim == 1 else lmin + 4
        a = [r.choice(FAR_STARTS) for _ in range(dim)]
        b = [x + r.choice([F(1), F(1, 2), F(2)]) for x in a]
        if dim == 2:  # one axis far is enough
            a[1], b[1] = F(0), F(1)
        return {"dim": dim, "lmin": lmin, "lmax": lmax, "bd": False, "a": [float(x) for x in a], "b": [float(x) for x in b],
                "flagtype": r.choice(["bool", "npbool", "int"])}
    dim = r.choice([1, 2, 2, 2, 2, 3, 3, 3, 4, 4, 5] if not thorough else [1, 2, 2, 3, 3, 3, 4, 4, 5])
    lmin = r.choice([1, 1, 2, 2, 3])
    if dim == 5:
        lmin = 1
        span = r.randint(0, 1 if not thorough else 2)
    elif dim == 1:
        span = r.randint(0, 4)
    elif dim == 2:
        span = r.randint(0, 4)
    elif dim == 3:
        span = r.randint(0, 3 if not thorough else 4)
        if lmin == 3:
            span = min(span, 2 if not thorough else 3)
    else:
        span = r.randint(0, 2 if not thorough else 3)
        lmin = min(lmin, 2)
        if lmin == 2:
            span = min(span, 2)
    bd = r.random() < 0.5
    a = [r.choice(BOX_STARTS) for _ in range(dim)]
    b = [a[d] + r.choice(BOX_LENGTHS) for d in range(dim)]
    cfg = {"dim": dim, "lmin": lmin, "lmax": lmin + span, "bd": bd, "a": [float(x) for x in a], "b": [float(x) for x in b]}
    # option coverage of the boundary flag: literal bool / numpy.bool_ / int; one flag for all dimensions
    # (TrapezoidalGrid) or one per dimension (MixedGrid of TrapezoidalGrid1D's, or set_boundaries), possibly mixed
    cfg["flagtype"] = r.choice(["bool", "bool", "npbool", "int"])
    x = r.random()
    if dim >= 2 and x < 0.3:
        fl = [r.random() < 0.5 for _ in range(dim)]
        k = r.randrange(dim)
        fl[k] = True
        fl[(k + 1 + r.randrange(dim - 1)) % dim] = False
        cfg["flags"] = fl
        cfg["bd"] = False
        cfg["via"] = r.choice(["mixed", "mixed", "set_boundaries"])
    elif x < 0.45:
        cfg["flags"] = [bd] * dim
        cfg["via"] = r.choice(["mixed", "set_boundaries"])
    if r.random() < 0.35 and est_cost(cfg) <= 8000:
        sibs = []
        for _ in range(r.choice([1, 1, 2])):
            sa = [r.choice(BOX_STARTS) for _ in range(dim)]
            sb = [sa[d] + r.choice(BOX_LENGTHS) for d in range(dim)]
            sib = {"a": [float(v) for v in sa], "b": [float(v) for v in sb], "bd": r.random() < 0.5}
            if dim >= 2 and r.random() < 0.3:
                sfl = [r.random() < 0.5 for _ in range(dim)]
                sfl[0], sfl[1] = True, False
                r.shuffle(sfl)
                sib["flags"], sib["bd"], sib["via"] = sfl, False, "mixed"
            sibs.append(sib)
        cfg["siblings"] = sibs
    if r.random() < 0.4:   # same level difference with another lmin first, sometimes also a different difference
        warm = [[lmin + 1, lmin + 1 + span]] if (lmin == 1 or r.random() < 0.5) else [[lmin - 1, lmin - 1 + span]]
        if r.random() < 0.3:
            warm.insert(0, [1, 2])
        if span >= 1 and r.random() < 0.5:      # same lmax, another lmin (and vice versa) right before the real request
            warm.append([lmin + 1, lmin + span] if r.random() < 0.6 else [max(1, lmin - 1), lmin + span])
        if r.random() < 0.25:
            warm.append([lmin, lmin + span + 1])
        cfg["warm"] = warm
    return cfg


def rand_dyadic(r, bits=4, lo=-8, hi=8):
    return F(r.randint(lo * 2 ** bits, hi * 2 ** bits), 2 ** bits)


def gen_components(ctx, cfg, sg_sorted, kinds=None):
    """one bundle = 1..3 scalar components (output length 1-3)"""
    r = ctx.rng
    dim, lmin, lmax, bd, a, b = cfg["dim"], cfg["lmin"], cfg["lmax"], cfg["bd"], cfg["a"], cfg["b"]
    fl = flags_of(cfg)
    off_dims = [d for d in range(dim) if not fl[d]]
    m = r.choice([1, 1, 2, 3])
    comps = []
    I = simplex(dim, lmin, lmax)
    for j in range(m):
        kind = kinds[j % len(kinds)] if kinds else r.choice(["table", "table", "unit", "hat", "hat", "sparse"] +
                                                            ([] if bd else ["singular", "singular"]))
        if kind == "singular":   # arbitrary values on the sparse grid, infinite on the boundary of the box (boundary off)
            comps.append(("tab", {p: rand_dyadic(r) for p in sg_sorted}, "singular"))
        elif kind == "table":      # arbitrary values on every sparse-grid point (and on the domain boundary)
            t = {p: rand_dyadic(r) for p in sg_sorted}
            if off_dims:         # values on the excluded boundary must be ignored (zero-boundary interpolant)
                for p in r.sample(sg_sorted, min(len(sg_sorted), 6)):
                    q = list(p)
                    d = r.choice(off_dims)
                    q[d] = r.choice([a[d], b[d]])
                    t[tuple(q)] = rand_dyadic(r)
            comps.append(("tab", t, "table"))
        elif kind == "sparse":   # few non-zero values
            t = {p: rand_dyadic(r) for p in r.sample(sg_sorted, min(len(sg_sorted), r.randint(1, 5)))}
            comps.append(("tab", t, "sparse"))
        elif kind == "unit":     # nodal unit function
            p = r.choice(sg_sorted)
            comps.append(("tab", {p: F(1)}, "unit"))
        else:                    # tensor hat of a level in the index set
            k = r.choice(I)
            if r.random() < 0.4:  # prefer maximal levels: they separate the component grids
                k = r.choice([x for x in I if sum(x) == max(sum(y) for y in I)])
            i = []
            for d in range(dim):
                n = 2 ** k[d]
                i.append(r.randint(0, n) if fl[d] else r.randint(1, n - 1))
            comps.append(("hat", a, b, list(k), i))
    return comps


def canon_comp(c):
    if c[0] == "tab":
        return ["tab", sorted((fmt_pt(p), str(v)) for p, v in c[1].items() if v != 0)]
    return ["hat", list(c[3]), list(c[4])]


def comp_to_case(c):
    if c[0] == "tab":
        return {"kind": "tab", "label": c[2], "entries": [[list(p), str(v)] for p, v in sorted(c[1].items())]}
    return {"kind": "hat", "k": list(c[3]), "i": list(c[4])}


def comp_from_case(cfg, j):
    if j["kind"] == "tab":
        return ("tab", {tuple(float(x) for x in p): F(v) for p, v in j["entries"]}, j.get("label", "table"))
    return ("hat", cfg["a"], cfg["b"], list(j["k"]), list(j["i"]))


# ------------------------------------------------------------------------------------------------ one configuration
class Runner:
    def __init__(self, ctx, drv):
        self.ctx = ctx
        self.drv = drv
        self.ok = True

    def corr(self, obs, case, impl, model):
        if impl != model:
            self.ok = False
            self.ctx.corr_break("C02/" + obs, case, {"impl": str(impl)[:600], "model": str(model)[:600]})
            return False
        return True

    def viol(self, probe, tags, case, detail):
        if self.ctx.violation(probe, tags, with_history(case), detail):   # False: listed in known_findings.json
            self.ok = False

    # -------------------------------------------------------------------------- structure of the scheme and grids
    def structure(self, cfg, case):
        ctx, drv = self.ctx, self.drv
        dim, lmin, lmax, bd, a, b = cfg["dim"], cfg["lmin"], cfg["lmax"], cfg["bd"], cfg["a"], cfg["b"]
        fl = flags_of(cfg)
        tags = {"dim": dim, "lmin": lmin, "span": lmax - lmin, "boundary": bd, "mixed_flags": len(set(fl)) > 1,
                "flagtype": cfg.get("flagtype", "bool"), "via": cfg.get("via", "trapezoidal")}
        r = drv.ask("cfg %d %d %d %s %s %s" % (dim, lmin, lmax, ",".join("1" if x else "0" for x in fl), fmt_pt(a), fmt_pt(b)))
        if not self.corr("cfg", case, "ok", r):
            return None
        f0 = make_function(dim, [("tab", {}, "zero")])
        # (0) the announced count on a freshly constructed object (no area was ever set on the grid)
        sc, grid, op = build(cfg, f0, False)
        lv0 = [lmin] * dim
        try:
            with quiet():
                n0 = int(sc.get_num_points_component_grid(lv0, False))
            fresh = "%s=%d" % (",".join(str(int(x)) for x in grid.levelToNumPoints(lv0)), n0)
        except Exception as e:
            fresh = "error"
            # querying the announced count before any point was ever requested is outside the property (it speaks of the
            # count matching the points a component grid RETURNS): recorded in the histogram and tied to the model, not a violation
            self.ctx.count("count_fresh_raises_" + type(e).__name__)
        self.corr("countfresh", case, fresh, drv.ask("countfresh " + vec_str(lv0)))
        with quiet():
            sc.set_combi_parameters(lmin, lmax)
        scheme = [(tuple(int(x) for x in g.levelvector), g.coefficient) for g in sc.scheme]
        bad_coeff = [c for _, c in scheme if float(c) != int(round(float(c)))]
        if bad_coeff:
            self.viol("scheme-coefficient-not-integral", tags, case, {"coefficients": str(bad_coeff)[:200]})
            return None
        scheme = [(lv, int(round(float(c)))) for lv, c in scheme]
        self.corr("scheme", case, ";".join("[%s]:%d" % (",".join(map(str, lv)), c) for lv, c in scheme), drv.ask("scheme"))
        # oracle on the scheme: it lives on the index set and its coefficients sum to 1
        I = set(simplex(dim, lmin, lmax))
        if any(lv not in I for lv, _ in scheme) or sum(c for _, c in scheme) != 1 or len(set(lv for lv, _ in scheme)) != len(scheme):
            self.viol("scheme-shape", tags, case, {"scheme": str(scheme)[:400]})
        # per component: points, weights, counts
        coef_at = {}
        union = set()
        seen_pts = {}
        for lv, c in scheme:
            with quiet():
                pts = sc.get_points_component_grid(list(lv))
                n_announced = sc.get_num_points_component_grid(list(lv), False)
                per_dim = grid.levelToNumPoints(list(lv))
                p2, w2 = sc.get_points_and_weights_component_grid(list(lv))
            pts = [tuple(float(x) for x in p) for p in pts]
            seen_pts[lv] = pts
            if not (len(pts) == int(n_announced) == int(np.prod(per_dim)) == len(w2) == len(p2)):
                self.viol("count-mismatch", tags, case, {"levelvec": list(lv), "announced": int(n_announced),
                                                         "per_dim": [int(x) for x in per_dim], "returned": len(pts), "weights": len(w2)})
            if len(set(pts)) != len(pts):
                self.viol("count-mismatch", tags, case, {"levelvec": list(lv), "what": "a point is returned twice"})
            self.corr("points", dict(case, levelvec=list(lv)), fmt_pts(pts), drv.ask("points " + vec_str(lv)))
            self.corr("weights", dict(case, levelvec=list(lv)), fmt_vals(w2), drv.ask("weights " + vec_str(lv)))
            self.corr("count", dict(case, levelvec=list(lv)),
                      "%s=%d" % (",".join(str(int(x)) for x in per_dim), int(n_announced)), drv.ask("count " + vec_str(lv)))
            # quadrature weights of one component sum to the volume (boundary on) -- part of "integrates exactly"
            if bd:
                vol = F(1)
                for d in range(dim):
                    vol *= F(b[d]) - F(a[d])
                if sum(F(float(w)) for w in w2) != vol:
                    self.viol("component-weights", tags, case, {"levelvec": list(lv), "sum": fs(sum(w2)), "volume": str(vol)})
            for p in pts:
                coef_at[p] = coef_at.get(p, 0) + c
            union.update(pts)
            ctx.count("component_grids")
        # oracle: union = sparse grid of the index set; coefficient sums 1
        sg = sparse_grid(a, b, dim, lmin, lmax, fl)
        if union != sg:
            self.viol("union-is-sparse-grid", tags, case, {"missing": [list(p) for p in sorted(sg - union)[:5]],
                                                          "extra": [list(p) for p in sorted(union - sg)[:5]]})
        badc = [(p, v) for p, v in coef_at.items() if v != 1]
        if badc:
            self.viol("point-coefficient-sum", tags, case, {"points": [[list(p), v] for p, v in sorted(badc)[:5]]})
        us = sorted(union)
        self.corr("union", case, fmt_pts(us), drv.ask("union"))
        sample = us if len(us) * len(scheme) <= 4000 else sorted(ctx.rng.sample(us, max(1, 4000 // len(scheme))))
        self.corr("coefsum", case, "|".join(str(coef_at[p]) for p in sample), drv.ask("coefsum " + fmt_pts(sample)))
        ctx.count("union_points", len(us))
        # combined points and weights
        with quiet():
            P, W = sc.get_points_and_weights()
        if len(P) != len(W) or len(P) != sum(int(np.prod(grid.levelToNumPoints(list(lv)))) for lv, _ in scheme):
            self.viol("count-mismatch", tags, case, {"what": "get_points_and_weights", "points": len(P), "weights": len(W)})
        if len(P) <= 6000:
            self.corr("pw", case, "|".join(fmt_pt(p) + ":" + fs(w) for p, w in zip(P, W)), drv.ask("pw"))
        # the 1-D hats the harness uses as test functions are the model's `hatFn` (object of the hat theorems)
        d = ctx.rng.randrange(dim)
        k = ctx.rng.randint(lmin, lmax)
        i = ctx.rng.randint(0, 2 ** k)
        ts = [F(a[d]) + (F(b[d]) - F(a[d])) * ctx.rng.randint(0, 2 ** (k + 2)) / 2 ** (k + 2) for _ in range(6)]
        self.corr("hat-function", dict(case, hat=[d, k, i]), "|".join(str_frac(hat1(a[d], b[d], k, i, t)) for t in ts),
                  drv.ask("hat %s %s %d %d %s" % (fs(a[d]), fs(b[d]), k, i, ",".join(str_frac(t) for t in ts))))
        # the sibling objects work again, then the object under test is re-observed: same points as before
        if cfg.get("siblings"):
            work_siblings(sc, cfg)
            for lv, c in scheme:
                with quiet():
                    again = [tuple(float(x) for x in p) for p in sc.get_points_component_grid(list(lv))]
                if again != seen_pts[lv]:
                    self.viol("sibling-interference", tags, case, {"levelvec": list(lv), "before": len(seen_pts[lv]), "after": len(again),
                                                                   "first_after": [list(p) for p in again[:2]]})
                    break
            ctx.count("configs_with_siblings")
        # malformed: level vector of the wrong length
        bad_lv = [lmin] * (dim + 1)
        try:
            with quiet():
                sc.get_points_component_grid(bad_lv)
            impl = "ok"
        except Exception:
            impl = "error"
        m = drv.ask("points " + vec_str(bad_lv))
        self.corr("points-malformed", case, impl, "error" if m == "bad-op" else m)
        return {"scheme": scheme, "union": us, "P": P, "W": W}

    # -------------------------------------------------------------------------- one function bundle
    def bundle(self, cfg, case, info, comps, xs, coords, far):
        ctx, drv = self.ctx, self.drv
        dim, lmin, lmax, bd, a, b = cfg["dim"], cfg["lmin"], cfg["lmax"], cfg["bd"], cfg["a"], cfg["b"]
        fl = flags_of(cfg)
        tags = {"dim": dim, "lmin": lmin, "span": lmax - lmin, "boundary": bd, "mixed_flags": len(set(fl)) > 1,
                "flagtype": cfg.get("flagtype", "bool"), "via": cfg.get("via", "trapezoidal")}
        us = info["union"]
        interp_op = ctx.rng.random() < 0.5 if "interp_op" not in case else case["interp_op"]
        lv_one = info["scheme"][ctx.rng.randrange(len(info["scheme"]))][0] if "lv_one" not in case else tuple(case["lv_one"])
        if "integrator" in case:
            integrator = case["integrator"]
        else:   # both integrator options; the index-based one loops in Python, keep it to moderate sizes
            integrator = "old" if (ctx.rng.random() < 0.4 and len(info["P"]) <= 4000) else None
        # argument aliasing: the caller keeps ONE coordinate list / point array and overwrites its contents between two
        # requests on the same object (same shape, other points)
        if "coords2" in case:
            coords2, alias_mode = case["coords2"], case.get("alias_mode", "inplace")
        else:
            m2 = lmax + 2
            coords2 = [sorted(float(F(a[d]) + (F(b[d]) - F(a[d])) * ctx.rng.randint(0, 2 ** m2) / 2 ** m2) for _ in coords[d])
                       for d in range(dim)]
            if us and ctx.rng.random() < 0.5:
                d = ctx.rng.randrange(dim)
                coords2[d] = sorted(coords2[d][1:] + [ctx.rng.choice(us)[d]])
            alias_mode = ctx.rng.choice(["inplace", "replace"])
        # rarely used public toggles and multi-call sequences on ONE object
        if "seq" in case:
            seq = case["seq"]
        else:
            rr = ctx.rng
            seq = {"nocache": rr.random() < 0.25, "reset_mid": rr.random() < 0.25, "print_output": rr.random() < 0.15,
                   "pre": [], "again": rr.random() < 0.4, "feedback": rr.random() < 0.5}
            if rr.random() < 0.4:   # the same object first works with OTHER levels
                l0 = rr.randint(1, lmin + 1)
                seq["pre"] = [[l0, l0 + rr.randint(0, 2)]]
        case = dict(case, comps=[comp_to_case(c) for c in comps], xs=[list(p) for p in xs], coords=coords, interp_op=interp_op,
                    lv_one=list(lv_one), integrator=integrator, coords2=coords2, alias_mode=alias_mode, seq=seq)
        tags = dict(tags, integrator=integrator or "scalar-product")
        f = make_function(dim, comps, (a, b, fl))
        sc, grid, op = build(cfg, f, interp_op, integrator, print_output=seq["print_output"])
        extra = {}
        try:
            with quiet():
                if seq["nocache"]:
                    f.deactivate_caching()
                earlier = []
                for (l0, l1) in seq["pre"]:
                    res0 = sc.perform_operation(int(l0), int(l1))[2]      # the returned array itself, not a copy
                    earlier.append((res0, np.array(res0, dtype=float).copy()))
                f.evaluated = set()
                _, _, integral = sc.perform_operation(lmin, lmax)
                integral = np.array(integral, dtype=float).copy()
                extra["earlier_ok"] = all(np.array_equal(np.array(r0, dtype=float), snap, equal_nan=True) for r0, snap in earlier)
                if seq["reset_mid"]:
                    f.reset_dictionary()
                vals = np.array(sc(list(xs)), dtype=float)
                coords_obj = [np.array(c, dtype=float) for c in coords]
                gvals = np.array(sc.interpolate_grid(coords_obj), dtype=float)
                for d in range(dim):      # the SAME list object now describes another tensor grid
                    if alias_mode == "inplace":
                        coords_obj[d][:] = coords2[d]
                    else:
                        coords_obj[d] = np.array(coords2[d], dtype=float)
                gvals2 = np.array(sc.interpolate_grid(coords_obj), dtype=float)
                gpts2 = list(itertools.product(*coords2))
                gvals2_ref = np.array(sc(list(gpts2)), dtype=float)
                pts_arr = np.array([list(p) for p in xs], dtype=float)
                vals_a = np.array(sc(pts_arr), dtype=float)
                pts_arr[:] = pts_arr[::-1].copy()     # the SAME point array, reversed in place
                vals_b = np.array(sc(pts_arr), dtype=float)
                # the implementation must not modify the caller's arguments
                extra["args_untouched"] = (all(np.array_equal(coords_obj[d], np.array(coords2[d], dtype=float)) for d in range(dim))
                                           and np.array_equal(pts_arr, np.array([list(p) for p in xs], dtype=float)[::-1]))
                cg = [g for g in sc.scheme if tuple(int(x) for x in g.levelvector) == tuple(lv_one)][0]
                one = np.array(sc.interpolate_points(list(xs), cg), dtype=float)
                # repeated queries give the same answer and do not touch the stored result
                extra["stored"] = np.array(sc.operation.get_result(), dtype=float).copy()
                extra["vals_again"] = np.array(sc(list(xs)), dtype=float)
                evaluated_main = set(f.evaluated)
                # the object's own outputs fed back in: the combined quadrature points into __call__, the coordinate
                # arrays of one component grid into interpolate_grid
                if seq["feedback"] and len(info["P"]) <= 2500:
                    P_own, _ = sc.get_points_and_weights()
                    extra["P_own"] = [tuple(float(x) for x in p) for p in P_own]
                    extra["vP"] = np.array(sc(P_own), dtype=float)
                    own = sc.get_points_component_grid_1D_arrays(list(lv_one))[0]
                    extra["own_coords"] = [[float(x) for x in c] for c in own]
                    extra["v_own"] = np.array(sc.interpolate_grid(own), dtype=float)
                    extra["own_after"] = [tuple(float(x) for x in p) for p in sc.get_points_component_grid(list(lv_one))]
                evaluated_main |= set(f.evaluated)
                # the same object works with other levels, then again with the levels under test
                if seq["again"]:
                    l0 = max(1, lmin - 1) if lmin > 1 else lmin + 1
                    sc.perform_operation(l0, l0 + 1)
                    extra["integral_again"] = np.array(sc.perform_operation(lmin, lmax)[2], dtype=float).copy()
                f.evaluated = evaluated_main
        except Exception as e:
            self.viol("exception", dict(tags, exc=type(e).__name__), case, {"exc": repr(e)[:300]})
            return
        gpts = list(itertools.product(*coords))
        seqtags = dict(tags, nocache=seq["nocache"], reset_mid=seq["reset_mid"], pre=bool(seq["pre"]))
        if not extra["args_untouched"]:
            self.viol("argument-modified", tags, case, {"what": "interpolate_grid / __call__ changed the caller's coordinate or point arrays"})
        if not extra["earlier_ok"]:
            self.viol("result-aliasing", seqtags, case, {"what": "the result array returned by an earlier perform_operation changed when the object worked again"})
        if not np.array_equal(extra["stored"], integral, equal_nan=True) or not np.array_equal(extra["vals_again"], vals, equal_nan=True):
            self.viol("repeated-query", seqtags, case, {"what": "interpolation requests changed the stored result or a repeated request gave another answer",
                                                        "integral": fmt_vals(integral), "stored_after": fmt_vals(extra["stored"])})
        if "integral_again" in extra and not np.array_equal(extra["integral_again"], integral, equal_nan=True):
            self.viol("second-run", seqtags, case, {"what": "perform_operation(lmin, lmax) after a run with other levels on the same object",
                                                    "first": fmt_vals(integral), "again": fmt_vals(extra["integral_again"])})
        if "vP" in extra:
            usset0 = set(us)
            for j, c in enumerate(comps):
                badP = [(p, fs(extra["vP"][n, j])) for n, p in enumerate(extra["P_own"])
                        if (c[0] != "tab" or p in usset0) and not feq(extra["vP"][n, j], comp_value(dim, c, p))]
                own_pts = list(itertools.product(*extra["own_coords"]))
                badO = [(p, fs(extra["v_own"][n, j])) for n, p in enumerate(own_pts)
                        if (c[0] != "tab" or p in usset0) and not feq(extra["v_own"][n, j], comp_value(dim, c, p))]
                if len(extra["vP"]) != len(extra["P_own"]) or badP or badO or extra["own_after"] != own_pts:
                    self.viol("fed-back-outputs", dict(seqtags, kind=(c[2] if c[0] == "tab" else "hat")), dict(case, component=j),
                              {"call_on_own_quadrature_points": [list(badP[0][0]), badP[0][1]] if badP else len(extra["vP"]),
                               "interpolate_grid_on_own_coordinates": [list(badO[0][0]), badO[0][1]] if badO else "ok",
                               "component_points_unchanged": extra["own_after"] == own_pts})
                    break
            ctx.count("fed_back_bundles")
        for k_, v_ in seq.items():
            if v_:
                ctx.count("seq_" + k_)
        if not np.array_equal(gvals2, gvals2_ref, equal_nan=True):
            self.viol("grid-vs-pointwise", dict(tags, aliased=alias_mode), case,
                      {"what": "interpolate_grid called again with the same list object whose contents were overwritten",
                       "interpolate_grid": fmt_vals(gvals2[:, 0])[:200], "call": fmt_vals(gvals2_ref[:, 0])[:200]})
        if not (np.array_equal(vals_a, vals, equal_nan=True) and np.array_equal(vals_b, vals[::-1], equal_nan=True)):
            self.viol("call-aliasing", tags, case, {"what": "__call__ on a point array that was reversed in place",
                                                    "expected": fmt_vals(vals[::-1][:, 0])[:200], "got": fmt_vals(vals_b[:, 0])[:200]})
        # the function may only be evaluated at points of the sparse grid ("the union of the component-grid points is
        # exactly that sparse grid"); in particular, with boundary points off, never on the boundary of the box
        usset = set(us)
        off = sorted(f.evaluated - usset)
        if off:
            on_boundary = [p for p in off if any((not fl[d]) and (p[d] == a[d] or p[d] == b[d]) for d in range(dim))]
            self.viol("evaluated-outside-sparse-grid", dict(tags, on_boundary=bool(on_boundary)), case,
                      {"n_points": len(off), "first": [list(p) for p in off[:3]]})
        ctx.count("function_evaluations", len(f.evaluated))
        # false-boundary classification (independent of the model): an interior sparse-grid point that
        # the boundary test of points_not_zero counts as lying on the boundary (cannot happen after the repair)
        false_bd = any((not fl[d]) and (near_end(p[d], a[d], a[d], b[d]) or near_end(p[d], b[d], a[d], b[d])) for p in us for d in range(dim))
        tags2 = dict(tags, false_boundary=bool(false_bd))
        for j, c in enumerate(comps):
            # ---- correspondence with the model
            if c[0] == "tab":
                entries = {p: v for p, v in c[1].items() if v != 0}
            else:  # a hat: its table on the sparse grid (it vanishes on the boundary when boundary points are off;
                   # with boundary points every mesh point is a sparse-grid point)
                entries = {}
                for p in us:
                    v = comp_value(dim, c, p)
                    if v != 0:
                        entries[p] = v
            r = drv.ask("tab " + ("|".join(fmt_pt(p) + ":" + str(v) for p, v in sorted(entries.items())) or "-"))
            self.corr("tab", case, "ok", r)
            cj = dict(case, component=j)
            self.corr("integral", cj, fs(integral[j]), drv.ask("integral"))
            self.corr("call", cj, fmt_vals(vals[:, j]), drv.ask("call " + fmt_pts(xs)))
            self.corr("interpolate_grid", cj, fmt_vals(gvals[:, j]), drv.ask("igrid " + ";".join(",".join(fs(x) for x in cc) for cc in coords)))
            self.corr("interpolate_grid(second grid, same list object)", cj, fmt_vals(gvals2[:, j]),
                      drv.ask("igrid " + ";".join(",".join(fs(x) for x in cc) for cc in coords2)))
            self.corr("interpolate_points(component)", dict(cj, lv_one=list(lv_one)), fmt_vals(one[:, j]),
                      drv.ask("icomp %s %s" % (vec_str(lv_one), fmt_pts(xs))))
            # ---- oracle
            usset = set(us)
            if c[0] == "tab":      # nodal reproduction at every requested sparse-grid point
                bad = [(p, fs(vals[n, j]), str(comp_value(dim, c, p))) for n, p in enumerate(xs)
                       if p in usset and not feq(vals[n, j], comp_value(dim, c, p))]
                if bad:
                    self.viol("nodal-reproduction", dict(tags2, kind=c[2]), cj, {"first": [list(bad[0][0]), bad[0][1], bad[0][2]], "n_bad": len(bad)})
                badg = [(p, fs(gvals[n, j])) for n, p in enumerate(gpts)
                        if p in usset and not feq(gvals[n, j], comp_value(dim, c, p))]
                if badg:
                    self.viol("nodal-reproduction-grid", dict(tags2, kind=c[2]), cj, {"first": [list(badg[0][0]), badg[0][1]], "n_bad": len(badg)})
                # sum of combined weights x values = reported integral
                if len(info["P"]) <= 20000:
                    s = F(0)
                    for p, w in zip(info["P"], info["W"]):
                        v = c[1].get(tuple(float(x) for x in p))
                        if v:
                            s += v * F(float(w))
                    if not feq(integral[j], s):
                        self.viol("weights-vs-integral", tags, cj, {"sum_w_f": str(s), "integral": fs(integral[j])})
            else:                  # hat-space exactness: interpolation everywhere, integration in closed form
                bad = [(p, fs(vals[n, j]), str(comp_value(dim, c, p))) for n, p in enumerate(xs)
                       if not feq(vals[n, j], comp_value(dim, c, p))]
                if bad:
                    self.viol("hat-interpolation", dict(tags2, level=list(c[3])), cj, {"first": [list(bad[0][0]), bad[0][1], bad[0][2]], "n_bad": len(bad)})
                badg = [(p, fs(gvals[n, j])) for n, p in enumerate(gpts) if not feq(gvals[n, j], comp_value(dim, c, p))]
                if badg:
                    self.viol("hat-interpolation-grid", dict(tags2, level=list(c[3])), cj, {"first": [list(badg[0][0]), badg[0][1]], "n_bad": len(badg)})
                exact = F(1)
                for d in range(dim):
                    h = (F(b[d]) - F(a[d])) / 2 ** c[3][d]
                    exact *= h / 2 if c[4][d] in (0, 2 ** c[3][d]) else h
                if not feq(integral[j], exact):
                    self.viol("hat-integral", dict(tags, level=list(c[3])), cj, {"integral": fs(integral[j]), "exact": str(exact)})
            # interpolate_grid = __call__ on the cross product
            with quiet():
                v2 = np.array(sc(gpts), dtype=float)
            if not np.array_equal(v2[:, j], gvals[:, j], equal_nan=True):
                self.viol("grid-vs-pointwise", tags, cj, {"call": fmt_vals(v2[:, j])[:200], "interpolate_grid": fmt_vals(gvals[:, j])[:200]})
            ctx.count("component_" + (c[2] if c[0] == "tab" else "hat"))
        ctx.count("bundle_outlen_%d" % len(comps))
        ctx.count("op_interpolation" if interp_op else "op_integration")
        ctx.count("integrator_" + (integrator or "scalar_product"))

    # -------------------------------------------------------------------------- evaluation points
    def eval_points(self, cfg, us, nmax):
        r = self.ctx.rng
        dim, lmax, a, b = cfg["dim"], cfg["lmax"], cfg["a"], cfg["b"]
        xs = list(us) if len(us) <= nmax else sorted(r.sample(us, nmax))
        m = lmax + 2
        for _ in range(12):   # random dyadic points of the box (finer than every grid)
            xs.append(tuple(float(F(a[d]) + (F(b[d]) - F(a[d])) * r.randint(0, 2 ** m) / 2 ** m) for d in range(dim)))
        xs.append(tuple(float(x) for x in a))
        xs.append(tuple(float(x) for x in b))
        coords = []
        for d in range(dim):
            k = r.randint(1, 3 if dim <= 2 else 2)
            cs = sorted(set(float(F(a[d]) + (F(b[d]) - F(a[d])) * r.randint(0, 2 ** m) / 2 ** m) for _ in range(k)))
            if r.random() < 0.5 and us:
                cs = sorted(set(cs + [r.choice(us)[d]]))
            coords.append(cs)
        return xs, coords

    def out_of_bounds(self, cfg, case):
        ctx, drv = self.ctx, self.drv
        dim, lmin, lmax, a, b = cfg["dim"], cfg["lmin"], cfg["lmax"], cfg["a"], cfg["b"]
        f = make_function(dim, [("tab", {}, "zero")])
        sc, grid, op = build(cfg, f, True)
        p = [float((F(a[d]) + F(b[d])) / 2) for d in range(dim)]
        d = ctx.rng.randrange(dim)
        p[d] = float(F(b[d]) + F(1, 4)) if ctx.rng.random() < 0.5 else float(F(a[d]) - F(1, 8))
        try:
            with quiet():
                sc.set_combi_parameters(lmin, lmax)
                sc([tuple(p)])
            impl = "ok"
        except ValueError:
            impl = "error"
        except Exception as e:
            impl = "exc:" + type(e).__name__
        drv.ask("tab -")
        m = drv.ask("call " + fmt_pts([tuple(p)]))
        self.corr("call-out-of-bounds", dict(case, point=p), impl, "error" if m == "error" else "ok")
        ctx.count("out_of_bounds_calls")


def run_config(ctx, drv, cfg, bundles=None, far=False, nbundles=2, replaying=None):
    R = Runner(ctx, drv)
    case = {"cfg": cfg, "far": far}
    info = R.structure(cfg, case)
    if info is None:
        return R.ok, case
    us = info["union"]
    if replaying is not None:
        for rb in replaying:
            comps = [comp_from_case(cfg, j) for j in rb["comps"]]
            c2 = dict(case)
            for k in ("interp_op", "lv_one", "integrator", "coords2", "alias_mode", "seq"):
                if k in rb:
                    c2[k] = rb[k]
            R.bundle(cfg, c2, info, comps, [tuple(p) for p in rb["xs"]], rb["coords"], far)
        return R.ok, case
    nmax = 250 if cfg["dim"] <= 3 else 120
    for n in range(nbundles):
        xs, coords = R.eval_points(cfg, us, nmax)
        comps = gen_components(ctx, cfg, us)   # far boxes: tables, unit functions AND hats (the boundary test is repaired)
        R.bundle(cfg, case, info, comps, xs, coords, far)
    if ctx.rng.random() < 0.3:
        R.out_of_bounds(cfg, case)
    return R.ok, case


# ------------------------------------------------------------------------------------------------ non-dyadic stream
def run_nondyadic(ctx, cfg, subseed):
    """oracle only, tolerance 1e-9 (the model is exact; floating-point rounding is not modelled): arbitrary real boxes
    and values.  Point identity across component grids is bitwise in the implementation (linspace steps differ by
    powers of two), which is what its own check_combi_scheme relies on."""
    import random
    r = random.Random(subseed)      # every draw below depends on the case alone (replayable)
    dim, lmin, lmax, bd, a, b = cfg["dim"], cfg["lmin"], cfg["lmax"], cfg["bd"], cfg["a"], cfg["b"]
    tags = {"dim": dim, "lmin": lmin, "span": lmax - lmin, "boundary": bd, "nondyadic": True}
    case = {"cfg": cfg, "nondyadic": True, "subseed": subseed}
    ok = True

    def viol(probe, tg, detail):
        nonlocal ok
        if ctx.violation(probe, tg, with_history(case), detail):
            ok = False

    def close(x, y):
        return abs(x - y) <= 1e-9 * max(1.0, abs(y))

    def key(p):
        """lattice index of a point at level lmax (identifies points up to rounding)"""
        return tuple(int(round((p[d] - a[d]) / (b[d] - a[d]) * 2 ** lmax)) for d in range(dim))

    f0 = make_function(dim, [("tab", {}, "zero")])
    sc, grid, op = build(cfg, f0, False)
    with quiet():
        sc.set_combi_parameters(lmin, lmax)
    scheme = [(tuple(int(x) for x in g.levelvector), int(round(float(g.coefficient)))) for g in sc.scheme]
    coef_bitwise = {}
    coef_at = {}
    rep = {}
    for lv, c in scheme:
        with quiet():
            pts = [tuple(float(x) for x in p) for p in sc.get_points_component_grid(list(lv))]
            n_announced = int(sc.get_num_points_component_grid(list(lv), False))
            p2, w2 = sc.get_points_and_weights_component_grid(list(lv))
        if not (len(pts) == n_announced == len(w2) == len(p2)):
            viol("count-mismatch", tags, {"levelvec": list(lv), "announced": n_announced, "returned": len(pts), "weights": len(w2)})
        for p in pts:
            kp = key(p)
            if any(abs((p[d] - a[d]) / (b[d] - a[d]) * 2 ** lmax - kp[d]) > 1e-6 for d in range(dim)):
                viol("union-is-sparse-grid", tags, {"what": "component-grid point off the level-lmax lattice", "point": list(p)})
            coef_bitwise[p] = coef_bitwise.get(p, 0) + c
            coef_at[kp] = coef_at.get(kp, 0) + c
            rep.setdefault(kp, p)
    # (a) identity of points up to rounding: the property's clause
    badc = [(rep[q], v) for q, v in coef_at.items() if v != 1]
    if badc:
        viol("point-coefficient-sum", tags, {"points": [[list(p), v] for p, v in sorted(badc)[:5]]})
    # union = sparse grid (lattice indices whose level vector lies in the simplex)
    sgk = set()
    for kk in simplex(dim, lmin, lmax):
        axes = [[j * 2 ** (lmax - kk[d]) for j in (range(0, 2 ** kk[d] + 1) if bd else range(1, 2 ** kk[d]))] for d in range(dim)]
        sgk.update(itertools.product(*axes))
    if set(coef_at) != sgk:
        viol("union-is-sparse-grid", tags, {"missing": sorted(sgk - set(coef_at))[:5], "extra": sorted(set(coef_at) - sgk)[:5]})
    # (b) bitwise identity, which the code's own dictionaries (check_combi_scheme, the function cache, the distinct
    # point count) rely on
    badb = [(p, v) for p, v in coef_bitwise.items() if v != 1]
    if badb:
        # float rounding is outside the property (exact model, tolerance comparison): recorded, not a violation
        ctx.count("bitwise_non_nested_points_observed", len(badb))
    us = sorted(rep.values())
    false_bd = (not bd) and any(near_end(p[d], a[d], a[d], b[d]) or near_end(p[d], b[d], a[d], b[d]) for p in us for d in range(dim))
    tags2 = dict(tags, false_boundary=bool(false_bd))
    # one table (a function of the lattice index, hence insensitive to rounding of the coordinates) and one hat
    tab = {q: r.uniform(-3, 3) for q in sorted(coef_at)}
    I = simplex(dim, lmin, lmax)
    k = r.choice(I)
    i = [r.randint(0, 2 ** k[d]) if bd else r.randint(1, 2 ** k[d] - 1) for d in range(dim)]

    from sparseSpACE.Function import Function

    class FloatFunction(Function):
        def output_length(self):
            return 2

        def eval(self, coordinates):
            p = tuple(float(c) for c in coordinates)
            v = 1.0
            for d in range(dim):
                v *= hat1f(a[d], b[d], k[d], i[d], p[d])
            return [tab.get(key(p), 0.0), v]

    f = FloatFunction()
    sc, grid, op = build(cfg, f, r.random() < 0.5)
    xs = list(us) if len(us) <= 200 else r.sample(us, 200)
    rnd = [tuple(r.uniform(a[d], b[d]) for d in range(dim)) for _ in range(12)]
    try:
        with quiet():
            _, _, integral = sc.perform_operation(lmin, lmax)
            integral = np.array(integral, dtype=float).copy()
            vals = np.array(sc(xs + rnd), dtype=float)
    except Exception as e:
        viol("exception", dict(tags, exc=type(e).__name__), {"exc": repr(e)[:300]})
        return ok, case
    bad = [(p, vals[n, 0], tab[key(p)]) for n, p in enumerate(xs) if not close(vals[n, 0], tab[key(p)])]
    if bad:
        viol("nodal-reproduction", dict(tags2, kind="table"), {"first": [list(bad[0][0]), bad[0][1], bad[0][2]], "n_bad": len(bad)})
    hv = lambda p: float(np.prod([hat1f(a[d], b[d], k[d], i[d], p[d]) for d in range(dim)]))
    bad = [(p, vals[n, 1], hv(p)) for n, p in enumerate(xs + rnd) if not close(vals[n, 1], hv(p))]
    if bad:
        viol("hat-interpolation", dict(tags2, level=list(k)), {"first": [list(bad[0][0]), bad[0][1], bad[0][2]], "n_bad": len(bad)})
    exact = 1.0
    for d in range(dim):
        h = (b[d] - a[d]) / 2 ** k[d]
        exact *= h / 2 if i[d] in (0, 2 ** k[d]) else h
    if not close(integral[1], exact):
        viol("hat-integral", dict(tags, level=list(k)), {"integral": float(integral[1]), "exact": exact})
    ctx.count("nondyadic_configs")
    return ok, case


def gen_nondyadic(ctx):
    r = ctx.rng
    dim = r.choice([1, 2, 2, 3])
    lmin = r.choice([1, 1, 2])
    span = r.randint(0, 3 if dim <= 2 else 2)
    a = [round(r.uniform(-3, 3), 3) for _ in range(dim)]
    b = [a[d] + round(r.uniform(0.1, 4), 3) for d in range(dim)]
    return {"dim": dim, "lmin": lmin, "lmax": lmin + span, "bd": r.random() < 0.5, "a": a, "b": b,
            "flagtype": r.choice(["bool", "npbool", "int"])}


def run(ctx):
    thorough = ctx.tier == "thorough"
    ctx.rule = ("StandardCombi on TrapezoidalGrid / MixedGrid of TrapezoidalGrid1D / set_boundaries (boundary on/off, also mixed per dimension; flag given as bool, numpy.bool_ or int), Integration/Interpolation; dim 1-4, lmin 1-3, lmax-lmin 0-4, "
                "dyadic boxes, function bundles of output length 1-3 whose components are random dyadic tables on the sparse grid, "
                "sparse tables, nodal unit functions and tensor hats of a level in the index set; a few far-from-origin boxes with "
                "boundary off (formerly the np.isclose false-boundary class; must satisfy every clause now); model and implementation compared on scheme, points, weights, counts, "
                "union, coefficient sums, combined points/weights, integral, interpolant at sparse-grid and random dyadic points, "
                "interpolate_grid, one component interpolant; plus a non-dyadic stream (arbitrary real boxes and values, oracle only, tolerance 1e-9); a case = one configuration (dim,lmin,lmax,boundary,box), non-trivial if "
                "dim>=2 or lmax>lmin")
    drv = ctx.driver("drv_c02")
    n = 110 if not thorough else 1200
    budget = 80 if not thorough else 560
    nfar = 4 if not thorough else 12
    for k in range(12 if not thorough else 80):   # non-dyadic stream: oracle only, tolerance 1e-9
        cfg = gen_nondyadic(ctx)
        sub = ctx.rng.getrandbits(32)
        try:
            ok, case = run_nondyadic(ctx, cfg, sub)
        except Exception as e:   # the implementation raised where the property promises a value
            case = {"cfg": cfg, "nondyadic": True, "subseed": sub}
            ctx.violation("exception", {"exc": type(e).__name__, "nondyadic": True}, with_history(case), {"traceback": traceback.format_exc()[-1500:]})
        remember(cfg)
        ctx.case(case, nontrivial=(cfg["dim"] >= 2 or cfg["lmax"] > cfg["lmin"]))
    for k in range(n):
        if ctx.time_left(budget) < 0:
            ctx.count("stopped_by_budget")
            break
        far = k < nfar
        cfg = gen_cfg(ctx, thorough, far=far)
        try:
            ok, case = run_config(ctx, drv, cfg, far=far, nbundles=(2 if not thorough else 3))
        except Exception as e:   # the implementation raised where the property promises a value
            ok, case = False, {"cfg": cfg, "far": far}
            ctx.violation("exception", {"exc": type(e).__name__, "dim": cfg["dim"]}, with_history(case), {"traceback": traceback.format_exc()[-1500:]})
        remember(cfg)
        ctx.count("dim_%d" % cfg["dim"])
        ctx.count("lmin_%d" % cfg["lmin"])
        ctx.count("span_%d" % (cfg["lmax"] - cfg["lmin"]))
        ctx.count("boundary_%s" % ("mixed" if len(set(flags_of(cfg))) > 1 else ("on" if cfg["bd"] else "off")))
        ctx.count("flagtype_" + cfg.get("flagtype", "bool"))
        ctx.count("via_" + cfg.get("via", "trapezoidal"))
        if far:
            ctx.count("tiny_box" if cfg.get("tiny") else "far_box")
        ctx.case(case, nontrivial=(cfg["dim"] >= 2 or cfg["lmax"] > cfg["lmin"]), sample=case if k in (nfar, nfar + 1) else None)
        # a disagreement with the model alone is not a defect: keep searching for an input on which the property
        # itself fails (the oracle runs on every case); stop early only once failing inputs were found
        if len(ctx.violations) >= ctx.max_reports or (ctx.violations and k >= 20 + nfar):
            break


def replay(ctx, rp):
    case = rp["case"]
    if case.get("history"):
        print("replay: %d earlier configuration(s) of this dimension work first" % len(case["history"]))
        replay_history(case["history"])
    if case.get("nondyadic"):
        try:
            ok, _ = run_nondyadic(ctx, case["cfg"], case["subseed"])
        except Exception as e:
            print("replay: REPRODUCED (the implementation raised %s: %s)" % (type(e).__name__, str(e)[:200]))
            return 1
        known = sum(v[1] for v in ctx.known_hits.values() if v[0].get("probe") == rp.get("probe"))
        print("replay: %s" % ("property holds on this configuration" if ok and not known else "REPRODUCED"))
        for v in ctx.violations[:3]:
            print("  violation:", v["probe"], str(v["detail"])[:400])
        return 0 if ok and not known else 1
    drv = ctx.driver("drv_c02")
    rb = None
    if "comps" in case:
        rb = [{k: case[k] for k in ("comps", "xs", "coords", "interp_op", "lv_one", "integrator", "coords2", "alias_mode", "seq") if k in case}]
    try:
        ok, _ = run_config(ctx, drv, case["cfg"], far=case.get("far", False), replaying=rb if rb is not None else [])
    except Exception as e:
        print("replay: REPRODUCED (the implementation raised %s: %s)" % (type(e).__name__, str(e)[:200]))
        return 1
    known = sum(v[1] for v in ctx.known_hits.values() if v[0].get("probe") == rp.get("probe"))
    print("replay: %s" % ("property holds and model agrees on this case" if ok and not known else "REPRODUCED"))
    for v in ctx.violations[:3]:
        print("  violation:", v["probe"], str(v["detail"])[:400])
    for fid, (f, n) in ctx.known_hits.items():
        if f.get("probe") == rp.get("probe"):
            print("  known finding:", fid, n)
    for c in ctx.corr_breaks[:3]:
        print("  disagreement:", c["observable"], str(c["detail"])[:400])
    for d in ctx._drivers:
        d.close()
    return 0 if ok and not known else 1
