"""C09 -- global adaptive 1-D quadrature rules on every refinement-tree grid.

Correspondence: `GlobalTrapezoidalGrid(...).set_grid([points],[levels])` / `compute_weights` on random refinement
trees (dyadic and weighted-midpoint splits, strongly graded, 3-40 points, all flag combinations, a small malformed
stream) vs. Model/GlobalQuad through the compiled driver: coordinates, levels, weights, error kinds, Σ w f.
Oracle (independent of the model, Python Fractions): the clauses of the property on the implementation's outputs --
Σ w_i f_i = integral of the piecewise-linear interpolant (zero boundary values / linear extrapolation), linear
exactness, non-negative weights, level independence, tensor weights; and for the families without exact model
(GlobalHighOrderGrid, GlobalLagrangeGrid, GlobalBSplineGrid): constants and linear functions exact on every tree,
degree <= p when the tree is complete down to the level at which the family's basis reaches degree p."""
import math
from fractions import Fraction as F

from common import frac_str, parse_frac

DOMAINS = [(F(0), F(1)), (F(-1), F(1)), (F(0), F(2)), (F(1, 2), F(1)), (F(-3), F(6)), (F(1, 2), F(2)), (F(2), F(5, 2)), (F(-2), F(-1))]
# boxes far from the origin relative to their width (|a|/(b-a) between 1e2 and 2e4, both signs), dyadic ends
FAR_DOMAINS = [(F(1000), F(1001)), (F(-2001), F(-2000)), (F(256), F(258)), (F(-4096), F(-8191, 2)), (F(500), F(504)),
               (F(8192), F(8193)), (F(-1024), F(-1023)), (F(3000), F(3000) + F(1, 4)), (F(-640), F(-636))]


def pick_domain(rng, pfar=0.15):
    return rng.choice(FAR_DOMAINS) if rng.random() < pfar else rng.choice(DOMAINS)


def is_far(a, b):
    return max(abs(a), abs(b)) >= 64 * (b - a)


RATIOS = [F(1, 3), F(1, 4), F(2, 5), F(3, 5), F(2, 3), F(3, 4), F(3, 7), F(1, 2)]
TOL = 1e-9          # float comparisons (DEV.md); dyadic inputs with power-of-two widths are compared exactly
TOL_HIER = 1e-9     # hierarchical / moment-matching families: an n x n solve sits between input and output


# ------------------------------------------------------------------------------------------------ generators
def gen_tree(rng, a, b, n, weighted, grade, maxdepth):
    """refinement tree on [a,b]: repeatedly split a cell at its (weighted) midpoint; the new point gets level
    max(level of the cell ends)+1; end points have level 0"""
    pts = [(a, 0), (b, 0)]
    guard = 0
    while len(pts) < n and guard < 10 * n:
        guard += 1
        cells = list(range(len(pts) - 1))
        depth = [max(pts[i][1], pts[i + 1][1]) for i in cells]
        if rng.random() < grade:
            m = max(depth)
            i = rng.choice([k for k in cells if depth[k] == m])
        else:
            i = rng.choice(cells)
        if depth[i] + 1 > maxdepth:
            cand = [k for k in cells if depth[k] + 1 <= maxdepth]
            if not cand:
                break
            i = rng.choice(cand)
        t = rng.choice(RATIOS) if weighted else F(1, 2)
        x = pts[i][0] + t * (pts[i + 1][0] - pts[i][0])
        pts.insert(i + 1, (x, depth[i] + 1))
    return [p for p, _ in pts], [l for _, l in pts]


def complete_level(levels):
    """largest L such that the tree contains all 2^L+1 points of levels <= L"""
    L = 0
    while sum(1 for l in levels if l <= L + 1) == 2 ** (L + 1) + 1:
        L += 1
    return L


def fvec(v):
    return ",".join(frac_str(x) for x in v) if len(v) else "-"


def ivec(v):
    return ",".join(str(int(x)) for x in v) if len(v) else "-"


def parse_list(s):
    s = s.strip()
    assert s[0] == "[" and s[-1] == "]", s
    s = s[1:-1]
    return [parse_frac(x) for x in s.split(",")] if s else []


def parse_setgrid(out):
    """'C [..] W [..] L [..]' -> (coords, weights, levels) or ('err', kind)"""
    if out.startswith("err "):
        return ("err", out[4:])
    assert out.startswith("C "), out
    c, rest = out[2:].split(" W ")
    w, l = rest.split(" L ")
    return parse_list(c), parse_list(w), [int(x) for x in parse_list(l)]


def err_kind(e):
    if isinstance(e, IndexError):
        return "index"
    if isinstance(e, AssertionError):
        return "assert"
    if isinstance(e, ZeroDivisionError):
        return "zerodiv"
    return type(e).__name__


# ------------------------------------------------------------------------------------------------ independent spec
def pl_integral(pts, vals):
    return sum(((pts[i + 1] - pts[i]) * (vals[i] + vals[i + 1]) / 2 for i in range(len(pts) - 1)), F(0))


def pl_zero(pts, ivals):
    return pl_integral(pts, [F(0)] + list(ivals) + [F(0)])


def pl_extrap(pts, ivals):
    """interior values continued linearly into the boundary cells from the two nearest interior points"""
    n = len(pts)
    if len(ivals) >= 2:
        left = ivals[0] + (ivals[1] - ivals[0]) / (pts[2] - pts[1]) * (pts[0] - pts[1])
        right = ivals[-1] + (ivals[-1] - ivals[-2]) / (pts[n - 2] - pts[n - 3]) * (pts[n - 1] - pts[n - 2])
    else:
        left = right = ivals[0]
    return pl_integral(pts, [left] + list(ivals) + [right])


def moment(a, b, k):
    return (b ** (k + 1) - a ** (k + 1)) / (k + 1)


def close(x, y, tol, scale=1.0, terms=0.0):
    """|x-y| <= tol*max(1,|y|,scale) + 1e-11*terms; `terms` = Σ|w_i f_i| covers the cancellation of the (possibly huge,
    sign-changing) modified weights on strongly graded grids -- rounding of the implementation's doubles, not logic"""
    return abs(float(x) - float(y)) <= tol * max(1.0, abs(float(y)), scale) + 1e-11 * float(terms)


# ------------------------------------------------------------------------------------------------ functions
def make_functions():
    from sparseSpACE.Function import Function

    class Table(Function):
        """values looked up by coordinate (product of 1-D tables)"""
        def __init__(self, tables):
            super().__init__()
            self.tables = tables
            self.seen = set()

        def output_length(self):
            return 1

        def eval(self, c):
            self.seen.add(tuple(float(x) for x in c))       # where the integrand is really evaluated
            r = 1.0
            for d, t in enumerate(self.tables):
                r *= t[float(c[d])]
            return r

    class Mono(Function):
        def __init__(self, ks, shifts=None):
            super().__init__()
            self.ks = ks
            self.shifts = shifts if shifts is not None else [0.0] * len(ks)     # (x - shift)^k: keeps the test sensitive far from 0
            self.seen = set()

        def output_length(self):
            return 1

        def eval(self, c):
            self.seen.add(tuple(float(x) for x in c))
            r = 1.0
            for d, k in enumerate(self.ks):
                r *= (float(c[d]) - self.shifts[d]) ** k
            return r

    return Table, Mono


def scalar(v):
    import numpy as np
    return float(np.ravel(v)[0])


# ------------------------------------------------------------------------------------------------ trapezoid case
def run_trap(ctx, drv, case, grid=None, report=None, bufs=None):
    """one 1-D trapezoid case; returns ok.  `grid`: an already used GlobalTrapezoidalGrid object to be re-used for this
    grid (object history); `report`: the case to store in replays (the whole history)"""
    rc = report if report is not None else case
    import numpy as np
    from sparseSpACE.Grid import GlobalTrapezoidalGrid
    Table, Mono = make_functions()
    pts = [F(x) for x in case["pts"]]
    lv = list(case["levels"])
    a, b = F(case["a"]), F(case["b"])
    bd, md = bool(case["boundary"]), bool(case["modified"])
    ptsf = [float(x) for x in pts]
    ptsq = [F(x) for x in ptsf]            # the numbers the implementation really sees
    n = len(pts)
    ok = True
    tags = {"family": "trapezoid", "boundary": bd, "modified": md, "n": n}
    # the coded 4-point formula (b**2/2 - b*x1 - a**2/2 + a*x1)/(x2 - x1) cancels terms of size a^2: its doubles carry an
    # absolute rounding error of about eps*(a^2+b^2)/(x2-x1) (1e-8 at |a|/(b-a) = 1e4) -- rounding, not logic; exact for dyadic points
    canc = 0.0
    if md and n == 4 and ptsq[2] != ptsq[1]:
        canc = 4e-16 * (float(a * a + b * b) + 2 * abs(float(ptsq[1])) * (abs(float(a)) + abs(float(b)))) / abs(float(ptsq[2] - ptsq[1]))
    if grid is not None:
        tags["reused_object"] = True

    def corr(obs, impl, model):
        nonlocal ok
        ok = False
        ctx.corr_break("C09/" + obs, rc, {"impl": str(impl)[:400], "model": str(model)[:400]})

    # ---- implementation
    impl = None
    try:
        g = grid if grid is not None else GlobalTrapezoidalGrid([float(a)], [float(b)], boundary=bd, modified_basis=md)
        if bufs is not None:
            # argument aliasing: the caller re-uses and overwrites ITS OWN list objects between the set_grid calls of a history
            bufs["pts"][:] = ptsf
            bufs["lv"][:] = lv
            arg_p, arg_l = bufs["pts"], bufs["lv"]
        else:
            arg_p, arg_l = list(ptsf), list(lv)
        g.set_grid([arg_p], [arg_l])
        if list(arg_p) != ptsf or list(arg_l) != lv:
            ok = False
            ctx.violation("trap-argument-modified", tags, rc, {"points_after": list(arg_p)[:12], "levels_after": list(arg_l)[:12]})
        impl = ([float(x) for x in g.coordinate_array[0]], [float(x) for x in g.weights[0]], [int(x) for x in g.levels[0]])
    except (IndexError, AssertionError, ZeroDivisionError) as e:
        impl = ("err", err_kind(e))
    # ---- model
    model = parse_setgrid(drv.ask("setgrid %d %d %s %s %s %s" % (bd, md, frac_str(a), frac_str(b), fvec(ptsq), ivec(lv))))
    exact_ok = True
    if impl == ("err", "assert") and model[0] != "err" and md and case.get("wellformed"):
        # In exact arithmetic the interior weights sum to b-a (theorem modTrap_eq_plIntegral_extrap), so the model passes the
        # code's self-assert.  On strongly graded grids the modified weights are huge and of both signs; since the fix
        # "self-check relative to sum(abs(weights))" the doubles pass it too (deterministic cases deep_graded_m30).  This branch
        # is the regression probe for that fix: it reports if the assert fires again by rounding alone.
        maxw = max(abs(float(w)) for w in model[1]) if model[1] else 0.0
        if maxw >= 1e3 * float(b - a):
            ctx.count("selfassert_fired_by_rounding")
            ctx.violation("trap-selfassert-rounding", dict(tags, exc="assert", huge_weights=True), case,
                          {"max_abs_weight_exact": maxw, "exact_sum_minus_(b-a)": float(sum(model[1], F(0)) - (b - a))})
            return False
    if impl[0] == "err" or model[0] == "err":
        ctx.count("err_" + (impl[1] if impl[0] == "err" else "none"))
        if impl != model:
            corr("set_grid-error", impl, model)
        # an exception on a well-formed refinement-tree grid is a violation of the property (it promises a value)
        if impl[0] == "err" and case.get("wellformed"):
            ok = False
            ctx.violation("trap-exception", dict(tags, exc=impl[1]), rc, {"error": impl[1]})
        return ok
    ic, iw, il = impl
    mc, mw, ml = model
    if [F(x) for x in ic] != mc:
        corr("coordinates", ic, [str(x) for x in mc])
    if il != ml:
        corr("levels", il, ml)
    if len(iw) != len(mw):
        corr("weights-length", len(iw), len(mw))
    else:
        scale = float(b - a)
        for k in range(len(iw)):
            if F(iw[k]) != mw[k]:
                exact_ok = False
                if not close(iw[k], mw[k], TOL, scale) and abs(iw[k] - float(mw[k])) > canc:
                    corr("weights", iw, [str(x) for x in mw])
                    break
    ctx.count("weights_exact" if exact_ok else "weights_rounded")
    # compute_weights / compute_1D_quad_weights directly (the un-sliced vector, incl. the overwritten end weights)
    try:
        raw = [float(x) for x in GlobalTrapezoidalGrid.compute_weights(list(ptsf), float(a), float(b), md)]
        raw2 = [float(x) for x in g.compute_1D_quad_weights(list(ptsf), float(a), float(b), 0, grid_levels_1D=[7] * n)]
        rawm = parse_list(drv.ask("cw %d %s %s %s" % (md, frac_str(a), frac_str(b), fvec(ptsq))))
        if len(raw) != len(rawm) or any(not close(raw[k], rawm[k], TOL, float(b - a)) and abs(raw[k] - float(rawm[k])) > canc for k in range(len(raw))):
            corr("compute_weights", raw, [str(x) for x in rawm])
        if raw != raw2:
            ok = False
            ctx.violation("trap-level-dependence", tags, rc, {"compute_weights": raw, "with_levels": raw2})
    except Exception as e:
        corr("compute_weights-exception", repr(e), "")
    # ---- oracle on the implementation's own output
    coords = [F(x) for x in ic]
    W = [F(x) for x in iw]
    want_coords = ptsq if bd else ptsq[1:-1]
    if coords != want_coords:
        ok = False
        ctx.violation("trap-points", tags, rc, {"coords": ic, "expected": [float(x) for x in want_coords]})
        return ok
    vals = [F(v) for v in case["vals"]][:len(coords)]
    seen = {}
    for k, c in enumerate(coords):          # a value TABLE: equal coordinates (malformed duplicates) carry one value
        vals[k] = seen.setdefault(c, vals[k])
    wf = bool(case.get("wellformed"))
    spans = n >= 2 and ptsq[0] == a and ptsq[-1] == b
    s = sum((w * v for w, v in zip(W, vals)), F(0))
    if bd:
        spec = pl_integral(ptsq, vals)
    elif not md:
        spec = pl_zero(ptsq, vals)
    else:
        spec = pl_extrap(ptsq, vals)
    vscale = float(b - a) * max([1.0] + [abs(float(v)) for v in vals])
    terms = sum((abs(w * v) for w, v in zip(W, vals)), F(0))
    if canc:
        terms = float(terms) + 1e11 * canc * sum(abs(float(v)) for v in vals)       # `close` multiplies terms by 1e-11
        ctx.count("mod4_formula_cancellation_%s" % ("far" if is_far(a, b) else "near"))
    if md and not spans:
        # the modified weights are built from the domain ends a, b: the clause speaks of grids that start at a and end at b
        ctx.count("malformed_modified_grid_not_spanning_domain")
        return ok
    if not close(s, spec, TOL, vscale, terms):
        ok = False
        ctx.violation("trap-pl-integral", tags, rc, {"sum_w_f": float(s), "pl_integral": float(spec)})
    # the same through grid.integrate and through the model
    try:
        tab = Table([{float(c): float(v) for c, v in zip(ic, vals)}])
        iv = scalar(g.integrate(tab, [max(lv) if lv else 0], [float(a)], [float(b)]))
        if not close(iv, spec, TOL, vscale, terms):
            ok = False
            ctx.violation("trap-integrate", tags, rc, {"integrate": iv, "pl_integral": float(spec)})
        # use site: the integrand is evaluated exactly at the returned points
        if tab.seen != set((float(c),) for c in ic):
            ok = False
            ctx.violation("trap-evaluation-points", tags, rc, {"evaluated": sorted(tab.seen)[:12], "returned": ic[:12]})
        # repeated queries agree and leave the stored grid untouched; returned arrays do not alias the stored ones
        iv2 = scalar(g.integrate(tab, [max(lv) if lv else 0], [float(a)], [float(b)]))
        gw = np.array(g.get_weights(), dtype=float)
        gw_copy = gw.copy()
        if len(gw):
            gw[:] = -7.0                                            # the caller overwrites what it was given
        gw2 = np.array(g.get_weights(), dtype=float)
        iv3 = scalar(g.integrate(tab, [max(lv) if lv else 0], [float(a)], [float(b)]))
        cwr = GlobalTrapezoidalGrid.compute_weights(list(ptsf), float(a), float(b), md)
        cw1 = [float(x) for x in cwr]
        if len(cwr):
            cwr[:] = -7.0
        cw2 = [float(x) for x in GlobalTrapezoidalGrid.compute_weights(list(ptsf), float(a), float(b), md)]
        after = ([float(x) for x in g.coordinate_array[0]], [float(x) for x in g.weights[0]], [int(x) for x in g.levels[0]])
        if iv2 != iv or iv3 != iv or list(gw_copy) != list(gw2) or [float(x) for x in gw_copy] != iw or cw1 != cw2 or after != (ic, iw, il):
            ok = False
            ctx.violation("trap-repeated-query", tags, rc, {"integrate": [iv, iv2, iv3], "get_weights": [list(gw_copy)[:8], list(gw2)[:8]],
                                                            "compute_weights": [cw1[:8], cw2[:8]], "stored_before": str((ic, iw, il))[:300], "stored_after": str(after)[:300]})
        # the other public integrator of the repo (test_Integrator swaps it in) gives the same integral
        from sparseSpACE.Integrator import IntegratorArbitraryGrid
        iv4 = scalar(IntegratorArbitraryGrid(g)(tab, g.levelToNumPoints([0]), [float(a)], [float(b)]))
        if not close(iv4, iv, TOL, vscale, terms):
            ok = False
            ctx.violation("trap-integrator-route", tags, rc, {"IntegratorArbitraryGridScalarProduct": iv, "IntegratorArbitraryGrid": iv4})
        mv = parse_frac(drv.ask("integ %d %d %s %s %s %s" % (bd, md, frac_str(a), frac_str(b), fvec(ptsq), fvec(vals))))
        if not close(iv, mv, TOL, vscale, terms):
            corr("integrate", iv, str(mv))
        # the model's specification function is the same function as the oracle's
        op = "pl" if bd else ("plx" if md else "plz")
        ms = parse_frac(drv.ask("%s %s %s" % (op, fvec(ptsq), fvec(vals))))
        if ms != spec:
            corr("spec-function-" + op, str(spec), str(ms))
    except Exception as e:
        if wf:
            ok = False
            ctx.violation("trap-exception", dict(tags, exc=type(e).__name__), rc, {"integrate raised": repr(e)[:300]})
        else:
            ctx.count("malformed_integrate_" + type(e).__name__)
            return ok
    # linear exactness with boundary points or the modified basis (one interior point: only if it is centred)
    interior = n - 2
    if len(coords) == 0:
        pass
    elif bd or (md and (interior >= 2 or (interior == 1 and ptsq[1] * 2 == ptsq[0] + ptsq[-1]))):
        for k in (0, 1):
            m = sum((w * c ** k for w, c in zip(W, coords)), F(0))
            mscale = float(b - a) * max(1.0, abs(float(a)), abs(float(b))) ** k
            mterms = float(sum((abs(w * c ** k) for w, c in zip(W, coords)), F(0))) + 1e11 * canc * sum(abs(float(c)) ** k for c in coords)
            if not close(m, moment(ptsq[0], ptsq[-1], k), TOL, mscale, mterms):
                ok = False
                ctx.violation("trap-linear-exact", dict(tags, degree=k), rc, {"moment": float(m), "exact": float(moment(ptsq[0], ptsq[-1], k))})
            iv = scalar(g.integrate(Mono([k]), [0], [float(a)], [float(b)])) if spans else moment(a, b, k)
            if not close(iv, moment(a, b, k), TOL, mscale, mterms):
                ok = False
                ctx.violation("trap-linear-exact", dict(tags, degree=k, via="integrate"), rc, {"integrate": iv, "exact": float(moment(a, b, k))})
    elif md:
        ctx.count("mod3_offcentre_single_interior_point")   # no one-point rule is exact for degree 1 there (theorem modTrap_three)
        if not close(sum(W, F(0)), b - a, TOL, float(b - a), sum((abs(w) for w in W), F(0))):
            ok = False
            ctx.violation("trap-linear-exact", dict(tags, degree=0), rc, {"sum": float(sum(W, F(0)))})
    if not md and any(w < 0 for w in W):
        ok = False
        ctx.violation("trap-nonneg", tags, rc, {"weights": iw})
    # level independence: same points, other level list
    try:
        g2 = GlobalTrapezoidalGrid([float(a)], [float(b)], boundary=bd, modified_basis=md)
        g2.set_grid([list(ptsf)], [list(case["levels2"])])
        if [float(x) for x in g2.weights[0]] != iw or [float(x) for x in g2.coordinate_array[0]] != ic:
            ok = False
            ctx.violation("trap-level-dependence", tags, rc, {"weights": iw, "weights_other_levels": [float(x) for x in g2.weights[0]]})
        mo = parse_setgrid(drv.ask("setgrid %d %d %s %s %s %s" % (bd, md, frac_str(a), frac_str(b), fvec(ptsq), ivec(case["levels2"]))))
        if mo[0] == "err" or mo[1] != mw:
            corr("level-independence(model)", "", str(mo)[:200])
    except Exception as e:
        ok = False
        ctx.violation("trap-level-dependence", dict(tags, exc=type(e).__name__), rc, {"raised": repr(e)[:300]})
    return ok


def run_trap2d(ctx, drv, case, grid=None, report=None):
    """dim >= 2 (non-cubic boxes, a different grid per dimension): tensor weights in `itertools.product` order, products of
    linear monomials, both integrators, evaluation points"""
    import itertools
    import numpy as np
    from sparseSpACE.Grid import GlobalTrapezoidalGrid
    from sparseSpACE.Integrator import IntegratorArbitraryGrid
    Table, Mono = make_functions()
    rc = report if report is not None else case
    bd, md = bool(case["boundary"]), bool(case["modified"])
    dims = case["dims"]
    D = len(dims)
    a = [F(d["a"]) for d in dims]
    b = [F(d["b"]) for d in dims]
    ptsf = [[float(F(x)) for x in d["pts"]] for d in dims]
    lv = [list(d["levels"]) for d in dims]
    tags = {"family": "trapezoid", "boundary": bd, "modified": md, "dim": D}
    af, bf = [float(x) for x in a], [float(x) for x in b]
    ok = True
    try:
        g = grid if grid is not None else GlobalTrapezoidalGrid(af, bf, boundary=bd, modified_basis=md)
        g.set_grid([list(p) for p in ptsf], [list(l) for l in lv])
        pw = g.get_points_and_weights()
        P = [tuple(float(c) for c in p) for p in pw[0]]
        Wt = [float(w) for w in pw[1]]
    except Exception as e:
        ctx.violation("trap-exception", dict(tags, exc=type(e).__name__), rc, {"raised": repr(e)[:300]})
        return False
    mods = []
    for d in range(D):
        m = parse_setgrid(drv.ask("setgrid %d %d %s %s %s %s" % (bd, md, frac_str(a[d]), frac_str(b[d]), fvec([F(x) for x in ptsf[d]]), ivec(lv[d]))))
        if m[0] == "err":
            ctx.corr_break("C09/tensor-model-error", rc, {"model": m})
            return False
        mods.append(m)
    mp = [tuple(float(x) for x in t) for t in itertools.product(*[m[0] for m in mods])]
    mw = mods[0][1]
    for d in range(1, D):
        mw = parse_list(drv.ask("tensor %s %s" % (fvec(mw), fvec(mods[d][1]))))     # Model `tensor` = get_weights(), iterated
    scale = 1.0
    for d in range(D):
        scale *= float(b[d] - a[d])
    # rounding allowance of the coded 4-point formula of the modified basis (see run_trap), carried through the products
    canc = 0.0
    if md:
        for d in range(D):
            q = [F(x) for x in ptsf[d]]
            if len(q) == 4 and q[2] != q[1]:
                cd = 4e-16 * (float(a[d] * a[d] + b[d] * b[d]) + 2 * abs(float(q[1])) * (abs(float(a[d])) + abs(float(b[d])))) / abs(float(q[2] - q[1]))
                for e in range(D):
                    if e != d:
                        cd *= max([1.0] + [abs(float(w)) for w in mods[e][1]])
                canc += cd
    if P != mp or len(Wt) != len(mw) or any(not close(Wt[k], mw[k], TOL, scale) and abs(Wt[k] - float(mw[k])) > canc for k in range(len(mw))):
        ok = False
        ctx.corr_break("C09/tensor-points-weights", rc, {"impl": str(list(zip(P, Wt)))[:300], "model": str(list(zip(mp, [float(x) for x in mw])))[:300]})
    if len(P) and (bd or (md and min(len(p) for p in ptsf) >= 4)):
        for ks in itertools.product((0, 1), repeat=D):
            f = Mono(list(ks), af)                                   # products of (x_d - a_d)^k_d
            iv = scalar(g.integrate(f, [0] * D, af, bf))
            ex = F(1)
            for d in range(D):
                ex *= moment(F(0), b[d] - a[d], ks[d])
            sc = scale * max(1.0, *[float(b[d] - a[d]) for d in range(D)]) ** D
            terms = (sum(abs(w) for w in Wt) + 1e11 * canc * len(Wt)) * sc / scale
            if not close(iv, ex, TOL, sc, terms):
                ok = False
                ctx.violation("trap-linear-exact", dict(tags, degree=sum(ks)), rc, {"integrate": iv, "exact": float(ex), "monomial": list(ks)})
            if sum(ks) == D:
                if f.seen != set(P):
                    ok = False
                    ctx.violation("trap-evaluation-points", tags, rc, {"evaluated": sorted(f.seen)[:8], "returned": P[:8]})
                iv2 = scalar(IntegratorArbitraryGrid(g)(Mono(list(ks), af), g.levelToNumPoints([0] * D), af, bf))
                if not close(iv2, iv, TOL, sc, terms):
                    ok = False
                    ctx.violation("trap-integrator-route", tags, rc, {"IntegratorArbitraryGridScalarProduct": iv, "IntegratorArbitraryGrid": iv2})
    return ok


# ------------------------------------------------------------------------------------------------ other families
def lagrange_required_level(p):
    """hierarchical Lagrange basis of level l has l+2 knots, i.e. degree min(l+1, p): degree p from level p-1 on"""
    return max(1, p - 1)


def bspline_required_level(p):
    """the code's own switch `l < log2(p+1)`: not-a-knot B-splines of degree p exist from level ceil(log2(p+1))"""
    return max(1, int(math.ceil(math.log2(p + 1))))


def bspline_mod_regime(weighted, L, p):
    """where the modified hierarchical B-spline basis reproduces linear functions (dyadic tree, complete level 2,
    p <= 3; non-dyadic only for p = 3)"""
    if L < 2:
        return "level2-incomplete"
    if p >= 5:
        return "p>=5"
    if weighted and p == 1:
        return "nondyadic-p1"
    return "regular"


def family_tol(fam, p, weighted, maxlevel):
    """1e-9, except where the n x n hierarchisation solve is ill conditioned: B-splines of order >= 5 on non-dyadic trees deeper than
    level 6 (neighbouring cells differing by factors up to 4^7); measured rounding there reaches 6e-8, elsewhere <= 2e-12"""
    if fam == "bspline" and p >= 5 and weighted and maxlevel >= 7:
        return 1e-6
    return TOL_HIER


def run_family(ctx, case, grid=None, report=None, bufs=None):
    """families without exact model: oracle only"""
    import itertools
    import numpy as np
    from sparseSpACE import Grid as G
    Table, Mono = make_functions()
    fam, p = case["family"], int(case.get("p", 0))
    bd, md = bool(case["boundary"]), bool(case["modified"])
    dims = case["dims"]
    dim = len(dims)
    a = [F(d["a"]) for d in dims]
    b = [F(d["b"]) for d in dims]
    ptsf = [[float(F(x)) for x in d["pts"]] for d in dims]
    lv = [list(d["levels"]) for d in dims]
    L = min(complete_level(l) for l in lv)
    weighted = bool(case.get("weighted"))
    tags = {"family": fam, "p": p, "boundary": bd, "modified": md, "dim": dim}
    nnls_opt, split_opt = bool(case.get("do_nnls", 0)), bool(case.get("split_up", 1))     # GlobalHighOrderGrid options
    if fam == "highorder" and (nnls_opt or not split_opt):
        tags["do_nnls"], tags["split_up"] = nnls_opt, split_opt
    af, bf = [float(x) for x in a], [float(x) for x in b]
    ok = True
    rc = report if report is not None else case
    if grid is not None:
        tags["reused_object"] = True

    def viol(probe, t, detail):
        # GlobalHighOrderGrid with the modified basis fails in several ways (exceptions, garbage values): one probe id
        if fam == "highorder" and md:
            t = dict(t, kind=probe)
            probe = "highorder-modified"
        ctx.violation(probe, t, rc, detail)

    try:
        if grid is not None:
            g = grid
        elif fam == "highorder":
            g = G.GlobalHighOrderGrid(af, bf, boundary=bd, modified_basis=md, do_nnls=nnls_opt, split_up=split_opt)
        elif fam == "lagrange":
            g = G.GlobalLagrangeGrid(af, bf, boundary=bd, modified_basis=md, p=p)
        elif fam == "bspline":
            g = G.GlobalBSplineGrid(af, bf, boundary=bd, modified_basis=md, p=p)
        elif fam == "simpson":
            g = G.GlobalSimpsonGrid(af, bf, boundary=bd, modified_basis=md)
        else:
            raise ValueError(fam)
        if bufs is not None and dim == 1:
            bufs["pts"][:] = ptsf[0]                 # the caller's own list objects, overwritten between the calls of a history
            bufs["lv"][:] = lv[0]
            arg_p, arg_l = [bufs["pts"]], [bufs["lv"]]
        else:
            arg_p, arg_l = [list(x) for x in ptsf], [list(x) for x in lv]
        g.set_grid(arg_p, arg_l)
        if [list(x) for x in arg_p] != ptsf or [list(x) for x in arg_l] != lv:
            ok = False
            viol("family-argument-modified", tags, {"points_after": str(arg_p)[:200], "levels_after": str(arg_l)[:200]})
        maxdeg = 1
        if fam == "lagrange" and L >= lagrange_required_level(p):
            maxdeg = p
        if fam == "bspline" and not md and L >= bspline_required_level(p):
            maxdeg = p
        if fam == "highorder" and dim == 1:
            # the degree the code itself claims for the weights it returns
            w0, d0 = g.get_1D_weights_and_order(list(ptsf[0]), af[0], bf[0], list(lv[0]))
            if split_opt and len(ptsf[0]) > 1 and (len(ptsf[0]) > 3 or bd):       # the condition of compute_1D_quad_weights
                w1, d1 = g.recursive_splitting3(list(ptsf[0]), af[0], bf[0], d0, list(lv[0]))
            else:
                w1, d1 = w0, d0
            w1 = list(w1) if bd else list(w1)[1:-1]
            if [float(x) for x in w1] != [float(x) for x in g.weights[0]]:
                ok = False
                viol("family-weights-observable", tags, {"recursive_splitting3": [float(x) for x in w1], "weights": [float(x) for x in g.weights[0]]})
            maxdeg = max(1, min(int(d1), 7))
            ctx.count("highorder%s%s_claimed_degree_%d" % ("_nnls" if nnls_opt else "", "" if split_opt else "_nosplit", maxdeg))
            if case.get("uniform") and bd and not md and not nnls_opt:
                # 'enough points' for the moment-matching rule (max_degree = 5): a uniform complete tree reaches
                # degree 2 with 3 points and the full order 5 with >= 5 points
                need = 2 if len(ptsf[0]) == 3 else 5
                maxdeg = max(maxdeg, need)        # exactness itself is tested below, for every degree <= maxdeg
            if any(float(x) < 0 for x in g.weights[0]):
                ok = False
                viol("family-nonneg", tags, {"weights": [float(x) for x in g.weights[0]]})
        levelvec = [max(l) for l in lv]
        tolh = family_tol(fam, p, weighted, max(levelvec))
        worst = None
        for k in range(maxdeg + 1):
            monos = [[k]] if dim == 1 else ([[k] + list(t) for t in itertools.product((0, 1), repeat=dim - 1)] if k <= 1 else [])
            for ks in monos:
                far = any(is_far(a[d], b[d]) for d in range(dim))
                sh = [a[d] if far else F(0) for d in range(dim)]      # exactness for degree <= p is translation invariant
                iv = scalar(g.integrate(Mono(ks, [float(x) for x in sh]), levelvec, af, bf))
                ex = F(1)
                for d in range(dim):
                    ex *= moment(a[d] - sh[d], b[d] - sh[d], ks[d])
                vol = 1.0
                for d in range(dim):
                    vol *= float(b[d] - a[d])
                sc = vol * max(1.0, *[abs(float(x - sh[d])) for d in range(dim) for x in (a[d], b[d])]) ** sum(ks)
                rel = abs(iv - float(ex)) / max(1.0, abs(float(ex)), sc)
                key = "max_rel_err_%s%s" % (fam, "_weighted" if weighted else "")
                if rel <= tolh and rel > ctx.extra.get(key, 0.0):
                    ctx.extra[key] = rel
                if not close(iv, ex, tolh, sc):
                    worst = (ks, iv, float(ex))
                    deg = sum(ks)
                    if deg <= 1:
                        probe = "family-linear-exact"
                        t = dict(tags, degree=deg)
                        if fam == "bspline" and md:
                            t["regime"] = bspline_mod_regime(weighted, L, p)
                    else:
                        probe = "family-order-exact"
                        t = dict(tags, degree=deg, complete_level=L)
                    ok = False
                    viol(probe, t, {"monomial": ks, "integrate": iv, "exact": float(ex), "complete_level": L})
                    break
            if worst:
                break
        ctx.count("family_%s_exact_to_%d" % (fam, maxdeg))
        if not worst and fam in ("highorder", "lagrange", "bspline"):
            # use site + repeated queries: the integrand is evaluated at the returned points (boundary on: all of them), the same
            # query gives the same answer again after other queries, and no query changes the stored weights / points
            stored = [[float(x) for x in g.weights[d]] for d in range(dim)], [[float(x) for x in g.coordinate_array[d]] for d in range(dim)]
            f1 = Mono([1] * dim, [float(a[d]) for d in range(dim)])
            r1 = scalar(g.integrate(f1, levelvec, af, bf))
            pts_ret = set(tuple(float(c) for c in pt) for pt in g.getPoints())
            gw = np.array(g.get_weights(), dtype=float)
            gw_copy = gw.copy()
            gw[:] = -7.0
            r0 = scalar(g.integrate(Mono([0] * dim), levelvec, af, bf))
            r2 = scalar(g.integrate(Mono([1] * dim, [float(a[d]) for d in range(dim)]), levelvec, af, bf))
            gw2 = np.array(g.get_weights(), dtype=float)
            stored2 = [[float(x) for x in g.weights[d]] for d in range(dim)], [[float(x) for x in g.coordinate_array[d]] for d in range(dim)]
            plist = [tuple(float(c) for c in pt) for pt in g.getPoints()]
            needed = set(pt for pt, w in zip(plist, gw_copy) if w != 0.0) if fam == "highorder" else pts_ret     # zero-weight points may be skipped
            if not (needed <= f1.seen <= pts_ret):
                ok = False
                viol("family-evaluation-points", tags, {"evaluated": sorted(f1.seen)[:10], "returned": sorted(pts_ret)[:10]})
            if r1 != r2 or list(gw_copy) != list(gw2) or stored != stored2:
                ok = False
                viol("family-repeated-query", tags, {"integrate_first": r1, "integrate_again": r2, "between": r0,
                                                     "get_weights": [list(gw_copy)[:8], list(gw2)[:8]], "stored_changed": stored != stored2})
        if grid is not None and not worst and dim == 1 and fam in ("highorder", "lagrange", "bspline"):
            # the re-used object against a fresh one on the same grid: weights and the integral of a non-polynomial table function
            if fam == "highorder":
                g2 = G.GlobalHighOrderGrid(af, bf, boundary=bd, modified_basis=md, do_nnls=nnls_opt, split_up=split_opt)
            elif fam == "lagrange":
                g2 = G.GlobalLagrangeGrid(af, bf, boundary=bd, modified_basis=md, p=p)
            else:
                g2 = G.GlobalBSplineGrid(af, bf, boundary=bd, modified_basis=md, p=p)
            g2.set_grid([list(x) for x in ptsf], [list(x) for x in lv])
            w1 = [float(x) for x in g.weights[0]]
            w2 = [float(x) for x in g2.weights[0]]
            tabv = {float(c): float(((7 * i) % 11) - 5) / 4.0 for i, c in enumerate(g.coordinate_array[0])}
            i1 = scalar(g.integrate(Table([tabv]), levelvec, af, bf))
            i2 = scalar(g2.integrate(Table([tabv]), levelvec, af, bf))
            vol = float(b[0] - a[0])
            if w1 != w2 or not close(i1, i2, tolh, 4.0 * vol):
                ok = False
                viol("family-reused-vs-fresh", tags, {"weights_reused": w1[:12], "weights_fresh": w2[:12], "integrate_reused": i1, "integrate_fresh": i2})
    except Exception as e:
        if fam == "simpson":
            ctx.count("simpson_observed_" + type(e).__name__)   # outside the anchored families: recorded only
            return True
        ok = False
        viol("family-exception", dict(tags, exc=type(e).__name__), {"raised": repr(e)[:300]})
    return ok


# ------------------------------------------------------------------------------------------------ case generation
def case_dim(rng, n, weighted, grade, maxdepth, dom=None):
    a, b = dom if dom else pick_domain(rng)
    pts, lv = gen_tree(rng, a, b, n, weighted, grade, maxdepth)
    return {"a": frac_str(a), "b": frac_str(b), "pts": [frac_str(x) for x in pts], "levels": lv}


def gen_trap_case(rng, thorough):
    weighted = rng.random() < 0.4
    n = rng.choice([3, 3, 4, 4, 5, 5, 6, 6, 7, 8, 9]) if rng.random() < 0.55 else rng.randint(3, 40)
    grade = rng.choice([0.0, 0.3, 0.7, 0.95])
    d = case_dim(rng, n, weighted, grade, 20 if weighted else 30)
    n = len(d["pts"])
    bd, md = rng.choice([(1, 0), (0, 0), (0, 1), (0, 1)])
    vals = [frac_str(F(rng.randint(-16, 16), rng.choice([1, 2, 4, 8]))) for _ in range(n)]
    lv2 = [rng.randint(0, 9) for _ in range(n)]
    return dict(d, kind="trap", boundary=bd, modified=md, vals=vals, levels2=lv2, weighted=int(weighted), wellformed=1)


def gen_malformed(rng):
    k = rng.randrange(8)
    a, b = rng.choice(DOMAINS)
    n = rng.randint(3, 8)
    pts, lv = gen_tree(rng, a, b, n, rng.random() < 0.3, 0.5, 12)
    bd, md = rng.choice([(1, 0), (0, 0), (0, 1)])
    what = "ok"
    if k == 0:                      # unsorted
        i = rng.randrange(len(pts) - 1)
        pts[i], pts[i + 1] = pts[i + 1], pts[i]
        what = "unsorted"
    elif k == 1:                    # level list of another length
        lv = lv[:-1] if rng.random() < 0.5 else lv + [1]
        what = "level-length"
    elif k == 2:                    # fewer than three points
        m = rng.choice([0, 1, 2])
        pts, lv = ([a, b][:m] if m < 2 else [a, b]), [0] * m
        what = "short-%d" % m
    elif k == 3:                    # duplicated point
        i = rng.randrange(len(pts) - 1)
        pts[i + 1] = pts[i]
        what = "duplicate"
    elif k == 4:                    # both flags
        bd, md = 1, 1
        what = "both-flags"
    elif k == 5:                    # grid does not reach the domain ends
        a = a - rng.choice([F(1, 2), F(1), F(0)])
        b = b + rng.choice([F(1, 4), F(0), F(2)])
        what = "domain-mismatch"
    elif k == 6:                    # duplicated point next to the boundary (denominators of the modified basis)
        if len(pts) >= 4:
            pts[2] = pts[1]
        what = "duplicate-near-boundary"
    else:
        if len(pts) >= 5:
            pts[-3] = pts[-2]
        what = "duplicate-near-right-boundary"
    n = len(pts)
    return {"kind": "trap", "a": frac_str(a), "b": frac_str(b), "pts": [frac_str(x) for x in pts], "levels": lv,
            "boundary": bd, "modified": md, "vals": [frac_str(F(rng.randint(-8, 8), 2)) for _ in range(n)],
            "levels2": [rng.randint(0, 5) for _ in range(len(lv))], "weighted": 0, "wellformed": 0, "malformed": what}


FAMILY_CONFIGS = (
    [("highorder", 0, 1, 0)] * 4 + [("highorder", 0, 0, 1)]
    + [("lagrange", p, 1, 0) for p in (1, 2, 2, 3, 3, 5)] + [("lagrange", 2, 0, 1)]
    + [("bspline", p, 1, 0) for p in (1, 3, 3, 5, 7, 7, 9)] + [("bspline", p, 0, 1) for p in (1, 3, 3, 5)]
    + [("simpson", 0, 1, 0)]
)


def gen_family_case(rng, thorough):
    fam, p, bd, md = rng.choice(FAMILY_CONFIGS)
    weighted = rng.random() < 0.3
    if fam == "highorder" and bd and rng.random() < 0.3:
        dom = pick_domain(rng)
        L = rng.randint(1, 5)
        n0 = 2 ** L + 1
        lv = [0] * n0
        for l in range(1, L + 1):
            off = 2 ** (L - l)
            for j in range(off, n0, 2 * off):
                lv[j] = l
        pts = [dom[0] + (dom[1] - dom[0]) * F(i, n0 - 1) for i in range(n0)]
        return {"kind": "family", "family": fam, "p": 0, "boundary": 1, "modified": 0, "weighted": 0, "uniform": 1,
                "do_nnls": int(rng.random() < 0.3), "split_up": int(rng.random() < 0.7),
                "dims": [{"a": frac_str(dom[0]), "b": frac_str(dom[1]), "pts": [frac_str(x) for x in pts], "levels": lv}]}
    dim = 2 if (rng.random() < 0.12 and fam in ("lagrange", "highorder", "bspline") and not md) else 1
    if dim == 2 and p <= 3 and rng.random() < 0.3:
        dim = 3                                   # non-cubic boxes in three dimensions: every dimension draws its own interval and tree
    dims = []
    for d in range(dim):
        high = fam == "bspline" and p >= 7 and not md
        if rng.random() < (0.8 if high else 0.45):
            # complete down to some level, then graded
            L = rng.choice([1, 2, 2, 3, 3, 4] if dim == 1 else [1, 2, 2])
            if high and dim == 1:
                L = bspline_required_level(p)          # 3 for p = 7, 4 for p = 9: the order clause applies
            dom = pick_domain(rng)
            n0 = 2 ** L + 1
            pts = [dom[0] + (dom[1] - dom[0]) * F(i, n0 - 1) for i in range(n0)]
            lv = [0] * n0
            for l in range(1, L + 1):
                off = 2 ** (L - l)
                for j in range(off, n0, 2 * off):
                    lv[j] = l
            if weighted:
                # the same tree shape with weighted midpoints
                pts, lv = weighted_full(rng, dom[0], dom[1], L)
            extra = rng.randint(0, (4 if high else 8) if dim == 1 else 2)
            pl = list(zip(pts, lv))
            for _ in range(extra):
                cells = list(range(len(pl) - 1))
                depth = [max(pl[i][1], pl[i + 1][1]) for i in cells]
                m = max(depth)
                i = rng.choice([k for k in cells if depth[k] == m]) if rng.random() < 0.6 else rng.choice(cells)
                if depth[i] + 1 > 9:
                    continue
                t = rng.choice(RATIOS) if weighted else F(1, 2)
                pl.insert(i + 1, (pl[i][0] + t * (pl[i + 1][0] - pl[i][0]), depth[i] + 1))
            dims.append({"a": frac_str(dom[0]), "b": frac_str(dom[1]), "pts": [frac_str(x) for x, _ in pl], "levels": [l for _, l in pl]})
        else:
            n = rng.randint(3, 24 if dim == 1 else 6)
            if dim == 1 and fam in ("lagrange", "bspline") and not md and rng.random() < 0.2:
                n = rng.choice([13, 14, 15, 16])          # both sides of `numPoints[d] >= 15` (solve vs QR) in HierarchizationLSG
            dom = pick_domain(rng)
            grade, maxdepth = rng.choice([0.0, 0.3, 0.7]), 9
            if is_far(dom[0], dom[1]) and dim == 1:
                # far from the origin: strongly graded trees of depth 7-10 (the spacing falls below |x| * 1e-5)
                n, grade, maxdepth = rng.randint(9, 20), rng.choice([0.9, 0.97]), 10
            if fam == "bspline" and p >= 5:
                n = min(n, 16)
            dims.append(case_dim(rng, n, weighted, grade, maxdepth, dom=dom))
    case = {"kind": "family", "family": fam, "p": p, "boundary": bd, "modified": md, "weighted": int(weighted), "dims": dims}
    if fam == "highorder":
        case["do_nnls"], case["split_up"] = int(rng.random() < 0.4), int(rng.random() < 0.7)
    return case


def weighted_full(rng, a, b, L):
    pl = [(a, 0), (b, 0)]
    for l in range(1, L + 1):
        new = []
        for i in range(len(pl) - 1):
            new.append(pl[i])
            t = rng.choice(RATIOS)
            new.append((pl[i][0] + t * (pl[i + 1][0] - pl[i][0]), l))
        new.append(pl[-1])
        pl = new
    return [x for x, _ in pl], [l for _, l in pl]


def gen_order(rng, n, grade, maxdepth):
    """split order of a refinement tree (which cell is split, in sequence) -- the SHAPE of the tree, i.e. its level labels"""
    lv = [0, 0]
    order = []
    guard = 0
    while len(lv) < n and guard < 10 * n:
        guard += 1
        cells = list(range(len(lv) - 1))
        depth = [max(lv[i], lv[i + 1]) for i in cells]
        cand = [k for k in cells if depth[k] + 1 <= maxdepth]
        if not cand:
            break
        if rng.random() < grade:
            m = max(depth[k] for k in cand)
            i = rng.choice([k for k in cand if depth[k] == m])
        else:
            i = rng.choice(cand)
        order.append(i)
        lv.insert(i + 1, depth[i] + 1)
    return order


def build_from_order(rng, a, b, order, weighted):
    """the tree with the given split order; weighted: every split at its own random ratio (same level labels, other points)"""
    pts = [(a, 0), (b, 0)]
    for i in order:
        t = rng.choice(RATIOS) if weighted else F(1, 2)
        l = max(pts[i][1], pts[i + 1][1]) + 1
        pts.insert(i + 1, (pts[i][0] + t * (pts[i + 1][0] - pts[i][0]), l))
    return [p for p, _ in pts], [l for _, l in pts]


def gen_order_directed(rng, n, side, maxdepth):
    """split order with exactly n points (if the depth allows), graded towards a (side 'L'), towards b ('R') or undirected ('M')"""
    lv = [0, 0]
    order = []
    guard = 0
    while len(lv) < n and guard < 20 * n:
        guard += 1
        cells = list(range(len(lv) - 1))
        depth = [max(lv[i], lv[i + 1]) for i in cells]
        cand = [k for k in cells if depth[k] + 1 <= maxdepth]
        if not cand:
            break
        r = rng.random()
        if side == "L" and r < 0.6:
            i = cand[0]
        elif side == "R" and r < 0.6:
            i = cand[-1]
        else:
            i = rng.choice(cand)
        order.append(i)
        lv.insert(i + 1, depth[i] + 1)
    return order


def gen_history_equal_size(rng, thorough):
    """hierarchical families: ONE grid object, successive refinement trees with the SAME number (15-33) of points but different
    shapes (graded towards a, towards b, other split weights), then the first tree again -- whatever the object or its
    hierarchisation remembers per point count / per dimension must not leak from one tree into the next"""
    fam, p = rng.choice([("lagrange", 1), ("lagrange", 2), ("lagrange", 3), ("bspline", 1), ("bspline", 3), ("highorder", 0)])
    dom = pick_domain(rng)
    n = rng.randint(15, 33 if fam != "bspline" else 25)
    sides = ["L", "R", "M"]
    rng.shuffle(sides)
    trees = []
    for side in sides:
        order = gen_order_directed(rng, n, side, 10)
        weighted = (side == "M")
        trees.append((side + ("-weighted" if weighted else "-dyadic"), build_from_order(rng, dom[0], dom[1], order, weighted=weighted)))
    trees.append(("first-tree-again", trees[0][1]))
    steps = []
    for name, (pts, lv) in trees:
        steps.append({"step": "equal-size-" + name,
                      "dims": [{"a": frac_str(dom[0]), "b": frac_str(dom[1]), "pts": [frac_str(x) for x in pts], "levels": lv}]})
    return {"kind": "history", "family": fam, "p": p, "boundary": 1, "modified": 0, "dim": 1, "equal_size": n,
            "do_nnls": int(fam == "highorder" and rng.random() < 0.4), "split_up": int(fam != "highorder" or rng.random() < 0.7),
            "a": frac_str(dom[0]), "b": frac_str(dom[1]), "steps": steps}


def gen_history(rng, thorough):
    """ONE grid object, several set_grid calls: same levels with different points (shared split order, other ratios), same points
    with different levels, different trees; the library re-uses its grid object in exactly this way for all component grids"""
    r = rng.random()
    if r < 0.7:
        fam, p, bd, md = ("trapezoid", 0) + rng.choice([(1, 0), (1, 0), (0, 0), (0, 1)])
    else:
        fam, p, bd, md = rng.choice([("highorder", 0, 1, 0), ("lagrange", 1, 1, 0), ("lagrange", 2, 1, 0), ("lagrange", 3, 1, 0),
                                     ("bspline", 1, 1, 0), ("bspline", 3, 1, 0)])
    dim = 2 if (fam == "trapezoid" and rng.random() < 0.2) else 1
    dom = pick_domain(rng)
    nmax = 14 if fam == "trapezoid" else 9
    steps = []
    order = gen_order(rng, rng.randint(3, nmax), rng.choice([0.0, 0.5, 0.9]), 9)
    prev = None
    for k in range(rng.randint(3, 6)):
        kind = rng.choice(["same-shape", "same-shape", "same-points-new-levels", "fresh", "dyadic-shape"]) if k > 0 else "fresh"
        if kind == "fresh":
            order = gen_order(rng, rng.randint(3, nmax), rng.choice([0.0, 0.5, 0.9]), 9)
        dims = []
        for d in range(dim):
            if kind == "same-points-new-levels" and prev is not None and fam == "trapezoid":
                pts = [F(x) for x in prev[d]["pts"]]
                lv = [rng.randint(0, 6) for _ in pts]
            else:
                pts, lv = build_from_order(rng, dom[0], dom[1], order, weighted=(kind != "dyadic-shape"))
            n = len(pts)
            dims.append({"a": frac_str(dom[0]), "b": frac_str(dom[1]), "pts": [frac_str(x) for x in pts], "levels": lv,
                         "vals": [frac_str(F(rng.randint(-16, 16), rng.choice([1, 2, 4]))) for _ in range(n)],
                         "levels2": [rng.randint(0, 9) for _ in range(n)]})
        prev = dims
        steps.append({"step": kind, "dims": dims})
    return {"kind": "history", "family": fam, "p": p, "boundary": bd, "modified": md, "dim": dim,
            "do_nnls": int(fam == "highorder" and rng.random() < 0.4), "split_up": int(fam != "highorder" or rng.random() < 0.7),
            "a": frac_str(dom[0]), "b": frac_str(dom[1]), "steps": steps}


def run_history(ctx, drv, case):
    """every step runs the full single-grid check (model correspondence for the trapezoid, oracle clauses for all families) on
    the SAME object; a replay stores the whole history"""
    from sparseSpACE import Grid as G
    fam, p, dim = case["family"], int(case["p"]), int(case["dim"])
    bd, md = bool(case["boundary"]), bool(case["modified"])
    a, b = float(F(case["a"])), float(F(case["b"]))
    try:
        if fam == "trapezoid":
            g = G.GlobalTrapezoidalGrid([a] * dim, [b] * dim, boundary=bd, modified_basis=md)
        elif fam == "highorder":
            g = G.GlobalHighOrderGrid([a] * dim, [b] * dim, boundary=bd, modified_basis=md,
                                      do_nnls=bool(case.get("do_nnls", 0)), split_up=bool(case.get("split_up", 1)))
        elif fam == "lagrange":
            g = G.GlobalLagrangeGrid([a] * dim, [b] * dim, boundary=bd, modified_basis=md, p=p)
        else:
            g = G.GlobalBSplineGrid([a] * dim, [b] * dim, boundary=bd, modified_basis=md, p=p)
    except Exception as e:
        ctx.violation("family-exception", {"family": fam, "modified": md, "boundary": bd, "exc": type(e).__name__}, case, {"constructor": repr(e)[:200]})
        return False
    ok = True
    bufs = {"pts": [], "lv": []}
    for k, st in enumerate(case["steps"]):
        ctx.count("history_step_" + st["step"])
        if fam == "trapezoid" and dim == 1:
            d = st["dims"][0]
            sub = dict(d, kind="trap", boundary=int(bd), modified=int(md), weighted=1, wellformed=1)
            good = run_trap(ctx, drv, sub, grid=g, report=dict(case, failed_step=k), bufs=bufs)
        elif fam == "trapezoid":
            sub = {"kind": "trap2d", "boundary": int(bd), "modified": int(md), "dims": st["dims"]}
            good = run_trap2d(ctx, drv, sub, grid=g, report=dict(case, failed_step=k))
        else:
            sub = {"kind": "family", "family": fam, "p": p, "boundary": int(bd), "modified": int(md), "weighted": int(st["step"] != "dyadic-shape"),
                   "dims": st["dims"], "do_nnls": case.get("do_nnls", 0), "split_up": case.get("split_up", 1)}
            good = run_family(ctx, sub, grid=g, report=dict(case, failed_step=k), bufs=bufs)
        if not good:
            ok = False
            break
        if k % 2 == 1 and (bd or md) and all(len(d["pts"]) >= 3 for d in st["dims"]):
            # a rarely used public hook of the Grid interface (a no-op for these families) in the middle of the sequence
            try:
                Table, Mono = make_functions()
                sh = [a] * dim
                before = scalar(g.integrate(Mono([1] * dim, sh), [0] * dim, [a] * dim, [b] * dim))
                g.initialize_grid()
                after = scalar(g.integrate(Mono([1] * dim, sh), [0] * dim, [a] * dim, [b] * dim))
                if before != after:
                    ok = False
                    ctx.violation("toggle-initialize_grid", {"family": fam, "modified": md, "boundary": bd}, dict(case, failed_step=k), {"before": before, "after": after})
                    break
            except Exception as e:
                ok = False
                ctx.violation("toggle-initialize_grid", {"family": fam, "modified": md, "boundary": bd, "exc": type(e).__name__}, dict(case, failed_step=k), {"raised": repr(e)[:200]})
                break
    return ok


def make_grid(G, spec, a, b):
    fam = spec["family"]
    if fam == "trapezoid":
        return G.GlobalTrapezoidalGrid([a], [b], boundary=bool(spec["boundary"]), modified_basis=bool(spec["modified"]))
    if fam == "highorder":
        return G.GlobalHighOrderGrid([a], [b], boundary=True, do_nnls=bool(spec.get("do_nnls", 0)), split_up=bool(spec.get("split_up", 1)))
    if fam == "lagrange":
        return G.GlobalLagrangeGrid([a], [b], boundary=True, p=int(spec["p"]))
    return G.GlobalBSplineGrid([a], [b], boundary=True, p=int(spec["p"]))


def gen_siblings(rng, thorough):
    """2-3 grid objects of different families / options alive at once on the same interval; they are handed grids with EQUAL keys
    (same level labels, same size) but different points in an interleaved order; each is re-observed after the others worked"""
    dom = pick_domain(rng, 0.1)
    specs = []
    for _ in range(rng.choice([2, 2, 3])):
        r = rng.random()
        if r < 0.55:
            bd, md = rng.choice([(1, 0), (0, 0), (0, 1)])
            specs.append({"family": "trapezoid", "p": 0, "boundary": bd, "modified": md})
        else:
            fam, p = rng.choice([("highorder", 0), ("lagrange", 1), ("lagrange", 2), ("bspline", 1), ("bspline", 3)])
            specs.append({"family": fam, "p": p, "boundary": 1, "modified": 0, "do_nnls": int(rng.random() < 0.3), "split_up": int(rng.random() < 0.7)})
    order = gen_order(rng, rng.randint(4, 10), rng.choice([0.0, 0.5, 0.9]), 8)
    steps = []
    for k in range(rng.randint(3, 6)):
        if rng.random() < 0.25:
            order = gen_order(rng, rng.randint(4, 10), rng.choice([0.0, 0.5, 0.9]), 8)
        pts, lv = build_from_order(rng, dom[0], dom[1], order, weighted=rng.random() < 0.8)
        n = len(pts)
        steps.append({"object": rng.randrange(len(specs)) if k >= len(specs) else k,
                      "dims": [{"a": frac_str(dom[0]), "b": frac_str(dom[1]), "pts": [frac_str(x) for x in pts], "levels": lv,
                                "vals": [frac_str(F(rng.randint(-16, 16), rng.choice([1, 2, 4]))) for _ in range(n)],
                                "levels2": [rng.randint(0, 9) for _ in range(n)]}]})
    return {"kind": "siblings", "a": frac_str(dom[0]), "b": frac_str(dom[1]), "objects": specs, "steps": steps}


def run_siblings(ctx, drv, case):
    import numpy as np
    from sparseSpACE import Grid as G
    Table, Mono = make_functions()
    a, b = float(F(case["a"])), float(F(case["b"]))
    specs = case["objects"]
    try:
        objs = [make_grid(G, sp, a, b) for sp in specs]
    except Exception as e:
        ctx.violation("family-exception", {"family": "siblings", "exc": type(e).__name__}, case, {"constructor": repr(e)[:200]})
        return False
    snap = [None] * len(objs)          # (points, weights, integral of x - a) as observed right after the object's own last step

    def observe(g):
        w = [float(x) for x in g.weights[0]]
        c = [float(x) for x in g.coordinate_array[0]]
        return c, w, scalar(g.integrate(Mono([1], [a]), [0], [a], [b]))

    ok = True
    for k, st in enumerate(case["steps"]):
        i = st["object"]
        sp = specs[i]
        rc = dict(case, failed_step=k)
        d = st["dims"][0]
        if sp["family"] == "trapezoid":
            sub = dict(d, kind="trap", boundary=int(sp["boundary"]), modified=int(sp["modified"]), weighted=1, wellformed=1)
            good = run_trap(ctx, drv, sub, grid=objs[i], report=rc)
        else:
            sub = {"kind": "family", "family": sp["family"], "p": sp["p"], "boundary": 1, "modified": 0, "weighted": 1, "dims": [d],
                   "do_nnls": sp.get("do_nnls", 0), "split_up": sp.get("split_up", 1)}
            good = run_family(ctx, sub, grid=objs[i], report=rc)
        if not good:
            return False
        try:
            snap[i] = observe(objs[i])
            for j in range(len(objs)):            # the siblings must still answer what they answered before this object worked
                if j != i and snap[j] is not None:
                    now = observe(objs[j])
                    if now != snap[j]:
                        ok = False
                        ctx.violation("sibling-interference", {"family": specs[j]["family"], "other": sp["family"], "modified": bool(specs[j].get("modified"))}, rc,
                                      {"object": j, "after_object": i, "before": str(snap[j])[:300], "now": str(now)[:300]})
                        return False
        except Exception as e:
            ctx.violation("family-exception", {"family": "siblings", "exc": type(e).__name__}, rc, {"re-observation": repr(e)[:200]})
            return False
    return ok


def gen_trap2d(rng):
    bd, md = rng.choice([(1, 0), (0, 0), (0, 1)])
    dom = pick_domain(rng)
    farmod = bool(md) and is_far(dom[0], dom[1])     # modified 4-point formula far from 0: dyadic points only (exact doubles)
    if rng.random() < 0.4 and not farmod:
        # both dimensions on the same interval with the same level labels (shared split order) but different points
        order = gen_order(rng, rng.randint(3, 7), 0.5, 10)
        dims = []
        for _ in range(2):
            pts, lv = build_from_order(rng, dom[0], dom[1], order, weighted=True)
            dims.append({"a": frac_str(dom[0]), "b": frac_str(dom[1]), "pts": [frac_str(x) for x in pts], "levels": lv})
        return {"kind": "trap2d", "boundary": bd, "modified": md, "dims": dims, "shared_shape": 1}
    dims = [case_dim(rng, rng.randint(3, 7), rng.random() < 0.3 and not farmod, 0.5, 10, dom=(dom if k == 0 or farmod else None)) for k in range(2)]
    if md:
        dims = [d if not is_far(F(d["a"]), F(d["b"])) or all(F(x).denominator & (F(x).denominator - 1) == 0 for x in d["pts"])
                else case_dim(rng, len(d["pts"]), False, 0.5, 10, dom=(F(d["a"]), F(d["b"]))) for d in dims]
    return {"kind": "trap2d", "boundary": bd, "modified": md, "dims": dims}


def gen_trap_nd(rng):
    """dim 3 (sometimes 2): a different interval and a different number of points in every dimension; with the modified basis
    3- and 4-point grids in the later dimensions (their weights are built from a[d], b[d])"""
    bd, md = rng.choice([(1, 0), (0, 0), (0, 1), (0, 1)])
    D = rng.choice([3, 3, 2])
    doms = rng.sample(DOMAINS + FAR_DOMAINS[:3], D)
    sizes = rng.sample([3, 4, 5, 6], D)
    dims = [case_dim(rng, sizes[d], False, 0.5, 8, dom=doms[d]) for d in range(D)]
    return {"kind": "trap2d", "boundary": bd, "modified": md, "dims": dims, "nd": D}


def deep_graded_cases():
    """deterministic: a chain of m midpoint splits right next to the first / last interior point"""
    out = []
    for m in (12, 24, 30):
        left = [F(0), F(1, 2)] + [F(1, 2) + F(1, 2 ** k) for k in range(m, 1, -1)] + [F(1)]
        llv = [0, 1] + list(range(m, 1, -1)) + [0]
        right = [F(0)] + [F(1, 2) - F(1, 2 ** k) for k in range(2, m + 1)] + [F(1, 2), F(1)]
        rlv = [0] + list(range(2, m + 1)) + [1, 0]
        for pts, lv in ((left, llv), (right, rlv)):
            n = len(pts)
            out.append({"kind": "trap", "a": "0", "b": "1", "pts": [frac_str(x) for x in pts], "levels": lv, "boundary": 0, "modified": 1,
                        "vals": [frac_str(F((7 * i) % 11 - 5, 4)) for i in range(n)], "levels2": [0] * n, "weighted": 0, "wellformed": 1,
                        "deep": m})
    return out


def run_case(ctx, drv, case):
    k = case["kind"]
    if k == "trap":
        return run_trap(ctx, drv, case)
    if k == "trap2d":
        return run_trap2d(ctx, drv, case)
    if k == "history":
        return run_history(ctx, drv, case)
    if k == "siblings":
        return run_siblings(ctx, drv, case)
    return run_family(ctx, case)


def run(ctx):
    thorough = ctx.tier == "thorough"
    ctx.rule = ("random refinement trees on 8 dyadic domains (midpoint splits and weighted-midpoint splits with ratios 1/4..3/4, 3-40 points, "
                "grading 0..0.95, levels = tree depth, end points level 0) x (boundary, modified_basis) flags; 1-D trapezoid cases are compared "
                "with the Lean model (coordinates, levels, weights, raw compute_weights vector, error kind, integrate of a random value table) "
                "and checked against the property clauses computed independently in Fractions; 8% malformed inputs (unsorted, wrong level "
                "length, < 3 points, duplicates, both flags, domain mismatch); 2-D tensor cases; high-order / Lagrange / B-spline families "
                "(Lagrange p in 1,2,3,5; B-spline p in 1,3,5,7,9 with trees complete to level ceil(log2(p+1)); GlobalHighOrderGrid with do_nnls on/off "
                "and split_up on/off) are checked by the oracle only (constants, linear, degree p when the tree is complete to the required level); "
                "object histories: ONE grid object re-used for 3-6 set_grid calls (same level labels with different points via a shared split "
                "order with other ratios, same points with other levels, other trees; also 2-D grids whose two dimensions share interval and "
                "level labels), every step checked like a single case (model, fresh object, plIntegral, linear exactness) for all families; "
                "equal-size histories for the hierarchical / high-order families: 15-33 points, three trees of the SAME size graded towards a, "
                "towards b, undirected with other split weights, then the first tree again, each step against exact moments and a fresh object. "
                "A case is distinct by its full input; non-trivial if it has >= 4 points or is malformed")
    ctx.assumptions.append("GlobalHighOrderGrid / GlobalLagrangeGrid / GlobalBSplineGrid: no exact Lean model; validated by the oracle at %g" % TOL_HIER)
    ctx.assumptions.append("'enough points' for order p: tree complete to level max(1,p-1) (Lagrange: basis of level l has degree min(l+1,p)) resp. ceil(log2(p+1)) (B-spline: the code's own switch)")
    drv = ctx.driver("drv_c09")
    import globaltrap_gen, sys
    globaltrap_gen.run(ctx, drv, sys.modules[__name__])      # translator tie of compute_weights (see globaltrap_gen.py)
    rng = ctx.rng
    n_trap = 2500 if not thorough else 40000
    n_fam = 700 if not thorough else 12000
    n_2d = 160 if not thorough else 2000
    n_hist = 400 if not thorough else 5000
    budget = 95 if not thorough else 540
    for case in deep_graded_cases():
        run_case(ctx, drv, case)
        ctx.count("deep_graded_m%d" % case["deep"])
        ctx.case(case, nontrivial=True)
    n_sib = 200 if not thorough else 2500
    plan = ["trap"] * n_trap + ["family"] * n_fam + ["trap2d"] * n_2d + ["history"] * n_hist + ["siblings"] * n_sib
    rng.shuffle(plan)
    for idx, kind in enumerate(plan):
        if ctx.time_left(budget) < 0:
            ctx.count("stopped_by_budget")
            break
        if kind == "trap":
            case = gen_malformed(rng) if rng.random() < 0.08 else gen_trap_case(rng, thorough)
        elif kind == "trap2d":
            case = gen_trap_nd(rng) if rng.random() < 0.35 else gen_trap2d(rng)
        elif kind == "history":
            case = gen_history_equal_size(rng, thorough) if rng.random() < 0.12 else gen_history(rng, thorough)
        elif kind == "siblings":
            case = gen_siblings(rng, thorough)
        else:
            case = gen_family_case(rng, thorough)
        try:
            ok = run_case(ctx, drv, case)
        except Exception as e:
            import traceback
            tb = traceback.extract_tb(e.__traceback__)
            if any("/sparseSpACE/" in fr.filename for fr in tb):
                # raised inside the implementation on a generated input: a violation with a replayable case
                where = [fr for fr in tb if "/sparseSpACE/" in fr.filename][-1]
                ctx.violation("impl-exception", {"kind": case.get("kind"), "family": case.get("family", "trapezoid"), "modified": bool(case.get("modified")),
                                                 "exc": type(e).__name__}, case,
                              {"raised": repr(e)[:200], "at": "%s:%d %s" % (where.filename.split("/sparseSpACE/")[-1], where.lineno, where.name)})
            else:                # harness problem: never silently skip
                ctx.corr_break("C09/harness-exception", case, traceback.format_exc()[-1500:])
            ok = False
        if kind == "trap":
            ctx.count("trap_b%d_m%d" % (case["boundary"], case["modified"]))
            ctx.count("trap_n_%s" % (len(case["pts"]) if len(case["pts"]) <= 6 else ("7-15" if len(case["pts"]) <= 15 else "16-40")))
            if case.get("malformed"):
                ctx.count("malformed_" + case["malformed"])
            nontrivial = len(case["pts"]) >= 4 or bool(case.get("malformed"))
        elif kind == "trap2d":
            ctx.count("trap2d_shared_shape" if case.get("shared_shape") else ("trap_nd_dim%d_noncubic" % case["nd"] if case.get("nd") else "trap2d"))
            nontrivial = True
        elif kind == "siblings":
            ctx.count("siblings_%d_objects" % len(case["objects"]))
            nontrivial = True
        elif kind == "history":
            ctx.count("history_%s_b%d_m%d_dim%d%s" % (case["family"], case["boundary"], case["modified"], case["dim"], "_equal_size" if case.get("equal_size") else ""))
            nontrivial = True
        else:
            ctx.count("family_%s_p%s_b%d_m%d" % (case["family"], case["p"], case["boundary"], case["modified"]))
            nontrivial = True
        ctx.case(case, nontrivial=nontrivial, sample=case if idx < 3 else None)
        if not ok and (len(ctx.violations) + len(ctx.corr_breaks)) >= 25:
            break


def replay(ctx, rp):
    case = rp["case"]
    drv = ctx.driver("drv_c09")
    ok = run_case(ctx, drv, case)
    print("replay: %s" % ("property holds and model agrees on this case" if ok and not ctx.known_hits else
                          ("REPRODUCED" if not ok and (ctx.violations or ctx.corr_breaks) else "known finding reproduced")))
    for v in ctx.violations[:3]:
        print("  violation:", v["probe"], v["tags"], v["detail"])
    for c in ctx.corr_breaks[:3]:
        print("  disagreement:", c["observable"], c["detail"])
    for fid, (f, n) in ctx.known_hits.items():
        print("  known finding:", fid, f["what"])
    for d in ctx._drivers:
        d.close()
    return 0 if not (ctx.violations or ctx.corr_breaks) else 1
