"""C15 -- the weighted UQ quadrature is a probability measure; moments transform correctly.

Correspondence (model = lean/SparseSpace/Model/UQ.lean through drv_c15):
  * `GlobalTrapezoidalGridWeighted.set_grid(...).weights` on random refinement-tree grids (points produced by
    the implementation's own `get_mid_point`), with the interval moments m0, m1 read from the implementation's
    distribution objects and fed to `computeWeights`; every split through `middleWeighted` (cdf/ppf values recorded
    from the implementation's calls); `_prepare_distributions` (which object a dimension uses) against `reuseIdx`;
    the closed-form uniform moments and the unweighted trapezoidal rule; the static `get_middle_weighted` with
    synthetic cdf/ppf (fallback branches);
  * `calculate_expectation_and_variance` after a short dimension-wise run on ONE vector-valued model
    (f, c f + e, k), f also steep / narrowly peaked and k up to 1e6 so that the raw E[f^2] - E[f]^2 of the combined
    rule is substantially negative: the combined weights against `tensorW`/`combineW`, E and Var against `calcExpVar`;
  * the static `moments_to_expectation_variance` on synthetic moment vectors against `momentsToExpVar`.
Oracle (independent of the model, scipy reference distributions): weights >= 0, sum 1, uniform = trapezoid/(b-a),
midpoint strictly inside and probability-halving, affine laws of E and Var, Var >= 0, constant model.
"""
import contextlib
import io
import math
from fractions import Fraction

from common import frac_str

INF = float("inf")

# ----------------------------------------------------------------------------------------- reference distributions


class Ref:
    """scipy / closed-form reference of the DECLARED distribution of one dimension (independent of the
    implementation's distribution objects)"""

    def __init__(self, spec, a, b):
        import scipy.stats as sps
        self.spec, self.a, self.b = spec, a, b
        fam = spec[0]
        if fam == "Uniform":
            self.d = sps.uniform(loc=a, scale=b - a)
        elif fam == "Triangle":
            self.d = sps.triang(c=(spec[1] - a) / (b - a), loc=a, scale=b - a)
        else:
            self.d = sps.norm(loc=spec[1], scale=spec[2])

    def cdf(self, x):
        return float(self.d.cdf(x))

    def m0(self, x1, x2):
        return self.cdf(x2) - self.cdf(x1)

    def _prim_shifted(self, x):
        """antiderivative of (x - shift)*pdf(x), shift = a (bounded families) resp. mu (Normal): well conditioned
        for boxes far from the origin"""
        fam = self.spec[0]
        a, b = self.a, self.b
        if fam == "Uniform":
            t = min(max(x, a), b) - a
            return t * t / (2 * (b - a))
        if fam == "Triangle":
            c = self.spec[1]
            x = min(max(x, a), b)
            L, lc = b - a, c - a
            t = x - a
            if x <= c:
                return 2.0 * t ** 3 / (3.0 * L * lc)
            # on [c, b]: pdf = 2 (b - x) / (L (b - c));  (x - a) = L - u with u = b - x
            u, uc = b - x, b - c
            prim = lambda w: (L * w * w / 2 - w ** 3 / 3) * 2.0 / (L * uc)      # ∫_0^w (L - u) 2u/(L uc) du
            return 2.0 * lc ** 3 / (3.0 * L * lc) + prim(uc) - prim(u)
        sg = self.spec[2]
        if math.isinf(x):
            return 0.0
        return -sg * sg * float(self.d.pdf(x))

    def m1(self, x1, x2):
        shift = self.spec[1] if self.spec[0] == "Normal" else self.a
        return shift * self.m0(x1, x2) + self._prim_shifted(x2) - self._prim_shifted(x1)


def trap_weights(pts):
    n = len(pts)
    w = [0.0] * n
    for i in range(n):
        if i > 0:
            w[i] += 0.5 * (pts[i] - pts[i - 1])
        if i < n - 1:
            w[i] += 0.5 * (pts[i + 1] - pts[i])
    return w


# ----------------------------------------------------------------------------------------- formatting

def fx(x):
    x = float(x)
    if math.isinf(x):
        return "-inf" if x < 0 else "inf"
    return frac_str(x)


def fvec(v):
    return ",".join(frac_str(float(x)) for x in v) if len(v) else "-"


def parse_vec(s):
    s = s.strip()
    assert s.startswith("[") and s.endswith("]"), s
    s = s[1:-1]
    return [Fraction(t) for t in s.split(",")] if s else []


def spec_str(spec):
    if spec[0] == "Uniform":
        return "U"
    if spec[0] == "Triangle":
        return "T:" + frac_str(spec[1])
    return "N:%s:%s" % (frac_str(spec[1]), frac_str(spec[2]))


def near(x, y, tol=1e-9, scale=1.0):
    return abs(float(x) - float(y)) <= tol * max(1.0, abs(float(y)), scale)


# ----------------------------------------------------------------------------------------- generators

def gen_dim_extreme(r, fam):
    """scale extremes (dyadic): boxes far from the origin (|a|/(b-a) up to 8192, both signs), tiny / huge lengths and
    standard deviations (2^-20 .. 2^20), far-off means"""
    sign = r.choice([-1.0, 1.0])
    if fam in ("Uniform", "Triangle"):
        L = 2.0 ** r.choice([-20, -10, -3, 0, 4, 10, 20])
        a = sign * r.choice([0, 3, 100, 1024, 8192]) * L
        if fam == "Uniform":
            return {"spec": ["Uniform"], "a": a, "b": a + L, "extreme": True}
        return {"spec": ["Triangle", a + L * r.randint(1, 15) / 16], "a": a, "b": a + L, "extreme": True}
    sg = 2.0 ** r.choice([-20, -10, -4, 6, 12, 20])
    mu = sign * sg * r.choice([0, 3, 100, 1024, 8192])
    if fam == "NormalInf":
        return {"spec": ["Normal", mu, sg], "a": -INF, "b": INF, "extreme": True}
    return {"spec": ["Normal", mu, sg], "a": mu - sg * r.randint(1, 12) / 2, "b": mu + sg * r.randint(1, 12) / 2, "extreme": True}


def gen_dim(r, fam=None):
    fam = fam or r.choice(["Uniform", "Triangle", "NormalInf", "NormalBox"])
    if r.random() < 0.15:
        return gen_dim_extreme(r, fam)
    if fam == "Uniform":
        a = r.randint(-8, 8) / 4
        b = a + r.randint(1, 24) / 4
        return {"spec": ["Uniform"], "a": a, "b": b}
    if fam == "Triangle":
        a = r.randint(-8, 8) / 4
        b = a + r.randint(1, 24) / 4
        return {"spec": ["Triangle", a + (b - a) * r.randint(1, 15) / 16], "a": a, "b": b}
    mu = r.randint(-8, 8) / 4
    sg = r.choice([0.125, 0.5, 1.0, 2.0, 3.5])
    if fam == "NormalInf":
        return {"spec": ["Normal", mu, sg], "a": -INF, "b": INF}
    return {"spec": ["Normal", mu, sg], "a": mu - sg * r.randint(1, 12) / 2, "b": mu + sg * r.randint(1, 12) / 2}


def gen_dims(r, ndim):
    dims = [gen_dim(r)]
    while len(dims) < ndim:
        x = r.random()
        if x < 0.3:      # same spec tuple, same domain
            dims.append(dict(dims[0]))
        elif x < 0.55:   # same spec tuple, the domain of a bounded family shifted / scaled
            d0 = dims[0]
            if d0["spec"][0] == "Uniform":
                a = d0["a"] + r.randint(-4, 4) / 4
                dims.append({"spec": ["Uniform"], "a": a, "b": a + r.randint(1, 24) / 4})
            elif d0["spec"][0] == "Triangle":
                m = d0["spec"][1]
                dims.append({"spec": list(d0["spec"]), "a": m - r.randint(1, 12) / 4, "b": m + r.randint(1, 12) / 4})
            else:
                dims.append(dict(d0))
        else:
            dims.append(gen_dim(r))
    return dims


def family_tag(dm):
    if dm["spec"][0] != "Normal":
        return dm["spec"][0]
    return "Normal"


def support_tag(dm):
    if dm["spec"][0] != "Normal":
        return "own"
    return "infinite" if math.isinf(dm["a"]) and math.isinf(dm["b"]) else "finite-box"


def shared_other_domain(dims, d):
    """dimension d reuses the distribution object of an earlier dimension that was built for another domain"""
    for j in range(d):
        if dims[j]["spec"] == dims[d]["spec"]:
            return dims[d]["spec"][0] != "Normal" and (dims[j]["a"], dims[j]["b"]) != (dims[d]["a"], dims[d]["b"])
    return False


def tags_for(dims, d, boundary):
    return {"family": family_tag(dims[d]), "support": support_tag(dims[d]), "boundary": bool(boundary),
            "shared_other_domain": shared_other_domain(dims, d)}


# ----------------------------------------------------------------------------------------- implementation set-up

def make_op(dims, f, form="list", testing=False):
    import numpy as np
    from sparseSpACE.GridOperation import UncertaintyQuantification, UncertaintyQuantificationTesting
    if testing:
        UncertaintyQuantification = UncertaintyQuantificationTesting  # noqa: N806  (public subclass: multi-solution queries)
    specs = [tuple(dm["spec"]) for dm in dims]
    if form == "single":
        distributions = specs[0]
    elif form == "str":
        distributions = specs[0][0]
    else:
        distributions = list(specs)
    a = np.array([dm["a"] for dm in dims], dtype=float)
    b = np.array([dm["b"] for dm in dims], dtype=float)
    return UncertaintyQuantification(f, distributions, a, b), a, b


class Rec:
    """records the calls of a distribution object's cdf / ppf"""

    def __init__(self, D):
        self.D = D
        self.cdf0, self.ppf0 = D.cdf, D.ppf
        self.cdf_calls, self.ppf_calls = [], []
        D.cdf = self.cdf
        D.ppf = self.ppf

    def cdf(self, x):
        v = self.cdf0(x)
        self.cdf_calls.append((float(x), float(v)))
        return v

    def ppf(self, x):
        v = self.ppf0(x)
        self.ppf_calls.append((float(x), v))
        return v

    def clear(self):
        self.cdf_calls, self.ppf_calls = [], []


def quiet():
    return contextlib.redirect_stdout(io.StringIO())


def check_prepare(ctx, drv, dims, impl_reuse, corr):
    """`_prepare_distributions`: the implementation follows the model of the code as it is (`reuseIdx`, objects
    shared by tuple) or -- once repaired -- the model of the proposed repair (`reuseIdxKeyed`)"""
    got = "[" + ",".join(str(i) for i in impl_reuse) + "]"
    r_asis = drv.ask("prep " + ";".join(spec_str(dm["spec"]) for dm in dims))
    fin = lambda x: fx(x) if not math.isinf(x) else "0"
    r_keyed = drv.ask("prepk " + ";".join("%s@%s@%s" % (spec_str(dm["spec"]), fin(dm["a"]), fin(dm["b"])) for dm in dims))
    if r_asis != r_keyed:
        ctx.count("prepare_variant_" + ("shared-by-tuple" if got == r_asis else "domain-keyed" if got == r_keyed else "neither"))
    if got not in (r_asis, r_keyed):
        corr("prepare-reuse", impl_reuse, {"reuseIdx": r_asis, "reuseIdxKeyed": r_keyed})


# ----------------------------------------------------------------------------------------- case kind 1: trees

def run_tree_case(ctx, drv, case):
    """case = {kind:'tree', dims:[{spec,a,b}], boundary, form, splits:[[interval index,..] per dim]}"""
    import numpy as np
    from sparseSpACE.Grid import GlobalTrapezoidalGridWeighted, GlobalTrapezoidalGrid
    from sparseSpACE.Function import FunctionCustom
    dims, boundary = case["dims"], case["boundary"]
    ndim = len(dims)
    ok = True

    def corr(obs, impl, model):
        nonlocal ok
        ok = False
        ctx.corr_break("C15/" + obs, case, {"impl": str(impl)[:400], "model": str(model)[:400]})

    def viol(probe, d, detail):
        nonlocal ok
        tags = tags_for(dims, d, boundary)
        tags["dim_index"] = d
        if ctx.violation(probe, tags, case, detail):
            ok = False

    f = FunctionCustom(lambda x: [0.0], output_dim=1)
    op, a, b = make_op(dims, f, case.get("form", "list"))
    grid = GlobalTrapezoidalGridWeighted(a, b, op, boundary=boundary)
    # ---- which distribution object a dimension uses
    impl_reuse = [min(j for j in range(d + 1) if op.distributions[j] is op.distributions[d]) for d in range(ndim)]
    check_prepare(ctx, drv, dims, impl_reuse, corr)
    recs = {}
    for d in range(ndim):
        D = op.distributions[d]
        if id(D) not in recs:
            recs[id(D)] = Rec(D)
    refs = [Ref(dm["spec"], dm["a"], dm["b"]) for dm in dims]
    # ---- the refinement tree of every dimension, built with the implementation's midpoint
    pts_all = []
    for d in range(ndim):
        rec = recs[id(op.distributions[d])]
        pts = [float(a[d]), float(b[d])]
        if case.get("single_point") and d == 0:
            pts = [float(a[d]) if not math.isinf(a[d]) else 0.0]
        for i in case["splits"][d]:
            if len(pts) < 2:
                break
            i = i % (len(pts) - 1)
            x1, x2 = pts[i], pts[i + 1]
            rec.clear()
            out = io.StringIO()
            try:
                with contextlib.redirect_stdout(out):
                    m = grid.get_mid_point(x1, x2, d)
            except Exception as ex:  # noqa: BLE001
                viol("mid-exception", d, {"a": x1, "b": x2, "exception": repr(ex)[:300]})
                break
            if "Could not" in out.getvalue():
                ctx.count("mid_fallback_taken" + ("_shared_object" if shared_other_domain(dims, d) else ""))
            # model: same cdf / ppf values
            cvals = dict(rec.cdf_calls)
            if x1 in cvals and x2 in cvals and rec.ppf_calls:
                parg, pval = rec.ppf_calls[0]
                pval = float(pval)
                if not math.isnan(pval):
                    rm = drv.ask("mid %s %s %s %s %s" % (fx(x1), fx(x2), frac_str(cvals[x1]), frac_str(cvals[x2]), fx(pval)))
                    try:
                        _, ms, _, cms = rm.split()
                        mm = float("nan") if ms == "nan" else (float(ms) if "inf" in ms else float(Fraction(ms)))
                        good = (mm == m) or near(mm, m, 1e-12)
                        good = good and near(Fraction(cms), parg, 1e-12)
                    except Exception:  # noqa: BLE001
                        good = False
                    if not good:
                        corr("midpoint", {"mid": m, "ppf_arg": parg}, rm)
            else:
                corr("midpoint-calls", {"cdf": rec.cdf_calls[:4], "ppf": rec.ppf_calls[:2]}, "cdf(a), cdf(b), ppf(0.5*(cdf(a)+cdf(b)))")
            # oracle: strictly inside, equal probability (reference cdf of the declared distribution)
            if not (x1 < m < x2):
                viol("mid-inside", d, {"a": x1, "b": x2, "mid": m})
                break
            ca, cm, cb = refs[d].cdf(x1), refs[d].cdf(m), refs[d].cdf(x2)
            if abs((cm - ca) - (cb - cm)) > 1e-6:
                explained = False
                if shared_other_domain(dims, d):
                    j = impl_reuse[d]
                    re = Ref(dims[j]["spec"], dims[j]["a"], dims[j]["b"])
                    explained = abs((re.cdf(m) - re.cdf(x1)) - (re.cdf(x2) - re.cdf(m))) <= 1e-6
                viol("shared-distribution-object" if explained else "mid-halves", d,
                     {"clause": "midpoint splits the probability equally", "a": x1, "b": x2, "mid": m,
                      "P_left": cm - ca, "P_right": cb - cm})
            pts.insert(i + 1, float(m))
            ctx.count("splits")
        pts_all.append(pts)
    # ---- weights
    levels = [[0] * len(p) for p in pts_all]
    exc = None
    out = io.StringIO()
    try:
        with contextlib.redirect_stdout(out):
            grid.set_grid(pts_all, levels)
    except AssertionError as ex:
        exc = "err neg" if "negative weight" in str(ex) else "err shape"
    except Exception as ex:  # noqa: BLE001
        exc = "exception " + repr(ex)[:200]
    info = []
    for d in range(ndim):
        pts = pts_all[d]
        n = len(pts)
        D = op.distributions[d]
        m0s, m1s = [], []
        with quiet():
            for i in range(n - 1):
                m0s.append(float(D.get_zeroth_moment(pts[i], pts[i + 1])))
                m1s.append(float(D.get_first_moment(pts[i], pts[i + 1])))
        segs = ";".join("%s:%s:%s" % (fx(pts[i + 1]), frac_str(m0s[i]), frac_str(m1s[i])) for i in range(n - 1)) or "-"
        rm = drv.ask("w %s %s %s" % ("B" if boundary else "N", fx(pts[0]), segs))
        # bracketing hypothesis of w_nonneg on the implementation's own moments; a failure is an unmet assumption
        # only while the first moment is as accurate as quad(epsrel=1e-2) promises (else the moments are simply wrong)
        bracket, m1_within_quad_tolerance = True, True
        jr = impl_reuse[d]
        refd = Ref(dims[jr]["spec"], dims[jr]["a"], dims[jr]["b"])
        for i in range(n - 1):
            if math.isinf(pts[i]) or math.isinf(pts[i + 1]):
                bracket = bracket and m0s[i] >= 0      # the first moment of an infinite end interval is never used
                continue
            bracket = bracket and pts[i] * m0s[i] <= m1s[i] <= pts[i + 1] * m0s[i]
            r1 = refd.m1(pts[i], pts[i + 1])
            sc = max(abs(r1), max(abs(pts[i]), abs(pts[i + 1])) * abs(m0s[i]))
            if abs(m1s[i] - r1) > 1e-2 * sc + 1e-12:
                m1_within_quad_tolerance = False
        if not bracket:
            ctx.count("assumption_unmet_bracketing" + ("_shared_object" if shared_other_domain(dims, d) else ""))
        # is a deviation in this dimension attributed to the distribution object of another domain (finding 2)?  yes iff
        # the tuple is shared with an earlier dimension of a different domain AND the object demonstrably is that other
        # distribution: all its zeroth moments (exact cdf differences) are those of the other domain's distribution.
        # (The first moments cannot be used: quad is inexact where the foreign pdf jumps inside an interval.)
        explained_shared = False
        if shared_other_domain(dims, d) and n >= 2 and impl_reuse[d] != d:
            j = impl_reuse[d]
            reff = Ref(dims[j]["spec"], dims[j]["a"], dims[j]["b"])
            explained_shared = all(abs(m0s[i] - reff.m0(pts[i], pts[i + 1])) <= 1e-9 for i in range(n - 1))
        info.append((m0s, m1s, rm, bracket, bracket or not m1_within_quad_tolerance, explained_shared))
    if exc is not None:
        ctx.count("impl_" + exc.split(" ")[0] + "_" + exc.split(" ")[1][:8])
        merr = [(d, info[d][2]) for d in range(ndim) if info[d][2].startswith("err")]
        # correspondence: the model fails in the same way (first failing dimension)
        if not exc.startswith("exception") and (not merr or merr[0][1] != exc):
            corr("weights-error-kind", exc, [x[2] for x in info])
        # oracle (independent of the model): the property promises weights for every refinement-tree grid
        dsh = [d for d in range(ndim) if info[d][5]]
        if exc.startswith("exception"):
            viol("weights-exception", 0, {"exception": exc, "points": pts_all})
        elif exc == "err neg":
            if dsh:
                viol("shared-distribution-object", dsh[0], {"clause": "weights are non-negative", "points": pts_all[dsh[0]],
                                                           "exception": "AssertionError: calculated negative weight"})
            elif all(x[4] for x in info):
                viol("weights-exception", merr[0][0] if merr else 0,
                     {"exception": "AssertionError: calculated negative weight", "points": pts_all})
            else:
                ctx.count("assumption_unmet_negative_weight_assert")
        elif not any((not boundary) and len(p) == 2 for p in pts_all):
            viol("weights-exception", 0, {"exception": "AssertionError (shape)", "points": pts_all})
        return ok
    for d in range(ndim):
        pts = pts_all[d]
        n = len(pts)
        m0s, m1s, rm, bracket, strict, explained_shared = info[d]
        wi = [float(x) for x in grid.weights[d]]
        if rm == "err zerodiv":
            # numpy: 1.0 / 0.0 -> inf with a RuntimeWarning, the weights become nan
            if all(math.isfinite(x) for x in wi):
                corr("weights", wi, rm)
            viol("shared-distribution-object" if explained_shared else "weights-nonfinite", d,
                 {"clause": "weights sum to 1", "points": pts, "weights": wi})
            continue
        if not rm.startswith("ok "):
            corr("weights", wi, rm)
            continue
        wm = [float(x) for x in parse_vec(rm[3:])]
        wm_obs = wm if boundary or n == 1 else wm[1:-1]
        if len(wm_obs) != len(wi) or any(not near(x, y, 1e-9) for x, y in zip(wm_obs, wi)):
            corr("weights", wi, wm_obs)
        # model ops that carry hypotheses of the theorems: uniform moments, trapezoid
        fin = not (math.isinf(pts[0]) or math.isinf(pts[-1]))
        if dims[d]["spec"][0] == "Uniform" and n >= 2:
            j = impl_reuse[d]
            for i in range(n - 1):
                ru = drv.ask("unimom %s %s %s %s" % (fx(dims[j]["a"]), fx(dims[j]["b"]), fx(pts[i]), fx(pts[i + 1])))
                # quad makes one Gauss-Kronrod pass: m1 is inexact where the pdf jumps inside the interval
                straddles = (pts[i] < dims[j]["a"] < pts[i + 1]) or (pts[i] < dims[j]["b"] < pts[i + 1])
                if straddles:
                    ctx.count("uniform_m1_interval_straddles_support_end")
                try:
                    u0, u1 = [float(Fraction(t)) for t in ru.split()]
                    good = near(u0, m0s[i], 1e-9) and (straddles or near(u1, m1s[i], 1e-9))
                except Exception:  # noqa: BLE001
                    good = False
                if not good:
                    corr("uniform-moments", (m0s[i], m1s[i]), ru)
                    break
        tw = trap_weights(pts) if fin else None
        if fin and n >= 2:
            rt = drv.ask("trap " + fvec(pts))
            ti = [float(x) for x in GlobalTrapezoidalGrid.compute_weights(pts, pts[0], pts[-1], False)]
            if len(parse_vec(rt)) != n or any(not near(x, y, 1e-12) for x, y in zip(parse_vec(rt), ti)):
                corr("trapezoid", ti, rt)
        # ---- oracle
        if n == 1:
            if wi != [1.0]:
                viol("weights-sum", d, {"weights": wi})
            continue
        s = sum(wi)
        mass = refs[d].m0(pts[0], pts[-1])
        detail = {"points": pts, "weights": wi, "sum": s}
        # bracketing unmet on the float moments (cdf differences of intervals of width ~1e-9 cancel): the code clips
        # the slightly negative weights, which moves the sum by the clipped amount (w_sum speaks of the UNclipped weights)
        clipped = 0.0
        if not strict and n >= 2:
            segs_ = ";".join("%s:%s:%s" % (fx(pts[i + 1]), frac_str(m0s[i]), frac_str(m1s[i])) for i in range(n - 1))
            clipped = float(sum(-x for x in parse_vec(drv.ask("raw %s %s" % (fx(pts[0]), segs_))) if x < 0))
            if clipped > 0:
                ctx.count("assumption_unmet_clipped_mass")
        tol_s = 1e-9 + 2 * clipped
        bad_clause = None
        if min(wi) < -1e-12:
            if strict:
                bad_clause = ("weights-nonneg", "weights are non-negative")
            else:
                ctx.count("assumption_unmet_negative_weight")
        if bad_clause is None and abs(s - 1.0) > tol_s:
            bad_clause = ("weights-sum", "weights sum to 1")
        if bad_clause is None and dims[d]["spec"][0] == "Uniform" and fin:
            L = dims[d]["b"] - dims[d]["a"]
            if boundary:
                want = [x / L for x in tw]
            else:
                si = sum(tw[1:-1])
                want = [x / si for x in tw[1:-1]]
            far = max(abs(pts[0]), abs(pts[-1])) / L          # cancellation in m1 - m0*x1: eps * |x| / (b - a)
            if any(abs(x - y) > 1e-12 + 4e-15 * far + 2 * clipped for x, y in zip(want, wi)):
                bad_clause = ("uniform-trap", "uniform: weights = trapezoidal weights / (b-a)")
                detail["trapezoid_over_length"] = want
        if bad_clause is not None:
            probe = bad_clause[0]
            if explained_shared:
                probe = "shared-distribution-object"
            elif bad_clause[0] == "weights-sum" and boundary and abs(s - mass) <= tol_s and abs(mass - 1.0) > tol_s \
                    and min(wi) >= -1e-12:
                probe = "mass-not-one"
                detail["mass_of_box"] = mass
            detail["clause"] = bad_clause[1]
            viol(probe, d, detail)
    return ok


def gen_tree_case(ctx):
    r = ctx.rng
    thorough = ctx.tier == "thorough"
    ndim = r.choice([1, 1, 2, 2, 3] if not thorough else [1, 2, 2, 3, 4])
    dims = gen_dims(r, ndim)
    boundary = r.random() < 0.5
    form = "list"
    if all(dm["spec"] == dims[0]["spec"] for dm in dims) and r.random() < 0.4:
        form = "str" if dims[0]["spec"] == ["Uniform"] and r.random() < 0.5 else "single"
    splits = []
    for d in range(ndim):
        n = r.randint(3, 30 if ndim <= 2 else 14)
        if r.random() < 0.06:
            n = r.choice([2, 3, 4])
        mode = r.random()
        dm = dims[d]
        if dm["spec"][0] == "Normal" and math.isinf(dm["b"]) and not dm.get("extreme") and dm["spec"][2] <= 1.0 and r.random() < 0.12:
            # deep into the upper tail: after ~53 one-sided splits the cdf saturates (ppf returns inf, fallbacks);
            # |end point| stays < 16 so that the fallback's 1e-14 is representable
            n, mode = r.randint(56, 66), 0.99
            splits.append([k for k in range(n - 2)])
            continue
        sp = []
        for k in range(n - 2):
            if mode < 0.5:
                sp.append(r.randrange(k + 1))           # uniform over the current intervals
            elif mode < 0.75:
                sp.append(0 if r.random() < 0.7 else r.randrange(k + 1))   # graded towards the left end / tail
            else:
                sp.append(k if r.random() < 0.7 else r.randrange(k + 1))   # graded towards the right end / tail
        splits.append(sp)
    case = {"kind": "tree", "dims": dims, "boundary": boundary, "form": form, "splits": splits}
    if boundary and r.random() < 0.02:
        case["single_point"] = True
    return case


# ----------------------------------------------------------------------------------------- case kind 2: synthetic midpoint

def run_synth_mid(ctx, drv, case):
    """static get_middle_weighted with synthetic cdf / ppf: the fallback branches"""
    from sparseSpACE.Grid import GlobalTrapezoidalGridWeighted
    a, b, ca, cb, p = case["a"], case["b"], case["ca"], case["cb"], case["p"]
    ok = True
    with quiet():
        try:
            m = GlobalTrapezoidalGridWeighted.get_middle_weighted(a, b, lambda x: ca if x == a else cb, lambda c: p)
        except Exception as ex:  # noqa: BLE001
            ctx.violation("mid-exception", {"synthetic": True}, case, {"exception": repr(ex)[:300]})
            return False
    rm = drv.ask("mid %s %s %s %s %s" % (fx(a), fx(b), frac_str(ca), frac_str(cb), fx(p)))
    try:
        _, ms, _, cms = rm.split()
        if ms == "nan":
            good = math.isnan(m)
        elif "inf" in ms:
            good = m == float(ms)
        else:
            good = abs(float(Fraction(ms)) - m) <= 1.5 * math.ulp(m)
    except Exception:  # noqa: BLE001
        good = False
    if not good:
        ok = False
        ctx.corr_break("C15/midpoint-synthetic", case, {"impl": m, "model": rm})
    # theorem mid_inside, evaluated on the implementation
    if a < b and not (math.isinf(a) and math.isinf(b)) and not (a < m < b):
        ok = False
        ctx.violation("mid-inside", {"synthetic": True}, case, {"a": a, "b": b, "mid": m})
    ctx.count("synth_" + ("ppf_inside" if a < p < b else "ppf_outside"))
    return ok


def gen_synth_mid(ctx):
    r = ctx.rng
    def coord():
        x = r.random()
        if x < 0.2:
            return -INF
        if x < 0.4:
            return INF
        return r.randint(-32, 32) / 4
    a, b = coord(), coord()
    if r.random() < 0.85 and not a < b:
        a, b = (b, a) if b < a else (a, b)
    ca = r.randint(0, 16) / 16
    cb = r.randint(0, 16) / 16
    k = r.random()
    if k < 0.4:
        p = r.randint(-40, 40) / 4
    elif k < 0.55:
        p = a
    elif k < 0.7:
        p = b
    elif k < 0.85:
        p = r.choice([-INF, INF])
    else:
        lo = a if not math.isinf(a) else -8.0
        hi = b if not math.isinf(b) else 8.0
        p = lo + (hi - lo) * r.randint(1, 15) / 16
    return {"kind": "synthmid", "a": a, "b": b, "ca": ca, "cb": cb, "p": float(p)}


# ----------------------------------------------------------------------------------------- case kind 2b: synthetic moments

class StubDistribution:
    """duck-typed distribution for the static compute_weights: arbitrary interval moments"""

    def __init__(self, table):
        self.table = table

    def get_zeroth_moment(self, x1, x2):
        return self.table[(x1, x2)][0]

    def get_first_moment(self, x1, x2):
        return self.table[(x1, x2)][1]


def run_synth_w(ctx, drv, case):
    """static compute_weights with arbitrary (dyadic) moments: isinf branches, clipping, assertion, renormalisation"""
    from sparseSpACE.Grid import GlobalTrapezoidalGridWeighted
    pts, mom, boundary = case["points"], case["moments"], case["boundary"]
    n = len(pts)
    table = {(pts[i], pts[i + 1]): tuple(mom[i]) for i in range(n - 1)}
    ok = True
    exc = None
    w = None
    with quiet():
        try:
            w = GlobalTrapezoidalGridWeighted.compute_weights(pts, pts[0], pts[-1], StubDistribution(table), boundary, False)
            w = [float(x) for x in w]
        except AssertionError as ex:
            exc = "err neg" if "negative weight" in str(ex) else "err shape"
        except Exception as ex:  # noqa: BLE001
            exc = "exception " + repr(ex)[:200]
    segs = ";".join("%s:%s:%s" % (fx(pts[i + 1]), frac_str(mom[i][0]), frac_str(mom[i][1])) for i in range(n - 1)) or "-"
    rm = drv.ask("w %s %s %s" % ("B" if boundary else "N", fx(pts[0]), segs))
    ctx.count("synthw_" + rm.split(" ")[0] + ("_" + rm.split(" ")[1] if rm.startswith("err") else ""))
    if rm == "err zerodiv":
        good = exc is None and any(not math.isfinite(x) for x in w)
    elif rm.startswith("err"):
        good = exc == rm
    elif rm.startswith("ok "):
        wm = [float(x) for x in parse_vec(rm[3:])]
        good = exc is None and len(wm) == len(w) and all(abs(x - y) <= 1e-12 * max(1.0, abs(y)) for x, y in zip(wm, w))
        if n >= 2 and any(x < 0 for x in parse_vec(drv.ask("raw %s %s" % (fx(pts[0]), segs)))):
            ctx.count("synthw_clipping_fired")
    else:
        good = False
    if not good:
        ok = False
        ctx.corr_break("C15/weights-synthetic", case, {"impl": w if exc is None else exc, "model": rm[:400]})
    # theorems weights_nonneg_always / weights_probability_noboundary evaluated on the implementation
    if exc is None and all(math.isfinite(x) for x in w):
        if min(w) < 0 or (not boundary and abs(sum(w) - 1.0) > 1e-9):
            ok = False
            ctx.violation("weights-nonneg" if min(w) < 0 else "weights-sum", {"synthetic": True, "boundary": boundary}, case,
                          {"weights": w, "sum": sum(w)})
    elif exc is not None and exc.startswith("exception"):
        ok = False
        ctx.violation("weights-exception", {"synthetic": True, "boundary": boundary}, case, {"exception": exc})
    return ok


def gen_synth_w(ctx):
    r = ctx.rng
    n = r.choice([1, 2, 3, 3, 4, 4, 5, 6, 8, 12])
    xs = sorted(r.sample(range(-64, 65), n))
    pts = [x / 8 for x in xs]
    if n >= 2 and r.random() < 0.3:
        pts[0] = -INF
    if n >= 2 and r.random() < 0.3:
        pts[-1] = INF
    mode = r.random()
    mom = []
    for i in range(n - 1):
        x1, x2 = pts[i], pts[i + 1]
        m0 = r.randint(0, 64) / 256 if r.random() < 0.9 and mode < 0.95 else 0.0
        if math.isinf(x1) or math.isinf(x2):
            m1 = r.randint(-64, 64) / 16
        else:
            t = r.randint(0, 16) / 16
            m1 = m0 * (x1 + t * (x2 - x1))                  # the mean lies in the interval
            if mode < 0.25 and r.random() < 0.4:            # slightly outside: raw weight in (-1e-5, 0)
                m1 = m0 * x1 - (x2 - x1) * r.randint(1, 5) / 2 ** 20 if r.random() < 0.5 else m0 * x2 + (x2 - x1) * r.randint(1, 5) / 2 ** 20
            elif mode < 0.35 and r.random() < 0.3:          # clearly outside: the assertion
                m1 = m0 * x2 + (x2 - x1) * r.randint(1, 8) / 2 ** 10
        mom.append([m0, m1])
    return {"kind": "synthw", "points": pts, "moments": mom, "boundary": r.random() < 0.5}


# ----------------------------------------------------------------------------------------- case kind 2c: synthetic moment vectors

def run_synth_mom(ctx, drv, case):
    """static moments_to_expectation_variance with synthetic moment vectors: v = mom2 - mom1^2 spans large negative,
    tiny negative, zero and positive values (the sign-repair branch for every magnitude)"""
    import numpy as np
    from sparseSpACE.GridOperation import UncertaintyQuantification
    m1, m2 = [float(x) for x in case["mom1"]], [float(x) for x in case["mom2"]]
    ok = True
    try:
        a1 = np.array(m1) if case["as_array"] else list(m1)
        a2 = np.array(m2) if case["as_array"] else list(m2)
        Ei, Vi = UncertaintyQuantification.moments_to_expectation_variance(a1, a2)
        Ei, Vi = [float(x) for x in Ei], [float(x) for x in Vi]
        # object history: the same argument objects are asked again; the query must not have changed them
        args_after = ([float(x) for x in a1], [float(x) for x in a2])
        Ei2, Vi2 = UncertaintyQuantification.moments_to_expectation_variance(a1, a2)
        Ei2, Vi2 = [float(x) for x in Ei2], [float(x) for x in Vi2]
    except Exception as ex:  # noqa: BLE001
        ctx.violation("moments-exception", {"synthetic": True}, case, {"exception": repr(ex)[:300]})
        return False
    if args_after != (m1, m2) or (Ei2, Vi2) != (Ei, Vi):
        ctx.violation("moments-query-not-repeatable", {"synthetic": True, "as_array": case["as_array"]}, case,
                      {"clause": "E and Var of the same moments are the same on every query; the query does not modify its arguments",
                       "arguments_after_first_query": args_after, "first": {"E": Ei, "V": Vi}, "second": {"E": Ei2, "V": Vi2}})
        return False
    rm = drv.ask("mom %s %s" % (fvec(m1), fvec(m2)))
    try:
        es, vs = rm[2:].split(" V ")
        Em, Vm = [float(x) for x in parse_vec(es)], [float(x) for x in parse_vec(vs)]
        good = len(Em) == len(Ei) and len(Vm) == len(Vi) and all(x == y for x, y in zip(Ei, Em)) and \
            all(abs(x - y) <= 1e-9 * abs(y) + 1e-300 for x, y in zip(Vi, Vm))
    except Exception:  # noqa: BLE001
        good = False
    if not good:
        ok = False
        ctx.corr_break("C15/moments-to-expectation-variance", case, {"impl": {"E": Ei, "V": Vi}, "model": rm[:400]})
    # theorem var_nonneg evaluated on the implementation; the expectation is the first moment
    raw = [Fraction(y) - Fraction(x) * Fraction(x) for x, y in zip(m1, m2)]
    for v in raw:
        ctx.count("synthmom_raw_" + ("zero" if v == 0 else "positive" if v > 0 else
                                     "negative_tiny(<1e-10)" if v > -Fraction(1, 10 ** 10) else "negative_large(>=1e-10)"))
    if any(v < 0 for v in Vi) or Ei != m1 or len(Vi) != len(m1):
        ok = False
        ctx.violation("var-negative" if any(v < 0 for v in Vi) else "moments-law", {"synthetic": True}, case,
                      {"clause": "variance is never negative", "E": Ei, "V": Vi, "raw_mom2_minus_mom1_squared": [float(v) for v in raw]})
    return ok


def gen_synth_mom(ctx):
    r = ctx.rng
    n = r.randint(1, 6)
    m1, m2 = [], []
    for _ in range(n):
        ex = r.choice([0.0, 0.0, 1.0, -1.5, 3.0, 0.125, 1000.0, -1.0e6, r.randint(-64, 64) / 8])
        v = r.choice([-1.0e3, -1.0, -1.0e-3, -1.0e-6, -1.0e-9, -1.0e-10, -3.0e-11, -1.0e-12, -1.0e-15, 0.0, 0.0,
                      1.0e-12, 1.0e-6, 0.5, 2.0, 1.0e3, -r.randint(1, 99) / 8, r.randint(1, 99) / 8,
                      -(2.0 ** -r.randint(1, 60)), 2.0 ** -r.randint(1, 60)])
        m1.append(ex)
        m2.append(ex * ex + v)
    return {"kind": "synthmom", "mom1": m1, "mom2": m2, "as_array": r.random() < 0.5}


# ----------------------------------------------------------------------------------------- case kind 2d: grid options, uniform

def run_options_case(ctx, drv, case):
    """Uniform inputs, every grid option (boundary, modified_basis) through the INSTANCE route (constructor -> set_grid /
    compute_1D_quad_weights): the weighted weights equal the weights of the UNWEIGHTED instance built with the same options,
    divided by the interval length (boundary off and plain basis: the interior weights renormalised, as proved in
    uniform_eq_trap_noboundary).  The modified basis is not modelled in Lean: oracle only."""
    import numpy as np
    from sparseSpACE.Grid import GlobalTrapezoidalGridWeighted, GlobalTrapezoidalGrid
    from sparseSpACE.Function import FunctionCustom
    dims, boundary, modified = case["dims"], case["boundary"], case["modified_basis"]
    ndim = len(dims)
    ok = True
    f = FunctionCustom(lambda x: [0.0], output_dim=1)
    op, a, b = make_op(dims, f, case.get("form", "list"))
    tags = {"family": "Uniform", "support": "own", "boundary": bool(boundary), "modified_basis": bool(modified),
            "shared_other_domain": False}
    try:
        with quiet():
            gw = GlobalTrapezoidalGridWeighted(a, b, op, boundary=boundary, modified_basis=modified)
            gu = GlobalTrapezoidalGrid(a, b, boundary=boundary, modified_basis=modified)
            pts_all = []
            for d in range(ndim):
                pts = [float(a[d]), float(b[d])]
                for i in case["splits"][d]:
                    i = i % (len(pts) - 1)
                    pts.insert(i + 1, float(gw.get_mid_point(pts[i], pts[i + 1], d)))
                pts_all.append(pts)
            levels = [[0] * len(p) for p in pts_all]
            gw.set_grid(pts_all, levels)
            gu.set_grid(pts_all, levels)
            ww = [[float(x) for x in gw.weights[d]] for d in range(ndim)]
            wu = [[float(x) for x in gu.weights[d]] for d in range(ndim)]
            w1 = [[float(x) for x in gw.compute_1D_quad_weights(pts_all[d], a[d], b[d], d, grid_levels_1D=levels[d])] for d in range(ndim)]
            u1 = [[float(x) for x in gu.compute_1D_quad_weights(pts_all[d], a[d], b[d], d, grid_levels_1D=levels[d])] for d in range(ndim)]
    except Exception as ex:  # noqa: BLE001
        ctx.violation("weights-exception", tags, case, {"exception": repr(ex)[:300]})
        return False
    ctx.count("options_boundary_%s_modified_%s" % (boundary, modified))
    for d in range(ndim):
        L = float(b[d] - a[d])
        n = len(pts_all[d])

        def expect(u, sliced):
            if boundary or modified:
                return [x / L for x in u]
            inner = u if sliced else u[1:-1]
            si = sum(inner)
            e = [x / si for x in inner]
            return e if sliced else [0.0] + e + [0.0]
        bad = None
        for name, got, want in (("set_grid(...).weights", ww[d], expect(wu[d], True)),
                                ("compute_1D_quad_weights", w1[d], expect(u1[d], False))):
            if len(got) != len(want) or any(abs(x - y) > 1e-12 for x, y in zip(got, want)):
                bad = {"clause": "uniform: weighted weights = unweighted weights of the same options / (b-a)", "route": name,
                       "dim_index": d, "points": pts_all[d], "weighted": got, "unweighted_over_length": want}
                break
        if bad is None and abs(sum(ww[d]) - 1.0) > 1e-9:
            bad = {"clause": "weights sum to 1", "dim_index": d, "points": pts_all[d], "weighted": ww[d], "sum": sum(ww[d])}
        if bad is None and not modified and min(ww[d]) < -1e-12:
            bad = {"clause": "weights are non-negative", "dim_index": d, "points": pts_all[d], "weighted": ww[d]}
        if modified and min(ww[d]) < -1e-12:
            ctx.count("options_modified_basis_has_negative_weight")   # by construction of the modified basis; not a clause
        if modified and n >= 4 and any(abs(x - y) > 1e-9 for x, y in
                                       zip(ww[d], [v / sum(trap_weights(pts_all[d])[1:-1]) for v in trap_weights(pts_all[d])[1:-1]])):
            ctx.count("options_modified_differs_from_plain")
        if bad is not None:
            ok = False
            ctx.violation("uniform-trap" if "uniform" in bad["clause"] else "weights-sum" if "sum" in bad["clause"] else "weights-nonneg",
                          tags, case, bad)
            break
    return ok


def gen_options_case(ctx):
    r = ctx.rng
    ndim = r.choice([1, 1, 2])
    dims = []
    for _ in range(ndim):
        a = r.randint(-8, 8) / 4
        dims.append({"spec": ["Uniform"], "a": a, "b": a + r.randint(1, 24) / 4})
    boundary, modified = r.choice([(True, False), (False, False), (False, True), (False, True)])
    splits = []
    for d in range(ndim):
        n = r.choice([3, 4, 4, 5, 6, 8, 12, 20]) if not boundary else r.choice([2, 3, 4, 6, 12])
        splits.append([r.randrange(k + 1) for k in range(n - 2)])
    form = r.choice(["list", "str", "single"])
    return {"kind": "options", "dims": dims, "boundary": boundary, "modified_basis": modified, "form": form, "splits": splits}


# ----------------------------------------------------------------------------------------- case kind 2e: sibling objects

def run_sibling_case(ctx, drv, case):
    """2-3 UncertaintyQuantification operations + weighted grids with DIFFERENT distributions on the SAME box and the same
    grid points (equal cache keys) alive at once; their work is interleaved (process history = case['steps']) and every
    observation is (1) checked against the configured distribution (scipy reference) and (2) identical whenever repeated.
    boundary=True: by w_sum the weights of the sub-grid [x_i..x_j] sum to cdf(x_j) - cdf(x_i) of the configured input."""
    import numpy as np
    from sparseSpACE.Grid import GlobalTrapezoidalGridWeighted
    from sparseSpACE.Function import FunctionCustom
    a, b, specs = case["a"], case["b"], case["members"]
    pts = [a, b]
    for i in case["splits"]:
        i = i % (len(pts) - 1)
        pts.insert(i + 1, 0.5 * (pts[i] + pts[i + 1]))
    refs = [Ref(sp, a, b) for sp in specs]
    members = {}
    seen = {}
    tags = {"members": "+".join(sp[0] for sp in specs), "boundary": True}

    def member(m):
        if m not in members:       # built lazily: later members are created after earlier ones have worked
            f = FunctionCustom(lambda x: [0.0], output_dim=1)
            op, aa, bb = make_op([{"spec": specs[m], "a": a, "b": b}], f, "list")
            members[m] = (op, GlobalTrapezoidalGridWeighted(aa, bb, op, boundary=True))
        return members[m]

    for idx, (m, action, arg) in enumerate(case["steps"]):
        op, grid = member(m)
        bad = None
        with quiet():
            if action == "w":
                grid.set_grid([pts], [[0] * len(pts)])
                obs = [float(x) for x in grid.weights[0]]
                mass = refs[m].m0(a, b)
                if abs(sum(obs) - mass) > 1e-9 or min(obs) < -1e-12:
                    bad = {"clause": "weights are non-negative and sum to the probability of the box under the configured input",
                           "weights": obs, "sum": sum(obs), "probability": mass}
                elif specs[m][0] == "Uniform" and any(abs(x - y / (b - a)) > 1e-12 for x, y in zip(obs, trap_weights(pts))):
                    bad = {"clause": "uniform: weights = trapezoidal weights / (b-a)", "weights": obs}
            elif action == "wsub":
                i, j = arg
                sub = pts[i:j + 1]
                obs = [float(x) for x in grid.compute_1D_quad_weights(sub, a, b, 0, grid_levels_1D=[0] * len(sub))]
                want = refs[m].m0(sub[0], sub[-1])
                if abs(sum(obs) - want) > 1e-9:
                    bad = {"clause": "weights of the sub-grid sum to its probability under the configured input",
                           "sub_grid": sub, "weights": obs, "sum": sum(obs), "probability": want}
            else:
                x1, x2 = pts[arg], pts[arg + 1]
                obs = float(grid.get_mid_point(x1, x2, 0))
                pl, pr = refs[m].cdf(obs) - refs[m].cdf(x1), refs[m].cdf(x2) - refs[m].cdf(obs)
                if not (x1 < obs < x2) or abs(pl - pr) > 1e-6:
                    bad = {"clause": "midpoint strictly inside, splits the probability of the configured input equally",
                           "a": x1, "b": x2, "mid": obs, "P_left": pl, "P_right": pr}
        key = (m, action, str(arg))
        if bad is None and key in seen and seen[key] != obs:
            bad = {"clause": "the same request to the same object gives the same answer after a sibling has worked",
                   "first": seen[key], "now": obs}
        seen.setdefault(key, obs)
        ctx.count("sibling_steps")
        if bad is not None:
            bad.update({"step_index": idx, "step": [m, action, arg], "member_spec": specs[m], "points": pts})
            ctx.violation("sibling-interference", tags, case, bad)
            return False
    return True


def gen_sibling_case(ctx):
    r = ctx.rng
    a = r.randint(-8, 8) / 4
    b = a + r.randint(2, 24) / 4
    pool = [["Uniform"], ["Triangle", a + (b - a) * r.randint(1, 7) / 16], ["Triangle", a + (b - a) * r.randint(9, 15) / 16],
            ["Normal", a + (b - a) * r.randint(0, 8) / 8, (b - a) * r.choice([0.125, 0.25, 1.0])],
            ["Normal", a + (b - a) * r.randint(0, 8) / 8, (b - a) * r.choice([0.5, 2.0])]]
    specs = r.sample(pool, r.choice([2, 2, 3]))
    n = r.randint(3, 9)
    splits = [r.randrange(k + 1) for k in range(n - 2)]
    steps = []
    for _ in range(r.randint(6, 14)):
        m = r.randrange(len(specs))
        x = r.random()
        if x < 0.4:
            steps.append([m, "w", None])
        elif x < 0.7:
            i = r.randrange(n - 1)
            steps.append([m, "wsub", [i, r.randint(i + 1, n - 1)]])
        else:
            steps.append([m, "mid", r.randrange(n - 1)])
    # every request is repeated by a sibling and later again by the first asker
    steps = steps + [[(m + 1) % len(specs), ac, ar] for m, ac, ar in steps[:4]] + [list(x) for x in steps[:4]]
    return {"kind": "sibling", "a": a, "b": b, "members": specs, "splits": splits, "steps": steps}


# ----------------------------------------------------------------------------------------- case kind 3: moments

def base_function(fid, thr, dims=None):
    if fid in (5, 6):
        # steep exponential / narrow peak in coordinates normalised to the domain (resp. to mu, sigma): on a coarse
        # refined grid the combined rule (negative weights) makes E[f^2] - E[f]^2 substantially negative
        def norm(x):
            t = []
            for v, dm in zip(x, dims):
                if math.isinf(dm["a"]) or math.isinf(dm["b"]):
                    t.append(max(-1e3, min(1e3, (v - dm["spec"][1]) / dm["spec"][2])) / 4 + 0.5)
                else:
                    t.append((v - dm["a"]) / (dm["b"] - dm["a"]))
            return t
        if fid == 5:
            return lambda x: math.exp(sum(cf * t for cf, t in zip((6.0, 2.0, 1.0), norm(x))))
        return lambda x: math.exp(-40.0 * sum((t - pk) ** 2 for t, pk in zip(norm(x), (thr, 0.75, 0.5))))
    if fid == 0:
        return lambda x: sum(math.atan(v) for v in x) + 0.5
    if fid == 1:
        def g(x):
            p = 1.0
            for v in x:
                p *= 1.0 / (1.0 + v * v)
            return p
        return g
    if fid == 2:
        return lambda x: math.exp(-sum(min(v * v, 1e300) for v in x) / 4)
    if fid == 3:
        return lambda x: sum(v * v for v in x) + x[0]
    return lambda x: (1.0 if x[0] > thr else 0.0) + 0.25 * sum(x)


def build_model(ret, g, c, e, k):
    """the model (f, c f + e, k) resp. the scalar model f as a sparseSpACE Function whose eval returns the given
    Python type (value caching of Function stays on)"""
    import numpy as np
    from sparseSpACE.Function import Function, FunctionCustom, FunctionConcatenate
    vec = lambda x: [g(x), c * g(x) + e, k]
    if ret == "list":
        return FunctionCustom(lambda x: vec(x), output_dim=3)
    if ret == "tuple":
        return FunctionCustom(lambda x: tuple(vec(x)), output_dim=3)
    if ret == "ndarray":
        return FunctionCustom(lambda x: np.array(vec(x)), output_dim=3)
    if ret == "class_ndarray":
        class Model(Function):
            def eval(self, x):
                return np.array(vec(x))

            def output_length(self):
                return 3
        return Model()
    if ret == "concat":
        return FunctionConcatenate([FunctionCustom(lambda x: g(x)), FunctionCustom(lambda x: np.array([c * g(x) + e])),
                                    FunctionCustom(lambda x: [k])])
    if ret == "s_float":
        return FunctionCustom(lambda x: float(g(x)))
    if ret == "s_npfloat":
        return FunctionCustom(lambda x: np.float64(g(x)))
    if ret == "s_list":
        return FunctionCustom(lambda x: [g(x)])
    if ret == "s_ndarray":
        return FunctionCustom(lambda x: np.array([g(x)]))
    raise ValueError(ret)


def bracket_status(D, refd, pts):
    """(bracketing hypothesis of w_nonneg holds on the implementation's own interval moments,
        every first moment is within quad's advertised 1e-2 of the closed-form reference)"""
    bracket, within = True, True
    with quiet():
        for i in range(len(pts) - 1):
            x1, x2 = pts[i], pts[i + 1]
            m0, m1 = float(D.get_zeroth_moment(x1, x2)), float(D.get_first_moment(x1, x2))
            if math.isinf(x1) or math.isinf(x2):
                bracket = bracket and m0 >= 0      # the first moment of an infinite end interval is computed but never used
                continue
            bracket = bracket and x1 * m0 <= m1 <= x2 * m0
            sc = max(abs(refd.m1(x1, x2)), max(abs(x1), abs(x2)) * abs(m0))
            if abs(m1 - refd.m1(x1, x2)) > 1e-2 * sc + 1e-12:
                within = False
    return bracket, within


def run_moments_case(ctx, drv, case):
    """case = {kind:'moments', dims, boundary, form, fid, thr, c, e, k, max_evaluations, lmax, ret, setup}"""
    import numpy as np
    from sparseSpACE.Grid import GlobalTrapezoidalGridWeighted
    from sparseSpACE.Function import FunctionCustom
    from sparseSpACE.spatiallyAdaptiveSingleDimension2 import SpatiallyAdaptiveSingleDimensions2
    from sparseSpACE.ErrorCalculator import ErrorCalculatorSingleDimVolumeGuided
    dims, boundary = case["dims"], case["boundary"]
    ndim = len(dims)
    c, e, k = case["c"], case["e"], case["k"]
    g = base_function(case["fid"], case["thr"], dims)
    ok = True
    if case.get("ret", "list").startswith("s_"):
        k = 0.0
    anyshared = any(shared_other_domain(dims, d) for d in range(ndim))
    fams = sorted({family_tag(dm) for dm in dims})
    sups = sorted({support_tag(dm) for dm in dims})
    tags = {"family": fams[0] if len(fams) == 1 else "mixed", "support": "finite-box" if "finite-box" in sups else sups[0],
            "boundary": bool(boundary), "shared_other_domain": anyshared, "level": "combined"}

    def corr(obs, impl, model):
        nonlocal ok
        ok = False
        ctx.corr_break("C15/" + obs, case, {"impl": str(impl)[:400], "model": str(model)[:400]})

    def viol(probe, detail):
        nonlocal ok
        detail = dict(detail, stage=st["label"]) if isinstance(detail, dict) else detail
        if ctx.violation(probe, tags, case, detail):
            ok = False

    st = {"ci": None, "storage": None, "label": "first run"}
    ret = case.get("ret", "list")
    ncomp = 1 if ret.startswith("s_") else 3

    def fvecfun(x):
        v = g(x)
        return [v, c * v + e, k][:ncomp]

    f = build_model(ret, g, c, e, k)
    ctx.count("moments_model_return_" + ret)
    ctx.count("moments_setup_" + case.get("setup", "evf"))
    op, a, b = make_op(dims, f, case.get("form", "list"), testing=bool(case.get("storage")))
    # sharing as the implementation really does it (none once _prepare_distributions keys by domain)
    impl_reuse = [min(j for j in range(d + 1) if op.distributions[j] is op.distributions[d]) for d in range(ndim)]
    anyshared = any(shared_other_domain(dims, d) and impl_reuse[d] != d for d in range(ndim))
    tags["shared_other_domain"] = anyshared
    grid = GlobalTrapezoidalGridWeighted(a, b, op, boundary=boundary)
    op.set_grid(grid)
    setup = case.get("setup", "evf")
    if setup == "moments12":
        op.set_moments_Function([1, 2])
    elif setup == "update":
        op.update_function(op.get_expectation_variance_Function())
    else:
        op.set_expectation_variance_Function()
    errcalc = ErrorCalculatorSingleDimVolumeGuided
    use_site = []          # (coordinates per dimension, weights per dimension) at every set_grid of the operation's grid

    def run_step(kind):
        """first: performSpatiallyAdaptiv; continue: continue_adaptive_refinement with a larger limit on the same
        instance; rerun: a second SpatiallyAdaptiveSingleDimensions2 on the SAME operation and grid objects"""
        with quiet():
            if kind in ("first", "rerun"):
                st["ci"] = SpatiallyAdaptiveSingleDimensions2(a, b, operation=op, norm=2, use_volume_weighting=True,
                                                              grid_surplusses=op.get_grid())
                st["storage"] = {} if case.get("storage") else None
                nev = case["max_evaluations"] if kind == "first" else max(10, case["max_evaluations"] // 2)
                st["ci"].performSpatiallyAdaptiv(1, case["lmax"], errcalc(), tol=0, max_evaluations=nev, print_output=False,
                                                 solutions_storage=st["storage"])
            else:
                st["ci"].continue_adaptive_refinement(tol=0, max_evaluations=case["max_evaluations"] + 15)

    def observe(label):
        nonlocal ok
        ci, storage = st["ci"], st["storage"]
        try:
            with quiet():
                result_before = [float(x) for x in op.get_result()]
                storage_before = {n: [float(x) for x in v] for n, v in storage.items()} if storage is not None else None
                E, V = op.calculate_expectation_and_variance(ci)
                E, V = [float(x) for x in E], [float(x) for x in V]
                # object history: the same operation object is asked again (and again); its stored result must not move
                history = [("query 1", E, V, [float(x) for x in op.get_result()])]
                for q in range(case.get("repeat", 0)):
                    if q == 1:
                        En_, Vn_ = op.calculate_expectation_and_variance(ci, use_combiinstance_solution=False)  # interleaved
                    Eq, Vq = op.calculate_expectation_and_variance(ci)
                    history.append(("query %d" % (q + 2), [float(x) for x in Eq], [float(x) for x in Vq],
                                    [float(x) for x in op.get_result()]))
                multi = []
                if storage is not None:
                    for q in range(2):
                        multi.append([(int(n), [float(x) for x in e_], [float(x) for x in v_])
                                      for n, e_, v_ in op.calculate_multiple_expectation_and_variance(storage)])
                    storage_after = {n: [float(x) for x in v] for n, v in storage.items()}
                    Es, Vs = op.calculate_expectation_and_variance(ci)
                    history.append(("query after the multi-solution queries", [float(x) for x in Es], [float(x) for x in Vs],
                                    [float(x) for x in op.get_result()]))
                # the operation's own stored result fed back into the static entry point
                res = [float(x) for x in op.get_result()]
                Ef, Vf = op.moments_to_expectation_variance(list(res[:len(res) // 2]), list(res[len(res) // 2:]))
                history.append(("stored result fed back to moments_to_expectation_variance", [float(x) for x in Ef],
                                [float(x) for x in Vf], [float(x) for x in op.get_result()]))
                pts, W = ci.get_points_and_weights()
                En, Vn = op.calculate_expectation_and_variance(ci, use_combiinstance_solution=False)
                En, Vn = [float(x) for x in En], [float(x) for x in Vn]
        except Exception as ex:  # noqa: BLE001
            import traceback
            viol("shared-distribution-object" if anyshared and "negative weight" in str(ex) else "moments-exception",
                 {"exception": repr(ex)[:300], "trace": traceback.format_exc()[-800:]})
            return False
        # ---- oracle: every query of the same refined grid gives the same E and Var and leaves the stored moments alone
        same = lambda u, v: len(u) == len(v) and all(x == y or (math.isnan(x) and math.isnan(y)) for x, y in zip(u, v))
        ctx.count("moments_repeated_queries", len(history) - 1)
        bad_hist = [h[0] for h in history if not (same(h[1], E) and same(h[2], V) and same(h[3], result_before))]
        if storage is not None:
            ctx.count("moments_storage_route")
            if not all(same(storage_after[n], storage_before[n]) for n in storage_before) or multi[0] != multi[1]:
                bad_hist.append("calculate_multiple_expectation_and_variance twice on one solutions_storage")
            elif multi[0] and storage_before and not (same(multi[0][-1][1], E) and same(multi[0][-1][2], V)):
                bad_hist.append("last stored solution vs direct query")
        if bad_hist:
            viol("moments-query-not-repeatable",
                 {"clause": "E/Var laws hold on every query of one refined grid; a query does not change the combined moments",
                  "differs": bad_hist, "get_result_before": result_before,
                  "history": [{"at": h[0], "E": h[1], "V": h[2], "get_result": h[3]} for h in history][:4],
                  "multi": [m[-1:] for m in multi]})
            return False
        W = [float(x) for x in W]
        if any(not math.isfinite(x) for x in W):
            viol("shared-distribution-object" if anyshared else "weights-nonfinite",
                 {"clause": "weights sum to 1", "E": E, "V": V, "nonfinite_weights": sum(1 for x in W if not math.isfinite(x))})
            return ok
        vals = [fvecfun(tuple(float(t) for t in p)) for p in pts]
        cols = [[float(v[j]) for v in vals] for j in range(ncomp)]
        ctx.count("moments_nodes", len(W))
        if min(W) < 0:
            ctx.count("moments_rule_has_negative_weights")
        S = math.fsum(W)
        absW = math.fsum(abs(x) for x in W)
        sc1 = [math.fsum(abs(w * v) for w, v in zip(W, col)) for col in cols]
        sc2 = [math.fsum(abs(w) * v * v for w, v in zip(W, col)) + s1 * s1 for col, s1 in zip(cols, sc1)]
        # is the sign-repair branch of moments_to_expectation_variance exercised?  (exact raw value on the nodes)
        for j, col in enumerate(cols):
            e1 = sum(Fraction(w) * Fraction(v) for w, v in zip(W, col)) if all(math.isfinite(v) for v in col) else None
            if e1 is not None:
                raw = sum(Fraction(w) * Fraction(v) * Fraction(v) for w, v in zip(W, col)) - e1 * e1
                if raw < 0:
                    ctx.count("moments_raw_variance_negative")
                if raw < -Fraction(1, 10 ** 10):
                    ctx.count("moments_raw_variance_below_-1e-10" + ("_const" if j == 2 else ""))
        # ---- correspondence: bookkeeping of calculate_expectation_and_variance
        if any(math.isnan(x) or math.isinf(x) for col in cols for x in col):
            ctx.count("moments_nonfinite_model_value")
            return ok
        rm = drv.ask("ev %s %s" % (fvec(W), "|".join(fvec(col) for col in cols)))
        try:
            es, vs = rm[2:].split(" V ")
            Em, Vm = [float(x) for x in parse_vec(es)], [float(x) for x in parse_vec(vs)]
            for nm, Ei, Vi in (("solution", E, V), ("nodes", En, Vn)):
                if any(not near(x, y, 1e-9, s) for x, y, s in zip(Ei, Em, sc1)) or \
                        any(not near(x, y, 1e-9, s) for x, y, s in zip(Vi, Vm, sc2)) or len(Ei) != ncomp or len(Vi) != ncomp:
                    corr("expectation-variance-" + nm, {"E": Ei, "V": Vi}, rm[:300])
        except Exception:  # noqa: BLE001
            corr("expectation-variance", {"E": E, "V": V}, rm[:300])
        # ---- correspondence: the combined rule = Σ coefficient × tensor product of the 1-D weights
        comps = []
        allw = []
        with quiet():
            for cg in ci.scheme:
                coords, levels, _ = ci.get_point_coord_for_each_dim(cg.levelvector)
                grid.set_grid(coords, levels)
                w1d = [[float(x) for x in grid.weights[d]] for d in range(ndim)]
                comps.append((float(cg.coefficient), w1d))
        if sum(len(w) for _, ws in comps for w in ws) <= 400:
            parts = []
            for coef, w1d in comps:
                rt = drv.ask("tensor " + "|".join(fvec(w) for w in w1d))
                parts.append("%s:%s" % (frac_str(coef), fvec([float(x) for x in parse_vec(rt)])))
            rc = drv.ask("comb " + ";".join(parts))
            wm = sorted(float(x) for x in parse_vec(rc))
            wi = sorted(W)
            if len(wm) != len(wi) or any(not near(x, y, 1e-12) for x, y in zip(wm, wi)):
                corr("combined-weights", wi[:20], wm[:20])
        # ---- oracle: the property clauses on the implementation's outputs
        law_bad = []
        if any(v < 0 for v in V) or len(E) != ncomp or len(V) != ncomp:
            viol("var-negative", {"V": V, "E": E})
        if ncomp == 1:
            # scalar model: no transformed component; E and Var are tied to the independent Σ W f, Σ W f² above
            if abs(S - 1.0) > 1e-9 and not (boundary and "finite-box" in sups):
                viol("weights-sum", {"E": E, "V": V, "sum_of_combined_weights": S})
            return ok
        if not near(E[1], c * E[0] + e, 1e-9, abs(c) * sc1[0] + abs(e) * absW):
            law_bad.append("E[c f + e] = c E[f] + e")
        if not near(V[1], c * c * V[0], 1e-9, c * c * sc2[0] + sc2[1]):
            law_bad.append("Var[c f + e] = c^2 Var[f]")
        if not near(E[2], k, 1e-9, abs(k) * absW):
            law_bad.append("E[const] = const")
        if abs(V[2]) > 1e-12 * max(1.0, k * k * absW * absW):
            law_bad.append("Var[const] = 0")
        detail = {"E": E, "V": V, "c": c, "e": e, "k": k, "sum_of_combined_weights": S, "failed": law_bad}
        if law_bad or abs(S - 1.0) > 1e-9:
            # affine_moments_mass: are the deviations exactly those of a rule of total mass S ?
            gen_ok = near(E[1], c * E[0] + e * S, 1e-9, abs(c) * sc1[0] + abs(e) * absW) and near(E[2], k * S, 1e-9, abs(k) * absW)
            mass_decl = mass_eff = 1.0
            if boundary:
                for d in range(ndim):
                    mass_decl *= Ref(dims[d]["spec"], dims[d]["a"], dims[d]["b"]).m0(dims[d]["a"], dims[d]["b"])
                    j = impl_reuse[d]
                    mass_eff *= Ref(dims[j]["spec"], dims[j]["a"], dims[j]["b"]).m0(dims[d]["a"], dims[d]["b"])
            detail["mass_of_box"] = mass_decl
            if not gen_ok or abs(S - 1.0) <= 1e-9:
                viol("moments-law", detail)
            elif abs(S - mass_decl) <= 1e-9:
                viol("mass-not-one", detail)
            elif anyshared and abs(S - mass_eff) <= 1e-9:
                viol("shared-distribution-object", detail)
            else:
                viol("weights-sum", detail)
        return ok

    # ---- use-site observation: the weights the integration really uses (recorded when grid.integrate is entered)
    orig_integrate = grid.integrate

    def rec_integrate(f_, levelvec, start, end_):
        if len(use_site) < 60:
            use_site.append(([[float(x) for x in p] for p in grid.coordinate_array_with_boundary],
                             [[float(x) for x in w] for w in grid.weights]))
        return orig_integrate(f_, levelvec, start, end_)
    grid.integrate = rec_integrate

    last_grid = []
    orig_set_grid = grid.set_grid

    def rec_set_grid(points, levels):
        last_grid[:] = [[float(x) for x in p] for p in points]
        return orig_set_grid(points, levels)
    grid.set_grid = rec_set_grid

    def guarded(kind):
        try:
            run_step(kind)
            return True
        except Exception as ex:  # noqa: BLE001
            import traceback
            if isinstance(ex, AssertionError) and "negative weight" in str(ex) and not anyshared and len(last_grid) == ndim:
                # the code's own assertion on inexact first moments: an unmet assumption (bracketing fails on the grid the
                # run had reached while every first moment is as accurate as quad(epsrel=1e-2) promises), not a violation
                st_ = [bracket_status(op.distributions[d], Ref(dims[d]["spec"], dims[d]["a"], dims[d]["b"]), last_grid[d])
                       for d in range(ndim)]
                if any(not br for br, _ in st_) and all(wi_ for _, wi_ in st_):
                    ctx.count("assumption_unmet_negative_weight_assert_in_run")
                    return False
            viol("shared-distribution-object" if anyshared and "negative weight" in str(ex) else "moments-exception",
                 {"exception": repr(ex)[:300], "step": kind, "trace": traceback.format_exc()[-800:]})
            return False

    def check_use_site():
        """every weight vector in use equals the one the static route computes for the points in use"""
        for coords, used in use_site:
            for d in range(ndim):
                try:
                    with quiet():
                        fresh = [float(x) for x in GlobalTrapezoidalGridWeighted.compute_weights(
                            coords[d], a[d], b[d], op.distributions[d], boundary, False)]
                except Exception:  # noqa: BLE001
                    continue
                fresh = fresh if boundary or len(coords[d]) == 1 else fresh[1:-1]
                if len(fresh) != len(used[d]) or any(abs(x - y) > 1e-14 for x, y in zip(fresh, used[d])):
                    viol("use-site-weights", {"clause": "the weights used by the integration are the weights of the grid in use",
                                              "dim_index": d, "points": coords[d], "used": used[d], "static_route": fresh})
                    return False
        ctx.count("moments_use_site_records", len(use_site))
        return True

    toggle, second = case.get("toggle"), case.get("second")
    if toggle == "deactivate_caching":
        f.deactivate_caching()
    if not guarded("first") or not observe("first run") or not ok:
        return ok
    if not check_use_site():
        return ok
    if toggle == "reset_dictionary":
        # rarely used public toggle in the middle of the sequence: the value cache is dropped, the next queries re-evaluate
        f.reset_dictionary()
        ctx.count("moments_toggle_reset_dictionary")
        if not observe("after reset_dictionary") or not ok:
            return ok
    if second in ("continue", "rerun"):
        ctx.count("moments_second_" + second)
        del use_site[:]
        st["label"] = second
        if not guarded(second) or not observe("after " + second) or not ok:
            return ok
        check_use_site()
    return ok


def gen_moments_case(ctx):
    r = ctx.rng
    thorough = ctx.tier == "thorough"
    ndim = r.choice([1, 2, 2, 2, 3] if not thorough else [1, 2, 2, 3, 3])
    dims = gen_dims(r, ndim)
    boundary = r.random() < 0.5
    infinite = any(math.isinf(dm["a"]) or math.isinf(dm["b"]) for dm in dims)
    fid = r.choice([0, 1, 2, 6, 6] if infinite else [0, 1, 2, 3, 4, 5, 5, 6, 6])
    form = "list"
    if all(dm["spec"] == dims[0]["spec"] for dm in dims) and r.random() < 0.4:
        form = "str" if dims[0]["spec"] == ["Uniform"] and r.random() < 0.5 else "single"
    lo = dims[0]["a"] if not math.isinf(dims[0]["a"]) else -1.0
    hi = dims[0]["b"] if not math.isinf(dims[0]["b"]) else 1.0
    return {"kind": "moments", "dims": dims, "boundary": boundary, "form": form, "fid": fid,
            "thr": (lo + (hi - lo) * r.randint(1, 7) / 8) if fid < 5 else r.randint(1, 7) / 8,
            "c": r.choice([-3.0, -1.5, -0.25, 0.5, 2.0, 3.0, 16.0]), "e": r.choice([-8.0, -1.5, 0.0, 0.75, 5.0]),
            "k": r.choice([-2.5, 0.0, 1.0, 2.5, 7.0, 1.0e6, -1.0e6, 3.0e5]),
            "max_evaluations": r.choice([10, 20, 40] if ndim <= 2 else [20, 40]) if not thorough else r.choice([10, 30, 60, 100]),
            "lmax": r.choice([2, 2, 3]),
            "ret": r.choice(["list", "list", "tuple", "ndarray", "ndarray", "class_ndarray", "concat",
                             "s_float", "s_npfloat", "s_list", "s_ndarray"]),
            "setup": r.choice(["evf", "evf", "moments12", "update"]),
            "repeat": r.choice([1, 2, 2, 3]), "storage": r.random() < 0.4,
            "second": r.choice([None, None, "continue", "rerun"]),
            "toggle": r.choice([None, None, None, "reset_dictionary", "deactivate_caching"])}


# ----------------------------------------------------------------------------------------- entry points

RUNNERS = {"tree": run_tree_case, "synthmid": run_synth_mid, "synthw": run_synth_w, "synthmom": run_synth_mom, "options": run_options_case, "sibling": run_sibling_case, "moments": run_moments_case}


def run_case(ctx, drv, case):
    try:
        return RUNNERS[case["kind"]](ctx, drv, case)
    except Exception:  # noqa: BLE001
        import os
        import sys
        import traceback
        import common
        frames = traceback.extract_tb(sys.exc_info()[2])
        repo = os.path.realpath(common.REPO)
        in_impl = [fr for fr in frames if os.path.realpath(fr.filename).startswith(repo + os.sep)]
        if in_impl:
            # raised inside (or below) the implementation on a generated, valid input: a violation with a replayable case
            fr = in_impl[-1]
            ctx.violation("implementation-exception", {"kind": case["kind"]}, case,
                          {"clause": "the property promises a value for this input",
                           "where": "%s:%d %s" % (os.path.relpath(fr.filename, repo), fr.lineno, fr.name),
                           "trace": traceback.format_exc()[-1500:]})
        else:
            ctx.corr_break("C15/harness-exception", case, traceback.format_exc()[-1500:])
        return False


def run(ctx):
    thorough = ctx.tier == "thorough"
    ctx.rule = ("(tree) 1-2 dimensions, each Uniform / Triangle / Normal on (-inf,inf) / Normal on a finite box with dyadic "
                "parameters, equal or different specs and domains per dimension, boundary on/off, a refinement tree of "
                "3-30 points per dimension grown by the implementation's probability-halving midpoint (uniform or graded "
                "towards an end), distinct by (dims, boundary, form, split lists); (synthmid) get_middle_weighted with "
                "synthetic cdf/ppf over finite/infinite end points; (synthw) compute_weights with arbitrary dyadic interval moments "
                "(inside / slightly outside / clearly outside the bracket, zero masses, infinite ends); (moments) a short dimension-wise run "
                "(SpatiallyAdaptiveSingleDimensions2 + UncertaintyQuantification) on the vector model (f, c f + e, k) resp. a scalar model, whose eval returns "
                "list / tuple / ndarray / Function subclass / FunctionConcatenate / float / np.float64, moments set up by "
                "set_expectation_variance_Function / set_moments_Function([1,2]) / update_function; "
                "a case is non-trivial if it has at least 3 points in some dimension resp. a < b resp. any node")
    ctx.assumptions.append("w_nonneg needs x1*m0 <= m1 <= x2*m0 per interval; m1 comes from scipy.integrate.quad(epsrel=1e-2, "
                           "epsabs=inf): the hypothesis is evaluated per case on the implementation's own moments and its "
                           "failures are counted as assumption_unmet_*, not as violations")
    ctx.extra["validated_only"] = ["accuracy of the first moments computed by scipy.integrate.quad",
                                   "cdf/ppf of chaospy and scipy.stats satisfy the hypotheses of mid_halves (checked per split "
                                   "with an independent scipy cdf at 1e-6)"]
    drv = ctx.driver("drv_c15")
    import globaltrap_gen
    globaltrap_gen.run(ctx)      # translator tie of GlobalTrapezoidalGrid.compute_weights (see globaltrap_gen.py); tie only
    for line in ("w X 0 -", "w B 0 1:2", "mid 0 1 0 1", "ev 1,2 1", "prep Q", "unimom 1 1 0 1", "", "tensor a"):
        if drv.ask(line) != "bad-op":
            ctx.corr_break("C15/malformed-line", {"line": line}, "driver accepted a malformed line")
        ctx.count("malformed_lines")
    n_tree, n_synth, n_mom = (600, 500, 150) if not thorough else (6000, 3000, 1200)
    b_tree, b_synth, b_mom = (50, 55, 100) if not thorough else (290, 320, 590)

    def phase(kind, gen, n, budget):
        for i in range(n):
            if ctx.time_left(budget) < 0:
                ctx.count("budget_stop_" + kind)
                break
            case = gen(ctx)
            ok = run_case(ctx, drv, case)
            ctx.count("kind_" + kind)
            if kind in ("tree", "moments", "options"):
                for dm in case["dims"]:
                    ctx.count("dim_%s_%s" % (family_tag(dm), support_tag(dm)))
                ctx.count("ndim_%d" % len(case["dims"]))
                ctx.count("boundary_%s" % case["boundary"])
            nontrivial = (case["a"] < case["b"]) if kind == "synthmid" else (len(case["points"]) >= 2 if kind == "synthw" else True)
            ctx.case(case, nontrivial=nontrivial, sample=case if i < 1 else None)
            if not ok and (len(ctx.violations) + len(ctx.corr_breaks)) >= 12:
                return False
        return True

    if phase("tree", gen_tree_case, n_tree, b_tree) and phase("synthmid", gen_synth_mid, n_synth, b_synth) \
            and phase("synthw", gen_synth_w, n_synth, b_synth + 5) and phase("synthmom", gen_synth_mom, n_synth, b_synth + 8) \
            and phase("options", gen_options_case, n_synth // 2, b_synth + 12) \
            and phase("sibling", gen_sibling_case, n_synth // 4, b_synth + 16):
        phase("moments", gen_moments_case, n_mom, b_mom)


def replay(ctx, rp):
    case = rp["case"]
    drv = ctx.driver("drv_c15")
    ok = run_case(ctx, drv, case)
    print("replay: %s" % ("property holds and model agrees on this case" if ok and not ctx.known_hits else
                          ("only known findings on this case" if ok else "REPRODUCED")))
    for fid, (f, n) in ctx.known_hits.items():
        print("  known finding:", fid, f["what"])
    for v in ctx.violations[:3]:
        print("  violation:", v["probe"], v["tags"], str(v["detail"])[:600])
    for c in ctx.corr_breaks[:3]:
        print("  disagreement:", c["observable"], str(c["detail"])[:600])
    for d in ctx._drivers:
        d.close()
    return 0 if ok else 1
