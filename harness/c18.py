"""C18 -- DataSet transformations preserve the labelled samples.

Correspondence: random operation histories (<= 25 operations) on a POOL of live `DataSet` objects (initial sets and every
set derived from them) are executed on the real class and on Model/DataSet through the compiled driver; after EVERY
operation the return value / exception kind and the complete observable state of EVERY live object (samples, labels,
array shape kind, dim, shuffled/scaled flags, scaling range, scaling factor, original min/max) are compared.  The random
choices of the implementation are fed to the model: the permutation of `shuffle` and the index set of `remove_labels`
are read back from the result, the iteration orders of Python sets (`move_boundaries_to_front`, `split_labels`) are
reproduced / read back.

Oracle (independent of the model): the clauses of the property evaluated on the implementation's own outputs --
range ends after `scale_range`, restoration by `revert_scaling` against a snapshot of the samples taken before the
first scaling (carried through permutations, splits, removals and concatenations), multiset of (sample,label) pairs,
attached labels, carried attributes, refusal of concatenation for observably different scalings, rejection of
out-of-range removal indices without modification, no exception where the property promises a value, and
non-interference (an operation on one object must not change another live object)."""
import random as pyrandom
import re
from fractions import Fraction

import numpy as np

from common import frac_str

MAX_POOL = 10
TOL = 1e-9


# ------------------------------------------------------------------------------------------------ observation
def err_kind(e):
    for cls, k in ((ValueError, "value"), (IndexError, "index"), (TypeError, "type"), (ZeroDivisionError, "zerodiv"),
                   (AttributeError, "attr")):
        if isinstance(e, cls):
            return k
    return "exc:" + type(e).__name__


def obs_range(r):
    if r is None:
        return None
    if isinstance(r[0], np.ndarray):
        return ("A", [float(x) for x in r[0]], [float(x) for x in r[1]])
    return ("P", float(r[0]), float(r[1]))


def obs_factor(f):
    if f is None:
        return None
    if isinstance(f, np.ndarray):
        return ("V", [float(x) for x in f])
    return ("S", float(f))


def obs_vec(v):
    return None if v is None else [float(x) for x in v]


def observe(ds):
    """everything observable through the public getters, as plain python values"""
    vals, labs = ds.get_data()
    rows = [] if vals.size == 0 else [[float(x) for x in r] for r in vals]
    return {"rows": rows, "labels": [float(x) for x in labs], "dim": int(ds.get_dim()), "flat": vals.ndim == 1,
            "shuf": bool(ds.is_shuffled()), "scaled": bool(ds.is_scaled()), "range": obs_range(ds.get_scaling_range()),
            "fac": obs_factor(ds.get_scaling_factor()), "omin": obs_vec(ds.get_original_min()),
            "omax": obs_vec(ds.get_original_max()),
            "off": obs_factor(getattr(ds, "_scaling_offset")) if hasattr(ds, "_scaling_offset") else "absent"}


def label_kind(labels):
    """whole numbers only / some label that is not a whole number / some label strictly between the marker -1 and 0"""
    if any(-1 < l < 0 for l in labels):
        return "between-marker-and-zero"
    return "fractional" if any(l != int(l) for l in labels) else "whole"


def attrs_of(o):
    return (o["scaled"], o["range"], o["fac"], o["omin"], o["omax"])


def scaling_of(o):
    return (o["scaled"], o["range"], o["fac"])


def pairs(o):
    return sorted((tuple(r), l) for r, l in zip(o["rows"], o["labels"]))


SAMPLE_RE = re.compile(r"\[([^\[\]]*)\]:(-?\d+(?:/\d+)?)")
STATE_RE = re.compile(r"^S (\[.*\]) dim=(\d+) flat=([01]) shuf=([01]) scaled=([01]) range=(none|P \S+ \S+|A \S+ \S+) "
                      r"fac=(none|S \S+|V \S+) omin=(\S+) omax=(\S+)(?: off=(none|S \S+|V \S+))?$")


def rat(txt):
    """`p/q` or `p` of the model as the nearest float (true division of Python ints is correctly rounded)"""
    if "/" in txt:
        a, b = txt.split("/")
        return int(a) / int(b)
    return float(int(txt))


def pvec(s):
    s = s.strip()
    assert s[0] == "[" and s[-1] == "]", s
    s = s[1:-1]
    return [rat(x) for x in s.split(",")] if s else []


def _tagged(txt):
    """`none` / `S q` / `V [..]` (absent: the model does not know the attribute)"""
    if txt is None:
        return "absent"
    t = txt.split(" ")
    return None if t[0] == "none" else (("S", rat(t[1])) if t[0] == "S" else ("V", pvec(t[1])))


def parse_state(line):
    m = STATE_RE.match(line)
    if not m:
        return None
    smp = [(pvec("[" + a + "]"), rat(b)) for a, b in SAMPLE_RE.findall(m.group(1))]
    rng = m.group(6).split(" ")
    fac = m.group(7).split(" ")
    return {"rows": [r for r, _ in smp], "labels": [l for _, l in smp], "dim": int(m.group(2)), "flat": m.group(3) == "1",
            "shuf": m.group(4) == "1", "scaled": m.group(5) == "1",
            "range": None if rng[0] == "none" else (("P", rat(rng[1]), rat(rng[2])) if rng[0] == "P"
                                                    else ("A", pvec(rng[1]), pvec(rng[2]))),
            "fac": None if fac[0] == "none" else (("S", rat(fac[1])) if fac[0] == "S" else ("V", pvec(fac[1]))),
            "omin": None if m.group(8) == "none" else pvec(m.group(8)),
            "omax": None if m.group(9) == "none" else pvec(m.group(9)),
            "off": _tagged(m.group(10))}


def close(a, b, floor=1.0):
    """|a-b| <= TOL * max(floor, |a|, |b|); `floor` = the magnitude of the data the two numbers belong to"""
    a = float(a)
    b = float(b)
    if a == b:
        return True
    return abs(a - b) <= TOL * max(floor, abs(a), abs(b))


def vec_close(a, b, floor=1.0):
    return len(a) == len(b) and all(close(x, y, floor) for x, y in zip(a, b))


def magnitude(rows):
    m = 0.0
    for r in rows:
        for x in r:
            m = max(m, abs(float(x)))
    return m


def tagged_close(a, b, hmag=0.0):
    if a is None or b is None:
        return a is None and b is None
    if a[0] != b[0]:
        return False
    if a[0] in ("P",):
        return close(a[1], b[1]) and close(a[2], b[2])
    if a[0] == "A":
        fl = max(magnitude([a[1], a[2]]), 1e-3 * hmag, 1e-300)
        return vec_close(a[1], b[1], fl) and vec_close(a[2], b[2], fl)
    if a[0] == "S":
        return close(a[1], b[1], 0.0)
    return vec_close(a[1], b[1], 0.0)


def diff_state(impl, model, hmag=0.0):
    """fields on which the implementation's and the model's state differ; `hmag`: the largest magnitude the data of
    the object has had (rounding noise of earlier arithmetic is proportional to it)"""
    bad = []
    if model is None:
        return ["unparsable-model-state"]
    fl = max(magnitude(impl["rows"]), 1e-3 * hmag, 1e-300)  # relative to the magnitude of the object's data
    if len(impl["rows"]) != len(model["rows"]) or not all(vec_close(a, b, fl) for a, b in zip(impl["rows"], model["rows"])):
        bad.append("samples")
    # labels are dyadic (or the exact value of the float that was passed on to the model): exact comparison
    if impl["labels"] != [float(x) for x in model["labels"]] and not (len(impl["rows"]) == 0 and len(model["labels"]) == 0):
        bad.append("labels")
    for k in ("dim", "flat", "shuf", "scaled"):
        if impl[k] != model[k]:
            bad.append(k)
    for k in ("range", "fac"):
        if not tagged_close(impl[k], model[k], hmag):
            bad.append(k)
    io, mo = impl.get("off", "absent"), model.get("off", "absent")
    if io != "absent" and mo != "absent":
        # `_scaling_offset` has no getter; it is read from the object when the implementation has the attribute
        if (io is None) != (mo is None) or (io is not None and (io[0] != mo[0] or not vec_close(
                io[1] if io[0] == "V" else [io[1]], mo[1] if mo[0] == "V" else [mo[1]], max(hmag, 1e-300)))):
            bad.append("off")
    for k in ("omin", "omax"):
        if (impl[k] is None) != (model[k] is None) or \
                (impl[k] is not None and not vec_close(impl[k], model[k], max(magnitude([impl[k]]), 1e-3 * hmag, 1e-300))):
            bad.append(k)
    return bad


def fvec(v):
    return ",".join(frac_str(x) for x in v) if len(v) else "-"


def ivec(v):
    return ",".join(str(int(x)) for x in v) if len(v) else "-"


def fac_tokens(f):
    return ("V " + fvec(f)) if isinstance(f, list) else ("S " + frac_str(f))


def py_fac(f, ftype="float"):
    """the argument object: ndarray, Python float, numpy float64 or (for integral values) Python int"""
    if isinstance(f, list):
        return np.array(f, dtype=float)
    if ftype == "np64":
        return np.float64(f)
    if ftype == "int" and Fraction(f).denominator == 1:
        return int(f)
    return float(f)


# ------------------------------------------------------------------------------------------------ one history
class Hist:
    def __init__(self, ctx, drv):
        from sparseSpACE.DEMachineLearning import DataSet
        self.DataSet = DataSet
        self.ctx = ctx
        self.drv = drv
        self.objs = []      # implementation objects
        self.base = []      # rows before the first scaling since the last overriding one (np.ndarray) or None
        self.token = []     # identifies the affine map that leads from `base` to the current samples (fresh per scaling)
        self.ntok = 0
        self.shareV = set()  # pairs (a, b), a < b, of live objects whose VALUE arrays share memory (public get_data())
        self.shareL = set()  # ... whose LABEL arrays share memory
        self.sharing_reports = 0
        self.model_lost = False
        self.corr_seen = False
        self.hmag = []       # per object: the largest magnitude its data has had (derived objects: of the whole pool)
        self.raw = []        # arrays handed to the constructor by the harness, with pristine copies
        self.args = []       # argument objects handed to operations (arrays / lists) the harness may overwrite at the end
        self.argbuf = {}     # reusable argument buffers (overwritten with new contents before every use)
        self.vsplit = []     # per object: the last operation that replaced its value array but kept its label array object
        self.taint = []     # attributes were corrupted by an already reported interference
        self.case = {"init": [], "ops": []}
        self.ok = True
        self.known_only = True
        assert drv.ask("reset") == "ok"

    # ---- reporting
    def case_now(self):
        return {"init": self.case["init"], "ops": list(self.case["ops"])}

    def corr(self, what, impl, model):
        """model and implementation disagree: reported once per history; the model is lost for the rest of the history,
        which goes on with the oracle alone (a disagreement is not yet a failing input -- the oracle may find one later)"""
        if self.model_lost:
            return
        self.model_lost = True
        self.corr_seen = True
        self.ctx.corr_break("C18/" + what, self.case_now(), {"impl": str(impl)[:600], "model": str(model)[:600]})

    def viol(self, probe, tags, detail):
        unlisted = self.ctx.violation(probe, tags, self.case_now(), detail)
        if unlisted:
            self.ok = False
        self.ctx.count("oracle_" + probe)

    # ---- pool
    def add_obj(self, ds, base=None, taint=False):
        self.objs.append(ds)
        self.base.append(base)
        self.taint.append(taint)
        self.token.append(None)
        self.vsplit.append(None)
        vals = ds.get_data()[0]
        own = float(np.max(np.abs(vals))) if vals.size else 0.0
        self.hmag.append(own if len(self.hmag) < len(self.raw) else max([own] + self.hmag))

    def new_set(self, rows, labels, cls="ds", route="tuple", ldtype="int64"):
        """cls: DataSet or its subclass DataSetRegression; route: (values, labels) tuple or the values-only ndarray"""
        from sparseSpACE.DEMachineLearning import DataSetRegression
        self.case["init"].append({"rows": [[frac_str(x) for x in r] for r in rows], "labels": [frac_str(x) for x in labels],
                                  "cls": cls, "route": route, "ldtype": ldtype})
        C = DataSetRegression if cls == "reg" else self.DataSet
        if len(rows) == 0:
            vals, labs = np.array([]), np.array([], dtype=np.int64)
        else:
            # numpy integer / floating label arrays; labels that are not whole numbers need a floating dtype
            whole = all(float(l) == int(float(l)) for l in labels)
            dt = {"int64": np.int64, "int32": np.int32, "float64": np.float64, "float32": np.float32}[ldtype]
            if not whole and dt in (np.int64, np.int32):
                dt = np.float64
            vals, labs = np.array(rows, dtype=float), np.array([float(l) for l in labels], dtype=dt)
        if route == "ndarray" and len(rows) and all(l == -1 for l in labels):
            ds = C(vals)
        else:
            ds = C((vals, labs))
        self.raw.append((vals, labs, vals.copy(), labs.copy()))
        self.add_obj(ds)
        r = self.drv.ask("new %s %s" % (";".join(fvec(x) for x in rows) if len(rows) else "-", fvec([float(l) for l in labels])))
        if r != "id %d" % (len(self.objs) - 1):
            self.corr("new", "id %d" % (len(self.objs) - 1), r)

    def snap(self):
        return [observe(o) for o in self.objs]

    def sharing(self):
        """which live (non-empty) objects hold overlapping value / label arrays -- np.shares_memory on get_data()"""
        datas = [o.get_data() for o in self.objs]
        V, L = set(), set()
        for a in range(len(datas)):
            for b in range(a + 1, len(datas)):
                if datas[a][0].size and datas[b][0].size and np.shares_memory(datas[a][0], datas[b][0]):
                    V.add((a, b))
                if datas[a][1].size and datas[b][1].size and len(datas[a][0]) and len(datas[b][0]) and \
                        np.shares_memory(datas[a][1], datas[b][1]):
                    L.add((a, b))
        return V, L

    def compare_sharing(self, after, what):
        """the model's bookkeeping of array identity against the implementation's actual memory sharing"""
        V, L = self.sharing()
        if self.model_lost:
            self.shareV, self.shareL = V, L
            return
        cells = []
        for k in range(len(self.objs)):
            m = re.match(r"^v=(\d+) l=(\d+)$", self.drv.ask("cells %d" % k))
            cells.append((int(m.group(1)), int(m.group(2))) if m else (-1 - k, -1 - k))
        ne = [k for k in range(len(self.objs)) if len(after[k]["rows"]) > 0]
        mV = set((a, b) for a in ne for b in ne if a < b and cells[a][0] == cells[b][0])
        mL = set((a, b) for a in ne for b in ne if a < b and cells[a][1] == cells[b][1])
        if V != mV or L != mL:
            # not yet an observable difference: report it, but let the history go on so that the oracle can find an input
            # on which the unexpected sharing does damage
            self.ctx.count("disagreement_array_sharing")
            if self.sharing_reports < 1 and self.ctx.hist.get("disagreement_array_sharing_reported", 0) < 3:
                self.ctx.count("disagreement_array_sharing_reported")
                self.ctx.corr_break("C18/" + what + "/array-sharing", self.case_now(),
                                    {"impl": str({"values": sorted(V), "labels": sorted(L)}), "model": str({"values": sorted(mV), "labels": sorted(mL)})})
            self.sharing_reports += 1
        self.shareV, self.shareL = V, L
        if L - V:
            self.ctx.count("state_label_array_shared_without_values")

    def compare_pool(self, after, what):
        n = self.drv.ask("n")
        if n != str(len(self.objs)):
            self.corr(what + "/pool-size", len(self.objs), n)
            return
        for k, o in enumerate(after):
            line = self.drv.ask("get %d" % k)
            self.hmag[k] = max(self.hmag[k], magnitude(o["rows"]))
            bad = diff_state(o, parse_state(line), self.hmag[k])
            if bad:
                self.corr("%s/state-of-object-%d/%s" % (what, k, "+".join(bad)),
                          {f: o[f if f not in ("samples",) else "rows"] for f in bad if f != "unparsable-model-state"}, line)
                return

    # ---- oracles shared by several operations
    def check_interference(self, before, after, may_change, opname):
        for k in range(len(before)):
            if k in may_change:
                continue
            b, a = before[k], after[k]
            if b != a:
                what = [f for f in b if b[f] != a[f]]
                if set(what) <= {"rows", "labels"} and pairs(b) == pairs(a) and (min(k, *may_change), max(k, *may_change)) in self.shareV:
                    # a holder of the very same value AND label arrays sees the same consistent permutation: its pairs,
                    # attached labels and attributes are what they were -- no clause of the property is concerned
                    self.ctx.count("note_shared_arrays_permuted_consistently")
                    continue
                kind = "scaling_factor" if what == ["fac"] else ("labels" if what == ["labels"] else "+".join(what))
                t0 = min(may_change) if may_change else k
                self.viol("non-interference", {"op": opname, "what": kind, "split_by": self.vsplit[t0] or self.vsplit[k] or "none"},
                          {"object": k, "fields": what, "before": {f: b[f] for f in what}, "after": {f: a[f] for f in what}})
                self.taint[k] = True

    def unexpected(self, opname, e, before_t, after_t, extra=None):
        tags = {"op": opname, "exc": type(e).__name__, "dim": before_t["dim"],
                "range_kind": None if before_t["range"] is None else ("arrays" if before_t["range"][0] == "A" else "pair"),
                "range_len": len(before_t["range"][1]) if before_t["range"] is not None and before_t["range"][0] == "A" else None,
                "data_modified": pairs(before_t) != pairs(after_t)}
        if extra:
            tags.update(extra)
        self.viol("unexpected-exception", tags, {"message": str(e)[:200]})

    # ---- operations --------------------------------------------------------------------------------------
    def run(self, op):
        """execute one fully specified operation on both sides; all checks"""
        name = op["op"]
        self.case["ops"].append(op)
        self.ctx.count("op_" + name)
        try:
            self.arrs_before = [o.get_data() for o in self.objs]  # keeps the old arrays alive: identity can be compared afterwards
            self.arrs_copy = [(a[0].copy(), a[1].copy()) for a in self.arrs_before]
            before = self.snap()
            getattr(self, "op_" + name)(op, before)
        except RuntimeError:
            raise  # the model driver died
        except Exception as e:  # noqa: BLE001
            # an output of the implementation the harness cannot even read (wrong arity / type / shape): a failing input
            import traceback
            self.viol("unexpected-exception", {"op": name, "exc": type(e).__name__, "where": "harness"},
                      {"message": str(e)[:200], "trace": traceback.format_exc()[-600:]})
            self.ok = False

    def check_foreign_arrays(self, name):
        """no operation may write into arrays it does not own: the arrays the caller handed to the constructor and the
        arrays handed out by get_data() before the operation"""
        for k, (v, l, v0, l0) in enumerate(self.raw):
            if not (np.array_equal(v, v0) and np.array_equal(l, l0)):
                self.viol("caller-arrays-modified", {"op": name, "what": "constructor-argument"}, {"initial_set": k})
                self.raw[k] = (v, l, v.copy(), l.copy())
        for k, (a, c) in enumerate(zip(self.arrs_before, self.arrs_copy)):
            if not (np.array_equal(a[0], c[0]) and np.array_equal(a[1], c[1])):
                self.viol("caller-arrays-modified", {"op": name, "what": "array-returned-by-get_data"}, {"object": k})

    def use_arg(self, obj, overwritable=True):
        """remember an argument object and its contents; returns the object"""
        self.args.append((obj, obj.copy() if isinstance(obj, np.ndarray) else list(obj), overwritable))
        return obj

    def buffer(self, kind, values):
        """a reusable argument buffer: the same object carries new contents on every use (a reference kept by the
        implementation from an earlier call would now see the new contents)"""
        key = (kind, len(values))
        if kind == "arr":
            if key not in self.argbuf:
                self.argbuf[key] = np.zeros(len(values))
            self.argbuf[key][:] = values
        else:
            if key not in self.argbuf:
                self.argbuf[key] = []
            self.argbuf[key][:] = values
        return self.argbuf[key]

    def check_arg_unmodified(self, name, arg, want):
        same = np.array_equal(arg, want) if isinstance(arg, np.ndarray) else list(arg) == list(want)
        if not same:
            self.viol("caller-arrays-modified", {"op": name, "what": "operation-argument"}, {"argument": str(arg)[:100], "was": str(want)[:100]})

    def finish_history(self):
        """the caller overwrites every array / list it ever passed as an argument: no data set may change"""
        if not self.ok or not self.args:
            return
        before = self.snap()
        for obj, _, overwritable in self.args:
            if not overwritable:
                continue
            if isinstance(obj, np.ndarray):
                obj[...] = 7.0
            else:
                obj[:] = [9.0 + k for k in range(len(obj))]
        after = self.snap()
        for k, (b, a) in enumerate(zip(before, after)):
            if b != a:
                fields = [f for f in b if b[f] != a[f]]
                self.viol("argument-aliasing", {"field": "+".join(fields)}, {"object": k, "before": {f: b[f] for f in fields}, "after": {f: a[f] for f in fields}})

    def finish_op(self, name, before, may_change, impl_ret, model_ret):
        after = self.snap()
        if impl_ret != model_ret and not self.model_lost:
            self.corr(name + "/return", impl_ret, model_ret)
        for k in may_change:
            old, new = self.arrs_before[k], self.objs[k].get_data()
            if not (old[1].size and new[1].size and np.shares_memory(old[1], new[1])):
                self.vsplit[k] = None
            elif not (old[0].size and new[0].size and np.shares_memory(old[0], new[0])):
                self.vsplit[k] = "+".join(sorted(set((self.vsplit[k].split("+") if self.vsplit[k] else []) + [name])))
        self.check_interference(before, after[:len(before)], may_change, name)
        self.check_foreign_arrays(name)
        if self.ok and not self.model_lost:
            self.compare_pool(after, name)
        if self.ok:
            self.compare_sharing(after, name)
        self.ctx.count("ret_" + (impl_ret if impl_ret.startswith("err") else "ok"))
        return after

    def scaling_common(self, op, before, call, line, first_path, valid):
        t = op["t"]
        name = op["op"]
        bt = before[t]
        try:
            call()
            ret, exc = "ok", None
        except Exception as e:  # noqa: BLE001
            ret, exc = "err " + err_kind(e), e
        after = self.finish_op(name, before, {t}, ret, self.drv.ask(line))
        at = after[t]
        if exc is not None:
            if valid and len(bt["rows"]) > 0:
                self.unexpected(name, exc, bt, at)
            if at["flat"] and not bt["flat"]:
                self.ctx.count("note_empty_array_flattened_by_failed_op")
            return None
        # labels stay attached: same labels in the same order, same number of samples
        if at["labels"] != bt["labels"] or len(at["rows"]) != len(bt["rows"]):
            self.viol("labels-attached", {"op": name}, {"before": bt["labels"], "after": at["labels"]})
        if first_path:
            self.base[t] = np.array(bt["rows"], dtype=float)
            self.taint[t] = False
        self.ntok += 1
        self.token[t] = self.ntok
        return at

    def op_scale_range(self, op, before):
        t, lo, hi, ov = op["t"], Fraction(op["lo"]), Fraction(op["hi"]), op["ov"]
        bt = before[t]
        rng = self.use_arg([float(lo), float(hi)]) if op.get("as_list") else (float(lo), float(hi))
        at = self.scaling_common(op, before, lambda: self.objs[t].scale_range(rng, override_scaling=ov),
                                 "sr %d %s %s %d" % (t, frac_str(lo), frac_str(hi), int(ov)),
                                 (not bt["scaled"]) or ov, lo < hi)
        if op.get("as_list"):
            self.check_arg_unmodified("scale_range", rng, [float(lo), float(hi)])
        if at is None:
            return
        n, d = len(at["rows"]), at["dim"]
        bad = []
        for k in range(d):
            col_b = [r[k] for r in bt["rows"]]
            col_a = [r[k] for r in at["rows"]]
            # "up to rounding": the scaler evaluates x * scale + (lo - min * scale); its rounding error is proportional
            # to |x| * scale, which exceeds the range ends for data far from the origin relative to its extent
            ext = max(col_b) - min(col_b)
            fl = max(abs(float(lo)), abs(float(hi)), max(abs(v) for v in col_b) * float(hi - lo) / (ext if ext > 0 else 1.0))
            if not close(min(col_a), float(lo), fl):
                bad.append(("min", k, min(col_a)))
            want_hi = float(hi) if max(col_b) > min(col_b) else float(lo)
            if not close(max(col_a), want_hi, fl):
                bad.append(("max", k, max(col_a)))
            # monotone: the sample holding the minimum / maximum before holds it afterwards
            if col_a[col_b.index(min(col_b))] != min(col_a) or col_a[col_b.index(max(col_b))] != max(col_a):
                bad.append(("extreme-not-mapped-to-extreme", k))
        if at["range"] is None or not tagged_close(at["range"], ("P", float(lo), float(hi))):
            bad.append(("get_scaling_range", at["range"]))
        if (not bt["scaled"]) or ov:
            if at["omin"] != [min(r[k] for r in bt["rows"]) for k in range(d)] or \
               at["omax"] != [max(r[k] for r in bt["rows"]) for k in range(d)]:
                bad.append(("original-min-max", at["omin"], at["omax"]))
        if bad:
            self.viol("scale-range-ends", {"n": min(n, 3), "override": ov, "was_scaled": bt["scaled"]}, {"failed": str(bad)[:400]})

    def op_scale_factor(self, op, before):
        t, f, ov = op["t"], op["f"], op["ov"]
        f = [Fraction(x) for x in f] if isinstance(f, list) else Fraction(f)
        bt = before[t]
        fits = (not isinstance(f, list)) or len(f) == bt["dim"]
        arg = self.make_arg("scale_factor", op, f, retained=(not bt["scaled"]) or ov)
        want = arg.copy() if isinstance(arg, np.ndarray) else arg
        self.scaling_common(op, before, lambda: self.objs[t].scale_factor(arg, override_scaling=ov),
                            "sf %d %s %d" % (t, fac_tokens(f), int(ov)), (not bt["scaled"]) or ov, fits)
        if isinstance(arg, np.ndarray):
            self.check_arg_unmodified("scale_factor", arg, want)

    def op_shift_value(self, op, before):
        t, f, ov = op["t"], op["f"], op["ov"]
        f = [Fraction(x) for x in f] if isinstance(f, list) else Fraction(f)
        bt = before[t]
        fits = (not isinstance(f, list)) or len(f) == bt["dim"]
        arg = self.make_arg("shift_value", op, f, retained=False)
        want = arg.copy() if isinstance(arg, np.ndarray) else arg
        self.scaling_common(op, before, lambda: self.objs[t].shift_value(arg, override_scaling=ov),
                            "sh %d %s %d" % (t, fac_tokens(f), int(ov)), (not bt["scaled"]) or ov, fits)
        if isinstance(arg, np.ndarray):
            self.check_arg_unmodified("shift_value", arg, want)

    def make_arg(self, name, op, f, retained):
        """the argument object of scale_factor / shift_value: a scalar (float / numpy float64 / int), a fresh array, a
        reused buffer, or the very array another live object returns from a getter (its own derived output fed back)"""
        if not isinstance(f, list):
            return py_fac(f, op.get("ftype", "float"))
        vals = [float(x) for x in f]
        src = op.get("from")
        if src is not None and 0 <= src[1] < len(self.objs):
            g = self.objs[src[1]].get_scaling_factor() if src[0] == "fac" else self.objs[src[1]].get_original_min()
            if isinstance(g, np.ndarray):
                g = g if src[0] == "fac" else -g
                if g.shape == (len(vals),) and np.array_equal(g, np.array(vals)):
                    self.ctx.count("arg_from_getter_" + src[0])
                    return g
        if op.get("buf") and not retained:
            # the clean implementation keeps no reference to this argument: reuse ONE buffer object for all such calls
            self.ctx.count("arg_reused_buffer")
            return self.use_arg(self.buffer("arr", vals))
        return self.use_arg(np.array(vals, dtype=float))

    def op_queries(self, op, before):
        """read-only part of the public interface, every query twice: same answers, consistent with get_data(), and no
        live object changes (set_name / set_label are the rarely used toggles; they do not concern the data)"""
        t = op["t"]
        ds = self.objs[t]
        bt = before[t]
        bad = []

        def norm(x):
            if isinstance(x, np.ndarray):
                return ("arr", x.shape, x.tolist())
            if isinstance(x, (list, tuple)):
                return tuple(norm(y) for y in x)
            return x if x is None or isinstance(x, (bool, str)) else float(x)
        qs = [("get_min_data", ds.get_min_data), ("get_max_data", ds.get_max_data), ("get_length", ds.get_length),
              ("get_dim", ds.get_dim), ("get_number_labels", ds.get_number_labels), ("get_labels", lambda: sorted(ds.get_labels())),
              ("has_labelless_samples", ds.has_labelless_samples), ("is_empty", ds.is_empty), ("is_shuffled", ds.is_shuffled),
              ("is_scaled", ds.is_scaled), ("get_name", ds.get_name), ("get_label", ds.get_label), ("str", lambda: str(ds)),
              ("getitem0", lambda: ds[0]), ("getitem1", lambda: ds[1]), ("get_scaling_range", ds.get_scaling_range),
              ("get_scaling_factor", ds.get_scaling_factor), ("get_original_min", ds.get_original_min),
              ("get_original_max", ds.get_original_max)]
        ans = {}
        for rnd in range(2):
            for qn, q in qs:
                try:
                    a = norm(q())
                except Exception as e:  # noqa: BLE001
                    a = ("EXC", type(e).__name__)
                    bad.append((qn, "raises " + type(e).__name__))
                if rnd == 0:
                    ans[qn] = a
                elif ans[qn] != a:
                    bad.append((qn, "different answer on the second call"))
            if rnd == 0 and op.get("toggle"):
                ds.set_name("renamed_%d" % t)
                ds.set_label("class")
                ans["get_name"], ans["get_label"] = "renamed_%d" % t, "class"
        n, d = len(bt["rows"]), bt["dim"]
        want = {"get_length": float(n), "get_dim": float(d), "is_empty": n == 0, "is_shuffled": bt["shuf"], "is_scaled": bt["scaled"],
                "has_labelless_samples": (-1 in bt["labels"]), "get_number_labels": float(len(set(l for l in bt["labels"] if l >= 0))),
                "get_labels": tuple(float(x) for x in sorted(set(bt["labels"])))}
        if n:
            cols = len(bt["rows"][0])
            want["get_min_data"] = ("arr", (cols,), [min(r[k] for r in bt["rows"]) for k in range(cols)])
            want["get_max_data"] = ("arr", (cols,), [max(r[k] for r in bt["rows"]) for k in range(cols)])
        else:
            want["get_min_data"] = want["get_max_data"] = None
        for qn, w in want.items():
            if ans.get(qn) != w and not (isinstance(ans.get(qn), tuple) and ans[qn][:1] == ("EXC",)):
                bad.append((qn, "inconsistent with get_data()", str(ans.get(qn))[:80], str(w)[:80]))
        if bad:
            self.viol("queries", {"query": bad[0][0]}, {"failed": str(bad)[:500]})
        self.finish_op("queries", before, set(), str(len(self.objs)), self.drv.ask("n"))

    def op_revert_scaling(self, op, before):
        t = op["t"]
        bt = before[t]
        fac = bt["fac"]
        nonzero = fac is not None and (fac[1] != 0.0 if fac[0] == "S" else all(x != 0.0 for x in fac[1]))
        at = self.scaling_common(op, before, lambda: self.objs[t].revert_scaling(), "rv %d" % t, False,
                                 bt["scaled"] and nonzero)
        if at is None:
            return
        bad = []
        if attrs_of(at) != (False, None, None, None, None):
            bad.append(("attributes-not-reset", attrs_of(at)))
        base = self.base[t]
        cause = "scalings-only"
        if base is not None and not self.taint[t] and nonzero:
            # "up to rounding": the error of undoing x = F*x0 + B is proportional to the largest magnitude the data has had
            fl = max(magnitude(base.tolist()), magnitude(at["rows"]), 1e-3 * self.hmag[t], 1e-300)
            restored = len(base) == len(at["rows"]) and all(vec_close(a, b, fl) for a, b in zip(at["rows"], base.tolist()))
            if not restored:
                bad.append(("samples-not-restored", str(at["rows"])[:200], str(base.tolist())[:200]))
                if len(base) == len(at["rows"]) and len(base) and bt["omin"] is not None and \
                        not np.array_equal(base.min(axis=0), np.array(bt["omin"])):
                    # the object is a sub- or superset (split part, removal, concatenation of parts) of the set that was
                    # scaled and does not hold the sample that had the original minimum: revert_scaling recomputes the
                    # offset from the minimum of the CURRENT samples, so everything is shifted by a constant per dimension
                    shifted = base + (np.array(bt["omin"]) - base.min(axis=0))
                    cause = "sample-set-without-original-minimum" if all(
                        vec_close(a, b, fl) for a, b in zip(at["rows"], shifted.tolist())) else "sample-set-changed-other"
            self.ctx.count("oracle_revert_checked_against_snapshot")
        if bad:
            self.viol("revert-restores", {"dim": bt["dim"], "cause": cause}, {"failed": str(bad)[:600]})
        self.base[t] = None
        self.token[t] = None
        self.taint[t] = False

    def moving_common(self, name, t, before, after):
        bt, at = before[t], after[t]
        if pairs(bt) != pairs(at):
            self.viol("multiset-preserved", {"op": name}, {"before": str(pairs(bt))[:300], "after": str(pairs(at))[:300]})
        if attrs_of(bt) != attrs_of(at):
            self.viol("attrs-carried", {"op": name, "n_indices": -1}, {"before": str(attrs_of(bt)), "after": str(attrs_of(at))})

    def op_shuffle(self, op, before):
        t = op["t"]
        bt = before[t]
        np.random.seed(op["seed"])
        try:
            self.objs[t].shuffle()
            ret, exc = "ok", None
        except Exception as e:  # noqa: BLE001
            ret, exc = "err " + err_kind(e), e
        mid = observe(self.objs[t])
        perm = None
        if exc is None and len(mid["rows"]) == len(bt["rows"]):
            # read the permutation back (identical pairs are interchangeable)
            used = [False] * len(bt["rows"])
            perm = []
            for r, l in zip(mid["rows"], mid["labels"]):
                for j in range(len(used)):
                    if not used[j] and bt["rows"][j] == r and bt["labels"][j] == l:
                        used[j] = True
                        perm.append(j)
                        break
            if len(perm) != len(used):
                perm = None
        if perm is None:
            if exc is not None:
                self.unexpected("shuffle", exc, bt, mid)
            else:
                self.viol("multiset-preserved", {"op": "shuffle"}, {"before": str(pairs(bt))[:300], "after": str(pairs(mid))[:300]})
            self.ok = False
            return
        after = self.finish_op("shuffle", before, {t}, ret, self.drv.ask("shuf %d %s" % (t, ivec(perm))))
        self.moving_common("shuffle", t, before, after)
        if self.base[t] is not None:
            self.base[t] = self.base[t][perm] if len(perm) else self.base[t]

    def boundary_order(self, t):
        """the order in which CPython iterates `set(rows with a minimum) | set(rows with a maximum)`, and whether the
        float comparison is ambiguous (a value within rounding distance of an extreme without being equal to it)"""
        ds = self.objs[t]
        vals = ds.get_data()[0]
        if vals.size == 0:
            return [], False
        mn, mx = vals.min(axis=0), vals.max(axis=0)
        amb = False
        for ext in (mn, mx):
            near = np.abs(vals - ext) <= 1e-11 * np.abs(vals).max(axis=0)
            if np.any(near & (vals != ext)):
                amb = True
        order = list(set(np.where(vals == mn)[0]) | set(np.where(vals == mx)[0]))
        return [int(x) for x in order], amb

    def op_move_boundaries_to_front(self, op, before):
        t = op["t"]
        bt = before[t]
        order, _ = self.boundary_order(t)
        shareV_before = set(self.shareV)
        try:
            self.objs[t].move_boundaries_to_front()
            ret, exc = "ok", None
        except Exception as e:  # noqa: BLE001
            ret, exc = "err " + err_kind(e), e
        after = self.finish_op("move_boundaries_to_front", before, {t}, ret, self.drv.ask("mb %d %s" % (t, ivec(order))))
        if exc is not None:
            self.unexpected("move_boundaries_to_front", exc, bt, after[t])
            return
        self.moving_common("move_boundaries_to_front", t, before, after)
        if sorted(order) != order:
            self.ctx.count("note_boundary_set_iterated_out_of_order")
        # a co-holder of the value array that saw the in-place permutation has its snapshot permuted alike
        for k in [t] + [k for k in range(len(before)) if (min(k, t), max(k, t)) in shareV_before and k != t
                        and after[k]["rows"] != before[k]["rows"]]:
            if self.base[k] is not None:
                b = self.base[k]
                for i, x in enumerate(order):
                    b[[i, x]] = b[[x, i]]

    def derived_common(self, name, t, before, parts_idx, after, part_rows_idx, n_indices=-1):
        """parts (new objects) of object t: attributes carried; snapshots inherited"""
        bt = before[t]
        for k, idx in zip(parts_idx, part_rows_idx):
            if attrs_of(after[k]) != attrs_of(bt):
                self.viol("attrs-carried", {"op": name, "n_indices": n_indices},
                          {"parent": str(attrs_of(bt)), "derived": str(attrs_of(after[k]))})
            self.base[k] = None if self.base[t] is None else self.base[t][idx]
            self.taint[k] = self.taint[t]
            self.token[k] = self.token[t]

    def split_generic(self, name, op, before, call, line_of, rows_idx_of):
        t = op["t"]
        bt = before[t]
        try:
            parts = list(call())
            exc = None
        except Exception as e:  # noqa: BLE001
            parts, exc = [], e
        n0 = len(self.objs)
        for p in parts:
            self.add_obj(p)
        ret = ("ids " + " ".join(str(n0 + k) for k in range(len(parts)))) if exc is None else "err " + err_kind(exc)
        if exc is None and not parts:
            ret = "ids "
        line = line_of(parts)
        after = self.finish_op(name, before, set(), ret.strip(), self.drv.ask(line).strip())
        if exc is not None:
            self.unexpected(name, exc, bt, after[t])
            return
        ids = list(range(n0, n0 + len(parts)))
        union = sorted(sum((pairs(after[k]) for k in ids), []))
        if union != pairs(bt):
            self.viol("multiset-preserved", {"op": name, "labels": label_kind(bt["labels"])},
                      {"parent": str(pairs(bt))[:300], "parts": str(union)[:300]})
        self.derived_common(name, t, before, ids, after, rows_idx_of(bt, [after[k] for k in ids]))

    def op_split_labels(self, op, before):
        t = op["t"]

        order = [float(x) for x in self.objs[t].get_labels()]  # the iteration order of `list(set(labels))`

        def line_of(parts):
            got = [len(set(float(x) for x in p.get_data()[1])) for p in parts]
            if parts and (len(got) != len(order) or any(g != 1 for g in got)):
                self.viol("multiset-preserved", {"op": "split_labels-mixed-part", "labels": label_kind(before[t]["labels"])},
                          {"distinct_labels_per_part": got, "order": order})
            return "sl %d %s" % (t, fvec(order))

        def idx_of(bt, parts):
            return [[i for i, l in enumerate(bt["labels"]) if l == j] for j in order[:len(parts)]]
        self.split_generic("split_labels", op, before, lambda: self.objs[t].split_labels(), line_of, idx_of)

    def op_split_without_labels(self, op, before):
        t = op["t"]

        def idx_of(bt, parts):
            return [[i for i, l in enumerate(bt["labels"]) if l == -1], [i for i, l in enumerate(bt["labels"]) if l >= 0]]
        self.split_generic("split_without_labels", op, before, lambda: self.objs[t].split_without_labels(),
                           lambda parts: "sw %d" % t, idx_of)
        if self.ok and len(self.objs) >= 2 and len(before) + 2 == len(self.objs):
            a, b = observe(self.objs[-2]), observe(self.objs[-1])
            if any(l != -1 for l in a["labels"]) or any(l < 0 for l in b["labels"]):
                self.viol("multiset-preserved", {"op": "split_without_labels-wrong-side"}, {"labelless": a["labels"], "labelled": b["labels"]})

    def op_split_pieces(self, op, before):
        t, p = op["t"], Fraction(op["p"])

        def idx_of(bt, parts):
            k = len(parts[0]["rows"])
            return [list(range(k)), list(range(k, len(bt["rows"])))]
        self.split_generic("split_pieces", op, before, lambda: self.objs[t].split_pieces(float(p)),
                           lambda parts: "sp %d %s" % (t, frac_str(p)), idx_of)
        if self.ok and len(before) + 2 == len(self.objs):
            a, b, bt = observe(self.objs[-2]), observe(self.objs[-1]), before[t]
            if a["rows"] + b["rows"] != bt["rows"] or a["labels"] + b["labels"] != bt["labels"]:
                self.viol("multiset-preserved", {"op": "split_pieces-order"}, {"parent": str(bt["rows"])[:200]})

    def op_remove_samples(self, op, before):
        t, idx = op["t"], [int(i) for i in op["idx"]]
        bt = before[t]
        n = len(bt["rows"])
        oob = any(i < 0 or i >= n for i in idx)
        arg = self.use_arg(self.buffer("list", list(idx))) if op.get("buf") else list(idx)
        try:
            res = self.objs[t].remove_samples(arg)
            exc = None
        except Exception as e:  # noqa: BLE001
            res, exc = None, e
        self.check_arg_unmodified("remove_samples", arg, list(idx))
        n0 = len(self.objs)
        if res is not None:
            self.add_obj(res)
        ret = ("id %d" % n0) if exc is None else "err " + err_kind(exc)
        after = self.finish_op("remove_samples", before, {t}, ret, self.drv.ask("rm %d %s" % (t, ivec(idx))))
        at = after[t]
        if oob:
            self.ctx.count("remove_out_of_range")
            if exc is None:
                self.viol("remove-oob-rejected", {"kind": "not-raised"}, {"n": n, "indices": idx})
            elif (bt["rows"], bt["labels"]) != (at["rows"], at["labels"]) or attrs_of(bt) != attrs_of(at):
                self.viol("remove-oob-rejected", {"kind": "data-modified"}, {"n": n, "indices": idx})
            return
        if exc is not None:
            self.unexpected("remove_samples", exc, bt, at, {"n_indices": min(len(idx), 2)})
            if self.base[t] is not None and len(at["rows"]) != n:
                self.base[t] = np.delete(self.base[t], idx, axis=0)
            return
        dup = len(set(idx)) != len(idx)
        if sorted(pairs(after[n0]) + pairs(at)) != pairs(bt):
            self.viol("remove-multiset", {"duplicate_indices": dup},
                      {"n": n, "indices": idx, "removed": len(after[n0]["rows"]), "kept": len(at["rows"])})
        got = list(zip(map(tuple, after[n0]["rows"]), after[n0]["labels"]))
        uniq = list(dict.fromkeys(idx))
        if got not in ([(tuple(bt["rows"][i]), bt["labels"][i]) for i in idx], [(tuple(bt["rows"][i]), bt["labels"][i]) for i in uniq]):
            self.viol("labels-attached", {"op": "remove_samples"}, {"indices": idx})
        if attrs_of(bt) != attrs_of(at):
            self.viol("attrs-carried", {"op": "remove_samples-kept", "n_indices": min(len(idx), 1)}, {})
        self.derived_common("remove_samples", t, before, [n0], after, [idx if len(got) == len(idx) else uniq],
                            n_indices=min(len(idx), 1))
        if self.base[t] is not None:
            self.base[t] = np.delete(self.base[t], idx, axis=0) if len(idx) else self.base[t]

    def op_remove_labels(self, op, before):
        t, p = op["t"], Fraction(op["p"])
        bt = before[t]
        pyrandom.seed(op["seed"])
        try:
            self.objs[t].remove_labels(float(p))
            ret, exc = "ok", None
        except Exception as e:  # noqa: BLE001
            ret, exc = "err " + err_kind(e), e
        mid = observe(self.objs[t])
        lab_idx = [i for i, l in enumerate(bt["labels"]) if l >= 0]
        unl_idx = [i for i, l in enumerate(bt["labels"]) if l == -1]
        idx = [k for k in range(len(lab_idx)) if k < len(mid["labels"]) and mid["labels"][k] == -1] if exc is None else []
        count = self.drv.ask("rlc %d %s" % (t, frac_str(p)))
        if exc is None and count != str(len(idx)) and not self.model_lost:
            self.corr("remove_labels/count", len(idx), count)
        if self.model_lost and not count.isdigit():
            count = str(len(idx))
        if exc is not None:
            idx = list(range(int(count)))  # the random choice does not matter when the operation raises before using it
        after = self.finish_op("remove_labels", before, {t}, ret, self.drv.ask("rl %d %s %s" % (t, frac_str(p), ivec(idx))))
        if exc is not None:
            self.unexpected("remove_labels", exc, bt, after[t])
            return
        at = after[t]
        if sorted(map(tuple, at["rows"])) != sorted(map(tuple, bt["rows"])) or attrs_of(at) != attrs_of(bt):
            self.viol("remove-labels-rows", {"labels": label_kind(bt["labels"])}, {"before": str(bt["rows"])[:200], "after": str(at["rows"])[:200]})
        if self.base[t] is not None and len(bt["rows"]):
            self.base[t] = self.base[t][lab_idx + unl_idx] if len(at["rows"]) == len(bt["rows"]) else None

    def concat_parts(self, ids, before):
        """operands that take part in the concatenation proper: an empty operand is skipped (the implementation returns
        the other operand itself); None if non-empty operands differ in dimension"""
        ne = [k for k in ids if len(before[k]["rows"]) > 0]
        if len(set(before[k]["dim"] for k in ne)) > 1:
            return None
        return ne

    def concat_oracle(self, name, ids, before, res_obs, exc, res_is_old):
        """ids: the operands in order (all live objects)"""
        part = self.concat_parts(ids, before)
        if part is None:
            return False  # different dimensions: outside the property (the implementation raises ValueError)
        obs = [before[k] for k in part]
        if not obs:
            # only empty operands: no exception, and the result is empty
            if exc is not None:
                self.viol("unexpected-exception", {"op": name, "exc": type(exc).__name__, "n_operands": len(ids), "all_empty": True},
                          {"message": str(exc)[:200]})
            elif res_obs["rows"]:
                self.viol("multiset-preserved", {"op": name}, {"want": "[]", "got": str(res_obs["rows"])[:300]})
            return False
        mismatch = len(set(repr(scaling_of(o)) for o in obs)) > 1
        first = obs[0] if obs else None
        if mismatch:
            self.ctx.count("concat_different_scalings")
            if exc is None:
                self.viol("concat-refuses-mismatch", {"outcome": "accepted", "op": name},
                          {"scalings": [str(scaling_of(o))[:150] for o in obs][:3]})
            return False
        self.ctx.count("concat_same_scalings")
        if exc is not None:
            if first is None:
                self.viol("unexpected-exception", {"op": name, "exc": type(exc).__name__, "n_operands": 0}, {"message": str(exc)[:200]})
                return False
            flat_mismatch = len(set(o["flat"] for o in obs)) > 1
            self.unexpected(name, exc, first, first, {"flat_mismatch": flat_mismatch, "n_operands": min(len(ids), 3)})
            return False
        want_rows = sum((o["rows"] for o in obs), [])
        want_labels = sum((o["labels"] for o in obs), [])
        if res_obs["rows"] != want_rows or (want_rows and res_obs["labels"] != want_labels):
            self.viol("multiset-preserved", {"op": name}, {"want": str(want_rows)[:300], "got": str(res_obs["rows"])[:300]})
        if first is not None and not res_is_old and attrs_of(res_obs) != attrs_of(first):
            self.viol("attrs-carried", {"op": name, "n_indices": -1}, {"first": str(attrs_of(first)), "result": str(attrs_of(res_obs))})
        return True

    def concat_finish(self, name, ids, before, res, exc, line):
        n0 = len(self.objs)
        where = None
        if exc is None:
            for k, o in enumerate(self.objs):
                if o is res:
                    where = k
            if where is None:
                self.add_obj(res)
                where = n0
        ret = ("id %d" % where) if exc is None else "err " + err_kind(exc)
        after = self.finish_op(name, before, set(), ret, self.drv.ask(line))
        same = self.concat_oracle(name, ids, before, after[where] if exc is None else None, exc, where is not None and where < n0)
        if exc is None and where == n0:
            part = self.concat_parts(ids, before) or []
            ne = [k for k in part if len(before[k]["rows"]) > 0]
            bs = [self.base[k] for k in ne]
            # the snapshots can be joined only if the operands are images under ONE affine map (same scaling history);
            # equal range and factor do not imply that (the original minima may differ)
            one_map = same and bs and all(b is not None for b in bs) and len(set(self.token[k] for k in ne)) == 1 \
                and part and self.token[part[0]] == self.token[ne[0]]
            self.base[n0] = np.concatenate(bs, axis=0) if one_map else None
            self.token[n0] = self.token[ne[0]] if one_map else None
            self.taint[n0] = any(self.taint[k] for k in part) or not same

    def op_concatenate(self, op, before):
        i, j = op["i"], op["j"]
        try:
            res, exc = self.objs[i].concatenate(self.objs[j]), None
        except Exception as e:  # noqa: BLE001
            res, exc = None, e
        self.concat_finish("concatenate", [i, j], before, res, exc, "cc %d %d" % (i, j))

    def op_list_concatenate(self, op, before):
        ids = op["ids"]
        try:
            res, exc = self.DataSet.list_concatenate([self.objs[k] for k in ids]), None
        except Exception as e:  # noqa: BLE001
            res, exc = None, e
        self.concat_finish("list_concatenate", ids, before, res, exc, "lc %s" % ivec(ids))

    def op_copy(self, op, before):
        """objs[t].copy(): a second holder of the same arrays and attribute objects"""
        t = op["t"]
        try:
            res, exc = self.objs[t].copy(), None
        except Exception as e:  # noqa: BLE001
            res, exc = None, e
        n0 = len(self.objs)
        if exc is None:
            self.add_obj(res, None if self.base[t] is None else self.base[t].copy(), self.taint[t])
            self.token[n0] = self.token[t]
            self.vsplit[n0] = self.vsplit[t]
        after = self.finish_op("copy", before, set(), ("id %d" % n0) if exc is None else "err " + err_kind(exc), self.drv.ask("cp %d" % t))
        if exc is not None:
            self.unexpected("copy", exc, before[t], before[t])
        elif pairs(after[n0]) != pairs(before[t]) or attrs_of(after[n0]) != attrs_of(before[t]):
            self.viol("multiset-preserved", {"op": "copy"}, {"source": str(pairs(before[t]))[:300], "copy": str(pairs(after[n0]))[:300]})

    def op_rebuild(self, op, before):
        """DataSet(objs[t].get_data()): a new, attribute-less set on the arrays of objs[t]"""
        t = op["t"]
        try:
            res, exc = self.DataSet(self.objs[t].get_data()), None
        except Exception as e:  # noqa: BLE001
            res, exc = None, e
        n0 = len(self.objs)
        if exc is None:
            self.add_obj(res)
            self.vsplit[n0] = self.vsplit[t]
        after = self.finish_op("rebuild", before, set(), ("id %d" % n0) if exc is None else "err " + err_kind(exc), self.drv.ask("mk %d" % t))
        if exc is None and pairs(after[n0]) != pairs(before[t]):
            self.viol("multiset-preserved", {"op": "rebuild"}, {"source": str(pairs(before[t]))[:300], "new": str(pairs(after[n0]))[:300]})

    def op_same_scaling(self, op, before):
        i, j = op["i"], op["j"]
        try:
            ret = "true" if bool(self.objs[i].same_scaling(self.objs[j])) else "false"
        except Exception as e:  # noqa: BLE001
            ret = "err " + err_kind(e)
        model = self.drv.ask("ss %d %d" % (i, j))
        if ret != model:
            # equal in exact arithmetic but not in floating point (or vice versa): not a disagreement
            a, b = before[i], before[j]
            prs = []
            for fa, fb in ((a["range"], b["range"]), (a["fac"], b["fac"])):
                if fa is not None and fb is not None and fa[0] == fb[0]:
                    for va, vb in zip(fa[1:], fb[1:]):
                        prs += list(zip(va, vb)) if isinstance(va, list) else [(va, vb)]
            if any(x != y and close(x, y) for x, y in prs):
                self.ctx.count("skipped_float_ambiguous_same_scaling")
                return
        self.finish_op("same_scaling", before, set(), ret, model)


# ------------------------------------------------------------------------------------------------ generation
VALS = [Fraction(k, 4) for k in range(-8, 9)]
FACS = [Fraction(2), Fraction(1, 2), Fraction(4), Fraction(1, 4), Fraction(3), Fraction(3, 2), Fraction(-1), Fraction(-2),
        Fraction(-1, 2), Fraction(3, 4)]
SHIFTS = [Fraction(k, 4) for k in range(-16, 17) if k != 0]
RANGES = [(0, 1), (0, 1), (0, 1), (-1, 1), (0, 2), (Fraction(1, 4), Fraction(3, 4)), (Fraction(1, 8), Fraction(7, 8)), (-2, -1), (3, 5)]
PCTS = [Fraction(k, 8) for k in range(0, 9)] + [Fraction(1, 2), Fraction(3, 2), Fraction(-1, 2), Fraction(5, 16), Fraction(2)]


def ill_conditioned(vals):
    """two distinct values of a column closer than 1e-7 of the column's magnitude (sets of very different magnitude were
    concatenated): floating point would merge or split ties that exact arithmetic keeps apart -- not a decision point
    on which model and implementation can be compared"""
    if vals.size == 0 or vals.ndim != 2:
        return False
    for k in range(vals.shape[1]):
        u = np.unique(vals[:, k])
        if len(u) > 1 and np.min(np.diff(u)) < 1e-7 * np.max(np.abs(u)):
            return True
    return False


def gen_set(r, dim, n, extreme=None):
    if n == 0:
        return [], []
    few = r.random() < 0.5
    pool = r.sample(VALS, 3) if few else VALS
    rows = [[float(r.choice(pool)) for _ in range(dim)] for _ in range(n)]
    if r.random() < 0.2:
        k = r.randrange(dim)
        c = float(r.choice(VALS))
        for row in rows:
            row[k] = c
    x = r.random()
    if extreme is not None:
        # scale extremes (all dyadic, exact): tiny / huge units, data far from the origin relative to its extent;
        # one unit and offset for all sets of a history (sets of different magnitude cannot be compared in floats)
        e, off = extreme
        rows = [[(v + off) * 2.0 ** e for v in row] for row in rows]
    elif x < 0.30:
        # every dimension in its own unit (a value of dimension 0 used for dimension k shows)
        mult = [2.0 ** r.randint(-3, 3) for _ in range(dim)]
        shift = [float(r.choice([0, 0, 8, -16])) for _ in range(dim)]
        rows = [[v * mult[k] + shift[k] for k, v in enumerate(row)] for row in rows]
    style = r.random()
    if style < 0.35:
        labs = [r.choice([0, 1, 2]) for _ in range(n)]
    elif style < 0.45:
        labs = [-1] * n
    elif style < 0.55:
        labs = [r.choice([0, 3])] * n
    elif style < 0.80:
        labs = [r.choice([-1, 0, 1, 2]) for _ in range(n)]
    elif style < 0.92:
        # labels that are not whole numbers: regression targets / user float labels (>= 0, and the marker -1)
        labs = [r.choice([-1, 0, 0.5, 1.25, 2.75, 2, 0.5]) for _ in range(n)]
    else:
        # labels strictly between the marker -1 and 0: the weighted one-vs-others labels, negative targets
        labs = [r.choice([-1, -0.5, -0.75, -0.25, 1, 0.5, 0]) for _ in range(n)]
    return rows, labs


def gen_size(r, thorough):
    x = r.random()
    if x < 0.04:
        return 0
    if x < 0.12:
        return 1
    if x < 0.6:
        return r.randint(2, 6)
    if thorough and x > 0.995:
        return r.randint(200, 300)
    return r.randint(7, 40 if thorough else 24)


def gen_fac(r, dim, table, allow_zero):
    x = r.random()
    if allow_zero and x < 0.02:
        return "0"
    if x < 0.55 or dim == 0:
        return str(r.choice(table))
    if x < 0.97 or dim < 2:
        return [str(r.choice(table)) for _ in range(dim)]
    m = r.choice([dim + 1, dim - 1] if dim >= 3 else [dim + 1])
    return [str(r.choice(table)) for _ in range(m)]


def gen_op(r, h):
    """draw one operation for the current pool (parameters depend on the implementation's current state)"""
    n_obj = len(h.objs)
    full = n_obj >= MAX_POOL
    lens = [o.get_length() for o in h.objs]
    nonempty = [k for k in range(n_obj) if lens[k] > 0]

    def target():
        if nonempty and r.random() < 0.9:
            return r.choice(nonempty)
        return r.randrange(n_obj)
    table = [("scale_range", 14), ("scale_factor", 9), ("shift_value", 9), ("revert_scaling", 11), ("shuffle", 6),
             ("move_boundaries_to_front", 8), ("remove_labels", 4), ("same_scaling", 4), ("queries", 5)]
    if not full:
        table += [("split_labels", 5), ("split_without_labels", 4), ("split_pieces", 8), ("remove_samples", 9),
                  ("concatenate", 10), ("list_concatenate", 3), ("copy", 5), ("rebuild", 2)]
    name = r.choices([a for a, _ in table], [b for _, b in table])[0]
    t = target()
    ds = h.objs[t]
    vals = ds.get_data()[0]
    dim = ds.get_dim()
    ov = r.random() < 0.25
    if name in ("scale_factor", "shift_value", "revert_scaling") and vals.size:
        # keep magnitudes moderate so that exact and floating-point evaluation stay within the tolerance
        mag = float(np.max(np.abs(vals)))
        rng_ = vals.max(axis=0) - vals.min(axis=0)
        small = float(np.min(rng_[rng_ > 0])) if np.any(rng_ > 0) else 1.0
        if mag > 5e2 or small < 1e-2:
            name = r.choice(["scale_range", "revert_scaling"]) if ds.is_scaled() else "scale_range"
    if name in ("scale_range", "scale_factor", "shift_value", "revert_scaling", "move_boundaries_to_front") and ill_conditioned(vals):
        h.ctx.count("skipped_float_ambiguous_ill_conditioned")
        return {"op": "queries", "t": t, "toggle": False}
    if name == "revert_scaling":
        f = ds.get_scaling_factor()
        if isinstance(f, np.ndarray) and np.any(f == 0):
            name = "scale_range"  # an ndarray factor with a zero component: 1/f is inf, not modelled
            ov = True
        elif not ds.is_scaled() and r.random() < 0.8:
            name = "scale_range"
    if name == "scale_range":
        if vals.size:
            rng_ = vals.max(axis=0) - vals.min(axis=0)
            if np.any((rng_ > 0) & (rng_ < 1e-9 * np.abs(vals).max(axis=0))):
                h.ctx.count("skipped_float_ambiguous_constant_column")
                return {"op": "same_scaling", "i": t, "j": t}
        lo, hi = r.choice(RANGES)
        if r.random() < 0.04:
            lo, hi = r.choice([(1, 0), (1, 1), (Fraction(1, 2), Fraction(-1, 2))])
        return {"op": name, "t": t, "lo": str(Fraction(lo)), "hi": str(Fraction(hi)), "ov": ov, "as_list": r.random() < 0.2}
    if name == "queries":
        return {"op": name, "t": t, "toggle": r.random() < 0.3}
    if name in ("scale_factor", "shift_value"):
        op = {"op": name, "t": t, "f": gen_fac(r, dim, FACS if name == "scale_factor" else SHIFTS, name == "scale_factor"), "ov": ov,
              "ftype": r.choice(["float", "float", "np64", "int"]), "buf": r.random() < 0.5}
        if op["f"] == "0":
            op["ftype"] = "float"   # 1.0 / np.float64(0) is inf instead of ZeroDivisionError: not modelled
        if dim >= 1 and r.random() < 0.15:
            # an array another live object hands out is fed back as the argument (pre-conditioned input)
            cands = []
            for j, o in enumerate(h.objs):
                g = o.get_scaling_factor() if name == "scale_factor" else o.get_original_min()
                if isinstance(g, np.ndarray) and g.shape == (dim,) and np.all(np.isfinite(g)):
                    g = g if name == "scale_factor" else -g
                    if name == "shift_value" or (np.all(np.abs(g) > 1e-2) and np.all(np.abs(g) < 1e2)):
                        if np.all(np.abs(g) < 1e3):
                            cands.append((j, g))
            if cands:
                j, g = r.choice(cands)
                op["f"] = [frac_str(float(x)) for x in g]
                op["from"] = ["fac" if name == "scale_factor" else "omin", j]
        return op
    if name == "revert_scaling":
        return {"op": name, "t": t}
    if name == "shuffle":
        return {"op": name, "t": t, "seed": r.randrange(2 ** 31)}
    if name == "move_boundaries_to_front":
        _, amb = h.boundary_order(t)
        if amb:
            h.ctx.count("skipped_float_ambiguous_extreme_tie")
            return {"op": "same_scaling", "i": t, "j": t}
        return {"op": name, "t": t}
    if name in ("split_labels", "split_without_labels", "copy", "rebuild"):
        return {"op": name, "t": t}
    if name == "split_pieces":
        return {"op": name, "t": t, "p": str(r.choice(PCTS))}
    if name == "remove_labels":
        return {"op": name, "t": t, "p": str(r.choice(PCTS)), "seed": r.randrange(2 ** 31)}
    if name == "remove_samples":
        n = lens[t]
        x = r.random()
        if x < 0.08:
            idx = []
        elif x < 0.80 and n > 0:
            idx = r.sample(range(n), r.randint(1, min(n, 4)))
            if r.random() < 0.3:
                idx.sort()
        elif x < 0.85 and n > 0:
            idx = r.sample(range(n), r.randint(1, min(n, 3)))
            idx.append(r.choice(idx))
        elif x < 0.91:
            idx = (r.sample(range(n), r.randint(0, min(n, 2))) if n else []) + [n]
            r.shuffle(idx)
        elif x < 0.96:
            idx = (r.sample(range(n), r.randint(0, min(n, 2))) if n else []) + [n + r.randint(1, 3)]
            r.shuffle(idx)
        else:
            idx = (r.sample(range(n), r.randint(0, min(n, 2))) if n else []) + [-r.randint(1, 3)]
            r.shuffle(idx)
        return {"op": name, "t": t, "idx": idx, "buf": r.random() < 0.5}
    if name == "concatenate":
        same_dim = [k for k in range(n_obj) if h.objs[k].get_dim() == dim]
        j = r.choice(same_dim) if r.random() < 0.85 else r.randrange(n_obj)
        return {"op": name, "i": t, "j": j}
    if name == "list_concatenate":
        same_dim = [k for k in range(n_obj) if h.objs[k].get_dim() == dim]
        k = r.choice([0, 1, 2, 2, 3, 4])
        return {"op": name, "ids": [r.choice(same_dim) if r.random() < 0.9 else r.randrange(n_obj) for _ in range(k)]}
    return {"op": "same_scaling", "i": t, "j": r.randrange(n_obj)}


def run_history(ctx, drv, thorough, case=None):
    r = ctx.rng
    h = Hist(ctx, drv)
    if case is None:
        dim = r.choice([1, 1, 2, 2, 2, 3, 3, 4])
        extreme = (r.choice([-1, 1]) * r.randint(8, 40), r.choice([-1, 0, 1, 1]) * 2.0 ** 13) if r.random() < 0.2 else None
        for k in range(r.choice([1, 1, 2, 2, 3])):
            d = dim if r.random() < 0.9 else r.choice([1, 2, 3, 4])
            n = gen_size(r, thorough)
            rows, labs = gen_set(r, d, n, extreme)
            h.new_set(rows, labs, "reg" if r.random() < 0.15 else "ds", "ndarray" if r.random() < 0.5 else "tuple",
                      r.choice(["int64", "int64", "float64", "float64", "int32", "float32"]))
            ctx.count("size_%s" % ("0" if n == 0 else "1" if n == 1 else "2-6" if n <= 6 else "7+"))
            ctx.count("dim_%d" % d)
        nops = r.randint(1, 25)
        for _ in range(nops):
            if not h.ok:
                break
            h.run(gen_op(r, h))
    else:
        for s in case["init"]:
            h.new_set([[float(Fraction(x)) for x in row] for row in s["rows"]], [float(Fraction(str(l))) for l in s["labels"]],
                      s.get("cls", "ds"), s.get("route", "tuple"), s.get("ldtype", "int64"))
        for op in case["ops"]:
            if not h.ok:
                break
            h.run(dict(op))
    h.finish_history()
    return h


def run(ctx):
    thorough = ctx.tier == "thorough"
    ctx.rule = ("random histories of <= 25 DataSet operations on a pool of live objects (1-3 initial sets of size 0, 1, 2-40, dim 1-4, "
                "dyadic values on a coarse grid so that extremes are tied, constant columns, with/without unlabelled samples, labels "
                "as int64 / int32 / float64 / float32 arrays holding whole numbers, non-integers >= 0 or values between -1 and 0; every "
                "set returned by an operation joins the pool); operations: scale_range / scale_factor / shift_value (with and "
                "without override, scalar and per-dimension arguments, a few invalid ones), revert_scaling, shuffle, "
                "move_boundaries_to_front, copy() and DataSet(ds.get_data()) (second holders of the same arrays), "
                "split_labels / split_pieces / split_without_labels, remove_samples (valid, duplicate, "
                "== length, beyond, negative indices), remove_labels, concatenate, list_concatenate, same_scaling; model and "
                "implementation compared after every operation on every live object; further: DataSetRegression and values-only "
                "construction, scalar arguments as float / numpy float64 / int, array arguments in reused buffers or taken from "
                "another object's getters, repeated read-only queries, scale extremes, per-dimension units; the oracle also checks that "
                "no operation writes into arrays of the caller (constructor arguments, arrays handed out by get_data(), operation "
                "arguments) and that overwriting the caller's argument objects afterwards changes no data set; after a disagreement "
                "with the model a history goes on with the oracle alone; one case = one history, distinct by "
                "(initial sets, operation list), non-trivial if it has at least 2 operations")
    ctx.assumptions = [
        "floating-point rounding is not modelled: the model computes in exact rationals on dyadic inputs, values are compared at 1e-9; "
        "decision points that are ambiguous in floating point (a value within 1e-9 of a column extreme without being equal, a "
        "near-constant column, factors equal up to rounding) are skipped and counted (histogram skipped_float_ambiguous_*); "
        "magnitudes are kept in [1e-2, 5e2]",
        "random choices of the implementation (shuffle permutation, remove_labels sample) and CPython set iteration orders "
        "(move_boundaries_to_front, split_labels) are inputs of the model; the driver checks that they are a permutation / an "
        "enumeration of the boundary rows / of the labels / the right number of distinct labelled positions",
        "not modelled: split_one_vs_others, plotting, density estimation; numpy broadcasting of a length-1 factor array "
        "or of an array onto 1-dimensional data; an ndarray factor with a zero component or a numpy-float zero factor "
        "(revert gives inf/nan) is never reverted",
        "revert_scaling of a derived set (part, removal, concatenation of parts) is checked against the snapshot of ITS samples; the "
        "predictable failure for a set without the sample holding the original minimum is tagged cause=sample-set-without-original-minimum",
        "sets of one history share one unit/offset (2^-40..2^40, offset 2^13 units); operations whose float outcome depends on "
        "distinguishing values closer than 1e-7 of the column magnitude (after concatenating sets of different magnitude) are skipped",
    ]
    ctx.extra["validated_only"] = [
        "restoration by revert_scaling when shuffle / move_boundaries_to_front / remove_labels happen between the scalings",
        "remove_labels keeps the multiset of sample rows and the attributes",
        "the Pool bookkeeping of object identity (which objects share a factor / label array) is tied by correspondence only",
    ]
    drv = ctx.driver("drv_c18")
    n = 3000 if not thorough else 30000
    n_min = 1200 if not thorough else 6000   # enforced even on a loaded machine
    budget = 70 if not thorough else 500
    for k in range(n):
        if k >= n_min and ctx.time_left(budget) < 0:
            break
        h = run_history(ctx, drv, thorough)
        ctx.count("history_len_%s" % ("1-5" if len(h.case["ops"]) <= 5 else "6-15" if len(h.case["ops"]) <= 15 else "16-25"))
        ctx.case(h.case, nontrivial=len(h.case["ops"]) >= 2, sample=h.case if k < 2 else None)
        # a disagreement with the model is not yet a failing input: keep searching until the oracle has found some
        if (not h.ok or h.corr_seen) and (len(ctx.violations) >= ctx.max_reports or
                                          (ctx.violations and len(ctx.corr_breaks) >= ctx.max_reports)):
            break


def replay(ctx, rp):
    drv = ctx.driver("drv_c18")
    h = run_history(ctx, drv, True, rp["case"])
    clean = h.ok and not ctx.known_hits
    print("replay: %s" % ("property holds and model agrees on this case" if clean else "REPRODUCED"))
    for fid, (f, n) in sorted(ctx.known_hits.items()):
        print("  known finding:", fid, "x%d" % n, "-", f["what"])
    for v in ctx.violations[:3]:
        print("  violation:", v["probe"], v["tags"], v["detail"])
    for c in ctx.corr_breaks[:3]:
        print("  disagreement:", c["observable"], c["detail"])
    for d in ctx._drivers:
        d.close()
    return 0 if clean else 1
