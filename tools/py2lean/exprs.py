"""Expression translation (syntax-directed, type-dispatched) of the Python subset to Lean terms."""
import ast
import re
from pytypes import (T, TVar, TInt, TBool, TRat, TUnit, TList, TSet, TArr, TDict, TProd, TOpt, TObj,
                     unify, kind, is_mutable, Unsupported)

LEAN_KEYWORDS = {"at", "from", "end", "fun", "open", "in", "do", "then", "else", "if", "let", "have", "show", "by", "match",
                 "with", "where", "def", "theorem", "namespace", "section", "variable", "universe", "import", "instance",
                 "structure", "class", "inductive", "deriving", "mutual", "private", "protected", "partial", "unsafe",
                 "noncomputable", "macro", "syntax", "notation", "infix", "prefix", "postfix", "abbrev", "example", "axiom",
                 "opaque", "set_option", "attribute", "export", "extends", "for", "return", "unless", "try", "catch", "finally",
                 "mut", "nomatch", "nofun", "calc", "suffices", "obtain", "Type", "Prop", "Sort", "sorry", "admit", "using",
                 "termination_by", "decreasing_by", "local", "scoped", "omit", "include", "hiding", "renaming", "st"}


def ident(name):
    return "«%s»" % name if name in LEAN_KEYWORDS else name


def int_lit(n):
    return "(%d : Int)" % n


class ExprMixin:
    """needs: self.env (name -> T), self.mod (Module), self.fn, self.tref(T) -> placeholder"""

    # ------------------------------------------------------------------ helpers
    def var_type(self, name, node):
        if name not in self.env:
            raise Unsupported("name %r is read before it is assigned (or is an unknown global)" % name, node)
        return self.env[name]

    def coerce(self, s, tf, tt, node, what=""):
        kf, kt = kind(tf), kind(tt)
        if kf == "int" and kt == "rat":
            return "((%s : Int) : Rat)" % s
        if kt == "opt" and kf not in ("opt", "var"):      # a value where an optional value is expected
            unify(tf, tt.find().args[0], node, what)
            return "(some %s)" % s
        if {kf, kt} == {"arr", "list"}:
            unify(tf.find().args[0], tt.find().args[0], node, what)
            return s
        unify(tf, tt, node, what)
        return s

    def resolve_record(self, t, member, node):
        """a value of still unknown type on which `.member` is used: the declared record class that has this member"""
        if kind(t) != "var":
            return
        cands = [n for n, r in self.mod.records.items() if member in dict(r["fields"]) or member in r["getters"]]
        if len(cands) == 1:
            unify(t, TObj(cands[0]), node, "receiver of .%s" % member)

    def need(self, t, kinds, node, what):
        k = kind(t)
        if k == "var":
            raise Unsupported("cannot determine the type of %s (needed to select the operation)" % what, node)
        if k not in kinds:
            raise Unsupported("%s has type %r, expected one of %s" % (what, t, "/".join(kinds)), node)
        return k

    def numeric_join(self, a, ta, b, tb, node):
        if kind(ta) == "bool":                      # a bool used as a number (True = 1)
            a, ta = "(PyRt.boolToInt %s)" % a, TInt
        if kind(tb) == "bool":
            b, tb = "(PyRt.boolToInt %s)" % b, TInt
        ka = self.need(ta, ("int", "rat"), node, "left operand")
        kb = self.need(tb, ("int", "rat"), node, "right operand")
        if ka == kb:
            return a, b, (TInt if ka == "int" else TRat)
        return self.coerce(a, ta, TRat, node), self.coerce(b, tb, TRat, node), TRat

    # ------------------------------------------------------------------ expressions
    def ex(self, e):
        m = getattr(self, "ex_" + type(e).__name__, None)
        if m is None:
            raise Unsupported("unsupported expression node %s" % type(e).__name__, e)
        return m(e)

    def ex_Constant(self, e):
        v = e.value
        if v is None:
            return "none", TOpt(TVar())
        if v is True:
            return "true", TBool
        if v is False:
            return "false", TBool
        if isinstance(v, int):
            return int_lit(v), TInt
        if isinstance(v, float) and v == int(v):
            return "((%d : Int) : Rat)" % int(v), TRat
        if isinstance(v, float):
            from fractions import Fraction
            q = Fraction(str(v))          # the decimal literal of the source, exactly
            return "(((%d : Int) : Rat) / ((%d : Int) : Rat))" % (q.numerator, q.denominator), TRat
        raise Unsupported("unsupported constant %r" % (v,), e)

    def ex_Name(self, e):
        return ident(e.id), self.var_type(e.id, e)

    def ex_Attribute(self, e):
        u = ast.unparse(e)
        if u in self.mod.read_attrs:
            sig = self.mod.read_attrs[u]
            return "(F.%s self.%s)" % (ident(sig["name"]), ident(self.mod.spec["world"])), sig["ret"]
        if isinstance(e.value, ast.Name) and e.value.id == "self" and self.fn.is_method:
            if e.attr not in self.mod.fields:
                raise Unsupported("attribute self.%s is %s" % (e.attr, "not declared in the spec (fields) of this slice"
                                                                if "fields" in self.mod.spec else "never assigned in the class"), e)
            return "self.%s" % ident(e.attr), self.mod.fields[e.attr]
        s, t = self.ex(e.value)
        self.resolve_record(t, e.attr, e)
        if kind(t) == "obj" and t.find().name in self.mod.records:
            fields = dict(self.mod.records[t.find().name]["fields"])
            if e.attr in fields:
                return "%s.%s" % (s, ident(e.attr)), fields[e.attr]
            raise Unsupported("attribute .%s is not declared for the record class %s" % (e.attr, t.find().name), e)
        if kind(t) == "obj":
            for o in self.mod.objects.values():
                if o["lean_type"] == t.find().name and e.attr in o.get("field_types", {}):
                    return "%s.%s" % (s, ident(e.attr)), o["field_types"][e.attr]
        if kind(t) == "obj" and t.find().name.startswith("PyRt.") and t.find().name[5:] in self.mod.ext_classes:
            fields = dict(self.mod.ext_classes[t.find().name[5:]])
            if e.attr in fields:
                return "%s.%s" % (s, ident(e.attr)), fields[e.attr]
        raise Unsupported("unsupported attribute access .%s" % e.attr, e)

    def ex_UnaryOp(self, e):
        if isinstance(e.op, ast.USub):
            if isinstance(e.operand, ast.Constant) and isinstance(e.operand.value, int) and not isinstance(e.operand.value, bool):
                return int_lit(-e.operand.value), TInt
            s, t = self.ex(e.operand)
            self.need(t, ("int", "rat"), e, "operand of unary minus")
            return "(-%s)" % s, t
        if isinstance(e.op, ast.Not):
            s, t = self.ex(e.operand)
            unify(t, TBool, e, "operand of `not`")
            return "(!%s)" % s, TBool
        raise Unsupported("unsupported unary operator %s" % type(e.op).__name__, e)

    def ex_BoolOp(self, e):
        op = "&&" if isinstance(e.op, ast.And) else "||"
        parts = []
        for v in e.values:
            s, t = self.ex(v)
            unify(t, TBool, v, "operand of and/or")
            parts.append(s)
        return "(" + (" %s " % op).join(parts) + ")", TBool

    def ex_IfExp(self, e):
        c, tc = self.ex(e.test)
        unify(tc, TBool, e, "condition")
        a, ta = self.ex(e.body)
        b, tb = self.ex(e.orelse)
        if {kind(ta), kind(tb)} == {"int", "rat"}:          # `x if c else 1`: the int branch is the same number as a float
            a, b, ta = self.numeric_join(a, ta, b, tb, e)
            tb = ta
        unify(ta, tb, e, "branches of conditional expression")
        return "(if %s then %s else %s)" % (c, a, b), ta

    def ex_BinOp(self, e):
        a, ta = self.ex(e.left)
        b, tb = self.ex(e.right)
        return self.binop(e.op, a, ta, b, tb, e)

    def binop(self, op, a, ta, b, tb, node):
        o = type(op).__name__
        ka, kb = kind(ta), kind(tb)
        if "var" in (ka, kb):
            raise Unsupported("cannot determine operand types of binary %s" % o, node)
        if o in ("Add", "Sub", "Mult"):
            sym = {"Add": "+", "Sub": "-", "Mult": "*"}[o]
            if ka in ("int", "rat", "bool") and kb in ("int", "rat", "bool") and (ka, kb) != ("bool", "bool"):
                a, b, t = self.numeric_join(a, ta, b, tb, node)
                return "(%s %s %s)" % (a, sym, b), t
            if o == "Add" and ka == "list" and kb == "list":
                unify(ta, tb, node, "list concatenation")
                return "(%s ++ %s)" % (a, b), ta
            if ka == "arr" and kb == "arr" and o in ("Add", "Sub"):
                unify(ta, tb, node, "array arithmetic")
                unify(ta.find().args[0], TInt, node, "array arithmetic")
                return "(PyRt.%s %s %s)" % ("arrAdd" if o == "Add" else "arrSub", a, b), ta
            if ka == "arr" and kb == "int" and o in ("Add", "Mult"):
                unify(ta.find().args[0], TInt, node, "array arithmetic")
                return "(PyRt.%s %s %s)" % ("arrShift" if o == "Add" else "arrScale", a, b), ta
            if ka == "int" and kb == "arr" and o in ("Add", "Mult"):
                unify(tb.find().args[0], TInt, node, "array arithmetic")
                return "(PyRt.%s %s %s)" % ("arrShift" if o == "Add" else "arrScale", b, a), tb
        if o == "Pow" and ka == "rat" and kb == "int" and re.fullmatch(r"\((\d+) : Int\)", b):
            return "(%s ^ (%s : Nat))" % (a, re.fullmatch(r"\((\d+) : Int\)", b).group(1)), TRat
        if o == "Pow" and ka == "rat" and kb == "int":      # float ** int: a negative exponent is the reciprocal power
            return ("(if (decide ((0 : Int) ≤ %s)) then (%s ^ (Int.toNat %s)) else ((((1 : Int) : Int) : Rat) / (%s ^ (Int.toNat (-%s)))))"
                    % (b, a, b, a, b)), TRat
        if o in ("Mod", "FloorDiv", "Pow") and ka == "int" and kb == "int":
            f = {"Mod": "mod", "FloorDiv": "floorDiv", "Pow": "pow"}[o]
            return "(PyRt.%s %s %s)" % (f, a, b), TInt
        if o == "Div":
            if ka == "int" and kb == "int":
                return "(PyRt.trueDiv %s %s)" % (a, b), TRat
            if ka in ("int", "rat") and kb in ("int", "rat"):
                a, b, _ = self.numeric_join(a, ta, b, tb, node)
                return "(%s / %s)" % (a, b), TRat
        if o == "BitOr" and ka == "set" and kb == "set":
            unify(ta, tb, node, "set union")
            return "(PyRt.setUnion %s %s)" % (a, b), ta
        raise Unsupported("unsupported binary operation %s on %r and %r" % (o, ta, tb), node)

    def ex_Compare(self, e):
        parts = []
        left, tl = self.ex(e.left)
        for op, rn in zip(e.ops, e.comparators):
            right, tr = self.ex(rn)
            parts.append(self.compare(op, left, tl, right, tr, e))
            left, tl = right, tr
        return (parts[0] if len(parts) == 1 else "(" + " && ".join(parts) + ")"), TBool

    def compare(self, op, a, ta, b, tb, node):
        o = type(op).__name__
        if o in ("Lt", "LtE", "Gt", "GtE"):
            a, b, _ = self.numeric_join(a, ta, b, tb, node)
            sym = {"Lt": "<", "LtE": "≤", "Gt": ">", "GtE": "≥"}[o]
            return "(decide (%s %s %s))" % (a, sym, b)
        if o in ("Eq", "NotEq"):
            if kind(ta) in ("int", "rat") and kind(tb) in ("int", "rat"):
                a, b, _ = self.numeric_join(a, ta, b, tb, node)
            else:
                unify(ta, tb, node, "operands of ==")
            return "(%s %s %s)" % (a, "==" if o == "Eq" else "!=", b)
        if o in ("In", "NotIn"):
            k = self.need(tb, ("set", "list", "dict"), node, "right operand of `in`")
            if k == "dict":
                unify(ta, tb.find().args[0], node, "key of `in`")
                s = "(PyRt.dictContains %s %s)" % (b, a)
            else:
                unify(ta, tb.find().args[0], node, "element of `in`")
                s = "(List.contains %s %s)" % (b, a)
            return s if o == "In" else "(!%s)" % s
        if o in ("Is", "IsNot") and (a == "none" or b == "none"):
            x, tx = (b, tb) if a == "none" else (a, ta)
            if kind(tx) == "opt":
                return "(Option.isNone %s)" % x if o == "Is" else "(Option.isSome %s)" % x
            if kind(tx) != "var":
                return ("false" if o == "Is" else "true")          # a value of a non-optional type is never None
        raise Unsupported("unsupported comparison %s" % o, node)

    def ex_List(self, e):
        te = TVar()
        parts = []
        for x in e.elts:
            if isinstance(x, ast.Starred):
                raise Unsupported("starred element in list literal", x)
            s, t = self.ex(x)
            unify(t, te, x, "list literal elements")
            parts.append(s)
        return "[" + ", ".join(parts) + "]", TList(te)

    def ex_Tuple(self, e):
        items = [self.ex(x) for x in e.elts]
        if len(items) < 2:
            raise Unsupported("tuple literal with fewer than two components", e)
        ks = {kind(t) for _, t in items}
        if ks == {"int"}:      # homogeneous tuple of ints = level vector
            return "[" + ", ".join(s for s, _ in items) + "]", TList(TInt)
        return "(" + ", ".join(s for s, _ in items) + ")", TProd([t for _, t in items])

    def ex_Dict(self, e):
        if e.keys:
            raise Unsupported("non-empty dict literal", e)
        return "[]", TDict(TVar(), TVar())

    def ex_Subscript(self, e):
        s, t = self.ex(e.value)
        if isinstance(e.slice, (ast.Slice, ast.Tuple)):
            raise Unsupported("slices / multi-dimensional subscripts", e)
        i, ti = self.ex(e.slice)
        k = self.need(t, ("list", "arr", "dict"), e, "subscripted value")
        if k == "dict":
            unify(ti, t.find().args[0], e, "dict key")
            return "(PyRt.dictGet %s %s)" % (s, i), t.find().args[1]
        unify(ti, TInt, e, "list index")
        return "(PyRt.getItem %s %s)" % (s, i), t.find().args[0]

    def bind_target(self, target, telem, pre):
        """bind a loop / comprehension target; returns (binder name, extra let-lines) and registers types"""
        if isinstance(target, ast.Name):
            self.set_var(target.id, telem, target, borrowed=True)
            return ident(target.id), []
        if isinstance(target, ast.Tuple) and all(isinstance(x, ast.Name) for x in target.elts):
            ts = [TVar() for _ in target.elts]
            unify(telem, TProd(ts), target, "tuple target")
            b = self.fresh(pre)
            lets = []
            for k, (x, tx) in enumerate(zip(target.elts, ts)):
                self.set_var(x.id, tx, x, borrowed=True)
                lets.append("let %s := %s" % (ident(x.id), proj(b, k, len(ts))))
            return b, lets
        raise Unsupported("unsupported loop / comprehension target", target)

    def iter_expr(self, it):
        """iterable -> (lean list term, element type)"""
        if isinstance(it, ast.Call) and isinstance(it.func, ast.Name) and it.func.id == "range" and not it.keywords:
            args = []
            for a in it.args:
                s, t = self.ex(a)
                unify(t, TInt, a, "argument of range")
                args.append(s)
            if len(args) == 1:
                return "(PyRt.range %s)" % args[0], TInt
            if len(args) == 2:
                return "(PyRt.range2 %s %s)" % (args[0], args[1]), TInt
            raise Unsupported("range with a step", it)
        s, t = self.ex(it)
        k = self.need(t, ("list", "set", "arr", "dict"), it, "iterated value")
        if k == "dict":
            return "(List.map (fun p => p.1) %s)" % s, t.find().args[0]
        return s, t.find().args[0]

    def ex_ListComp(self, e):
        if len(e.generators) != 1 or e.generators[0].is_async:
            raise Unsupported("list comprehension with several generators", e)
        g = e.generators[0]
        src, telem = self.iter_expr(g.iter)
        saved = self.save_scope()
        b, lets = self.bind_target(g.target, telem, "cv")
        for c in g.ifs:
            cs, ct = self.ex(c)
            unify(ct, TBool, c, "comprehension filter")
            src = "(List.filter (fun (%s : %s) => %s%s) %s)" % (b, self.tref(telem), "".join(l + "; " for l in lets), cs, src)
        body, tb = self.ex(e.elt)
        self.restore_scope(saved)
        return "(List.map (fun (%s : %s) => %s%s) %s)" % (b, self.tref(telem), "".join(l + "; " for l in lets), body, src), TList(tb)

    def lambda_term(self, lam, arg_types):
        a = lam.args
        if a.vararg or a.kwarg or a.kwonlyargs or a.defaults or len(a.args) != len(arg_types):
            raise Unsupported("unsupported lambda signature", lam)
        saved = self.save_scope()
        bs = []
        for p, t in zip(a.args, arg_types):
            self.set_var(p.arg, t, p, borrowed=True)
            bs.append("(%s : %s)" % (ident(p.arg), self.tref(t)))
        body, tb = self.ex(lam.body)
        self.restore_scope(saved)
        return "(fun %s => %s)" % (" ".join(bs), body), tb

    def ex_Call(self, e):
        return self.mod.calls.call(self, e)


def proj(b, k, n):
    """k-th component (0-based) of an n-tuple `b` (right-nested pairs)"""
    if n == 1:
        return b
    s = b + ".2" * k
    return s + ".1" if k < n - 1 else s
