"""Statement translation: a function body becomes one Lean term (let-chains, if-then-else with the continuation
duplicated into both branches, `for` loops as `List.foldl` / `PyRt.forLoop` over the variables the body rebinds)."""
import ast
from pytypes import (T, TVar, TInt, TBool, TRat, TUnit, TList, TSet, TArr, TDict, TProd, TOpt, TObj,
                     unify, kind, is_mutable, Unsupported)
from exprs import ExprMixin, ident, proj

INPLACE = {"append", "extend", "add", "remove", "discard"}


def indent(lines, n=2):
    return [" " * n + l for l in lines]


class FnFin:
    def __init__(self, cx):
        self.cx = cx

    def brk(self, node):
        raise Unsupported("`break` outside a loop", node)

    def fall(self):
        return [self.cx.wrap(None, None)]

    def ret(self, v, node):
        return [self.cx.wrap(v, node)]

    def through(self, r):
        return [r]


class LoopFin:
    kind = "for"

    def __init__(self, cx, state, has_ret, elem=None):
        self.cx, self.state, self.has_ret, self.elem = cx, state, has_ret, elem    # elem = (accumulator, element variable)

    def brk(self, node):
        raise Unsupported("`break` inside a for loop", node)

    def comp(self, v):
        if self.elem is not None and v == self.elem[0]:
            return "(%s ++ [%s])" % (ident(v), ident(self.elem[1]))      # the (possibly updated) element goes back into the list
        return ident(v)

    def tuple(self):
        if not self.state:
            return "()"
        if len(self.state) == 1:
            return self.comp(self.state[0])
        return "(" + ", ".join(self.comp(v) for v in self.state) + ")"

    def fall(self):
        return [("Sum.inr " if self.has_ret else "") + self.tuple()]

    def ret(self, v, node):
        return ["Sum.inl " + self.cx.wrap(v, node)]

    def through(self, r):
        return ["Sum.inl " + r]


class ForBreakFin(LoopFin):
    """body of a `for` that may `break`: one round yields (go_on, state)"""
    kind = "forbreak"

    def __init__(self, cx, state, elem=None):
        LoopFin.__init__(self, cx, state, False, elem)

    def fall(self):
        return ["(true, %s)" % self.tuple()]

    def brk(self, node):
        return ["(false, %s)" % self.tuple()]

    def ret(self, v, node):
        raise Unsupported("`return` inside a for loop that contains `break`", node)

    def through(self, r):
        raise Unsupported("`return` inside a loop nested in a for loop with `break`", None)


class WhileFin(LoopFin):
    """body of a `while`: one round yields (go_on, state)"""
    kind = "while"

    def __init__(self, cx, state):
        LoopFin.__init__(self, cx, state, False)

    def fall(self):
        return ["(true, %s)" % self.tuple()]

    def brk(self, node):
        return ["(false, %s)" % self.tuple()]

    def ret(self, v, node):
        raise Unsupported("`return` inside a while loop", node)

    def through(self, r):
        raise Unsupported("`return` inside a loop nested in a while loop", None)


class FnCtx(ExprMixin):
    def __init__(self, mod, fn):
        self.mod, self.fn = mod, fn
        self.env = {}
        self.defined = set()
        self.own = {}
        self.mut_log = []
        self.pinned = set()
        self.elem_vars = set()
        self.while_count = 0
        self.counter = 0
        self.names = {n.id for n in ast.walk(fn.node) if isinstance(n, ast.Name)} | {a.arg for a in ast.walk(fn.node) if isinstance(a, ast.arg)}

    # ------------------------------------------------------------------ scope / names
    def tref(self, t):
        return self.mod.tref(t)

    def fresh(self, pre):
        while True:
            self.counter += 1
            n = "%s_%d" % (pre, self.counter)
            if n not in self.names:
                return n

    def save_scope(self):
        return dict(self.env), set(self.defined), dict(self.own)

    def restore_scope(self, saved):
        self.env, self.defined, self.own = dict(saved[0]), set(saved[1]), dict(saved[2])

    def set_var(self, name, t, node, borrowed=False, shadow=False):
        if name == "self" and self.fn.is_method:
            raise Unsupported("assignment to `self`", node)
        if name in self.env and not shadow:
            try:
                unify(self.env[name], t, node, "variable %s" % name)
            except Unsupported:
                if name in self.pinned:
                    if {kind(self.env[name]), kind(t)} == {"int", "rat"} and name not in self.fn.widen:
                        # `w = 0` ... `w += <float>` in a loop: the variable holds numbers, the int is the same number as a float
                        self.fn.widen.add(name)
                        raise Widen(name)
                    raise Unsupported("variable %s changes its type inside a loop that carries it" % name, node)
                self.env[name] = t          # rebinding with another type (`x /= n` turns an int into a float): a new `let`
        else:
            self.env[name] = t
        self.defined.add(name)
        if borrowed:
            self.own[name] = "shared"

    def rec_head(self):
        return "%s.fuel %s" % (self.fn.lean_name, self.fuel_name)

    # ------------------------------------------------------------------ return values
    def wrap(self, v, node):
        fn = self.fn
        if fn.ret_mode == "unit":
            val = None
        elif fn.ret_mode == "value":
            if v is None:
                raise Unsupported("function %s can end without returning a value" % fn.name, node or fn.node)
            val = v
        else:
            val = "none" if v is None else "(some %s)" % v
        parts = (["self"] if fn.mutates else []) + [ident(p) for p in fn.out_params] + ([val] if val is not None else [])
        return "()" if not parts else (parts[0] if len(parts) == 1 else "(" + ", ".join(parts) + ")")

    # ------------------------------------------------------------------ ownership (aliasing) discipline
    def root(self, e):
        """('var', name) / ('attr', field) of the object an expression denotes without copying, else None"""
        if isinstance(e, ast.Name):
            return ("var", e.id)
        if isinstance(e, ast.Attribute) and isinstance(e.value, ast.Name) and e.value.id == "self" and self.fn.is_method:
            return ("attr", e.attr)
        if isinstance(e, ast.Subscript):
            return self.root(e.value)
        if isinstance(e, ast.IfExp):
            return self.root(e.body) or self.root(e.orelse)
        if isinstance(e, ast.Call):
            tf = self.mod.calls.resolve_translated(self, e.func)
            if tf is not None and tf[0].returns_alias:
                return ("attr", "*")
            name = dotted_name(e.func)
            if name is not None and self.mod.canon(name) == "numpy.asarray" and len(e.args) == 1:
                return self.root(e.args[0])             # no copy if the argument already is an array
            if isinstance(e.func, ast.Attribute) and e.func.attr == "get" and e.args:
                return self.root(e.func.value)          # an object stored in the container
        return None

    def key(self, loc):
        return loc[1] if loc[0] in ("var", "objattr") else "self." + loc[1]

    def share(self, loc):
        self.own[self.key(loc)] = "shared"
        if loc[0] == "attr":
            self.mod.shared_attrs.setdefault(loc[1], self.fn.name)

    def note_alias(self, target_loc, value_expr, t):
        """`target = value`: decide whether target is a fresh object or an alias"""
        if not is_mutable(t):
            return
        if target_loc is not None and target_loc[0] == "objattr":
            target_loc = None
        src = self.root(value_expr)
        if src is None:
            if target_loc is not None:
                self.own[self.key(target_loc)] = "owned"
            return
        self.share(src)
        if target_loc is not None:
            self.share(target_loc)

    def check_owned(self, loc, node, what):
        if loc[0] == "objattr" and loc[1] in self.fn.out_params:
            return                      # the changed parameter is returned explicitly (out-parameter)
        k = self.key(loc)
        default = "owned" if loc[0] == "attr" else "shared"
        if self.own.get(k, default) != "owned":
            raise Unsupported("in-place %s of %s, which may be aliased (parameter, loop element or copy-free binding of another "
                              "object): value semantics would be unsound" % (what, k), node)
        self.mut_log.append((k, node))
        if loc[0] == "attr":
            self.mod.mutated_attrs.setdefault(loc[1], (self.fn.name, node))

    # ------------------------------------------------------------------ locations
    def loc_of(self, e, node):
        if isinstance(e, ast.Name):
            if e.id == "self" and self.fn.is_method:
                raise Unsupported("`self` used as a plain value", node)
            return ("var", e.id)
        if isinstance(e, ast.Attribute) and isinstance(e.value, ast.Name) and e.value.id == "self" and self.fn.is_method:
            if e.attr not in self.mod.fields:
                raise Unsupported("unknown attribute self.%s" % e.attr, node)
            return ("attr", e.attr)
        if isinstance(e, ast.Attribute) and isinstance(e.value, ast.Name) and e.value.id in self.fn.out_params and e.value.id in self.env:
            t = self.env[e.value.id]
            o = self.object_of_type(t)
            fields = o.get("field_types", {}) if o is not None else \
                (dict(self.mod.records[t.find().name]["fields"]) if kind(t) == "obj" and t.find().name in self.mod.records else {})
            if e.attr not in fields:
                raise Unsupported("attribute .%s of the changed parameter %s is not declared" % (e.attr, e.value.id), node)
            return ("objattr", e.value.id, e.attr, fields[e.attr])
        if isinstance(e, ast.Attribute) and isinstance(e.value, ast.Name) and e.value.id in self.elem_vars:
            t = self.var_type(e.value.id, node)
            fields = dict(self.mod.records[t.find().name]["fields"]) if kind(t) == "obj" and t.find().name in self.mod.records else {}
            if e.attr not in fields:
                raise Unsupported("attribute .%s is not a declared field of the loop element" % e.attr, node)
            return ("objattr", e.value.id, e.attr, fields[e.attr])
        raise Unsupported("unsupported assignment / mutation target", node)

    def load(self, loc, node):
        if loc[0] == "objattr":
            return "%s.%s" % (ident(loc[1]), ident(loc[2])), loc[3]
        if loc[0] == "var":
            return ident(loc[1]), self.var_type(loc[1], node)
        return "self.%s" % ident(loc[1]), self.mod.fields[loc[1]]

    def store(self, loc, s, t, node):
        if loc[0] == "objattr":
            s = self.coerce(s, t, loc[3], node, "attribute %s.%s" % (loc[1], loc[2]))
            return ["let %s := { %s with %s := %s }" % (ident(loc[1]), ident(loc[1]), ident(loc[2]), s)]
        if loc[0] == "var":
            if loc[1] in self.fn.widen and kind(t) == "int":
                s, t = "((%s : Int) : Rat)" % s, TRat
            self.set_var(loc[1], t, node)
            if s in ("[]", "none"):        # empty container / None: the element type is only known from later uses
                return ["let %s : %s := %s" % (ident(loc[1]), self.tref(self.env[loc[1]]), s)]
            return ["let %s := %s" % (ident(loc[1]), s)]
        s = self.coerce(s, t, self.mod.fields[loc[1]], node, "attribute self." + loc[1])
        if self.mod.opaque:          # phantom type parameters: a structure update could otherwise change them
            return ["let self : %s := { self with %s := %s }" % (self.tref(self.mod.cls_type), ident(loc[1]), s)]
        return ["let self := { self with %s := %s }" % (ident(loc[1]), s)]

    # ------------------------------------------------------------------ effects inside expressions
    def object_of_type(self, t):
        if kind(t) == "obj":
            for o in self.mod.objects.values():
                if o["lean_type"] == t.find().name:
                    return o
        return None

    def object_var_method(self, e):
        """`<var>.<method>(..)` with <var> a variable whose type is a class generated elsewhere -> (var, object, method)"""
        f = e.func
        if isinstance(f, ast.Attribute) and isinstance(f.value, ast.Name) and f.value.id in self.env and not (f.value.id == "self" and self.fn.is_method):
            o = self.object_of_type(self.env[f.value.id])
            if o is not None and f.attr in o["methods"]:
                return f.value.id, o, o["methods"][f.attr]
        return None

    def mutating_call(self, e):
        if isinstance(e, ast.Call):
            tf = self.mod.calls.resolve_translated(self, e.func)
            if tf is not None and tf[0].mutates:
                return tf
        return None

    def hoist(self, e):
        """expression in statement position -> (pre-lines, term, type); a state-changing method call may be the whole
        expression or sit under `not`"""
        if isinstance(e, ast.Call) and ast.unparse(e.func) in self.mod.call_through:
            e = ast.Call(func=e.args[self.mod.call_through[ast.unparse(e.func)]], args=[], keywords=[])
        if isinstance(e, ast.Call) and ast.unparse(e.func) in self.mod.effects:
            sig = self.mod.effects[ast.unparse(e.func)]
            args = self.mod.calls.abstract_args(self, e, sig)
            w = ident(self.mod.spec["world"])
            call = " ".join(["F.%s" % ident(sig["name"]), "self.%s" % w] + args)
            ty = (" : %s" % self.tref(self.mod.cls_type)) if self.mod.opaque else ""
            if sig["ret"] is None:
                return ["let self%s := { self with %s := %s }" % (ty, w, call)], "()", TUnit
            r = self.fresh("eff_r")
            return ["let %s := %s" % (r, call), "let self%s := { self with %s := %s.1 }" % (ty, w, r)], "%s.2" % r, sig["ret"]
        tf = self.mutating_call(e)
        if tf is not None:
            fn, with_self = tf
            if fn is self.fn:
                raise Unsupported("recursive call of a state-changing method", e)
            args = self.mod.calls.bind_args(self, fn, e) + [ident(g) for g in self.mod.ghost_of(fn)]
            call = " ".join([fn.lean_name] + (["F"] if fn.uses_abstract else []) + (["self"] if with_self else []) + args)
            if fn.ret_mode == "unit":
                return ["let self := %s" % call], "()", TUnit
            r = self.fresh("call_r")
            return ["let %s := %s" % (r, call), "let self := %s.1" % r], "%s.2" % r, fn.value_type()
        if isinstance(e, ast.UnaryOp) and isinstance(e.op, ast.Not) and self.mutating_call(e.operand) is not None:
            pre, s, t = self.hoist(e.operand)
            unify(t, TBool, e, "operand of `not`")
            return pre, "(!%s)" % s, TBool
        s, t = self.ex(e)
        return [], s, t

    # ------------------------------------------------------------------ blocks
    def strip(self, stmts):
        """drop statements without effect on the result: print(..), docstrings, pass, and if/for left empty by that"""
        out = []
        for s in stmts:
            if isinstance(s, ast.Pass):
                continue
            if isinstance(s, ast.FunctionDef):
                self.mod.record("dropped", self.fn, s, "nested function `%s` (a use in translated code would be an unknown name)" % s.name)
                continue
            if isinstance(s, (ast.Import, ast.ImportFrom)):
                continue
            if isinstance(s, ast.Expr) and isinstance(s.value, ast.Constant):
                continue
            if isinstance(s, ast.Expr) and isinstance(s.value, ast.Call) and isinstance(s.value.func, ast.Name) \
                    and s.value.func.id == "print" and "print" not in self.env:
                self.mod.record("dropped", self.fn, s, "print call (output is not modelled)")
                continue
            if isinstance(s, ast.Expr) and isinstance(s.value, ast.Call) and ast.unparse(s.value.func) in self.mod.ignore_calls:
                self.mod.record("dropped", self.fn, s, "call of %s (effect not modelled: logging / output)" % ast.unparse(s.value.func))
                continue
            if isinstance(s, ast.If) and not self.strip(s.body) and not self.strip(s.orelse) and self.pure(s.test):
                self.mod.record("dropped", self.fn, s, "if statement without effect")
                continue
            if isinstance(s, ast.For) and not self.strip(s.body) and not s.orelse and self.pure(s.iter):
                self.mod.record("dropped", self.fn, s, "for loop without effect")
                continue
            out.append(s)
        return out

    def pure(self, e):
        if any(isinstance(n, ast.Call) and ast.unparse(n.func) in self.mod.effects for n in ast.walk(e)):
            return False
        return not any(self.mutating_call(n) is not None or
                       (isinstance(n, ast.Call) and (self.mod.object_method(self.fn, n) or (0, 0, {"mutates": False}))[2]["mutates"])
                       for n in ast.walk(e))

    def block(self, stmts, k):
        stmts = self.strip(stmts)
        if not stmts:
            return k.fall()
        s, rest = stmts[0], stmts[1:]
        pre = self.mod.prefix.get(self.fn.name)
        if pre is not None and isinstance(k, FnFin) and ast.unparse(s).startswith(pre["until"]):
            # PREFIX of the function: the statements before this one were executed, the observed variables are returned
            self.mod.record("prefix", self.fn, s, "translation stops before `%s`; observed: %s" % (pre["until"], ", ".join(pre["observe"])))
            vals = []
            for n in pre["observe"]:
                vs, vt = self.ex(ast.parse(n, mode="eval").body)
                vals.append((vs, vt))
            self.fn.prefix_types = [t for _, t in vals]
            parts = (["self"] if self.fn.mutates else []) + [ident(p) for p in self.fn.out_params] + [v for v, _ in vals]
            return [parts[0] if len(parts) == 1 else "(" + ", ".join(parts) + ")"]
        m = getattr(self, "st_" + type(s).__name__, None)
        if m is None:
            raise Unsupported("unsupported statement %s" % type(s).__name__, s)
        return m(s, rest, k)

    def st_Assert(self, s, rest, k):
        self.mod.record("assert", self.fn, s, ast.unparse(s.test))
        return self.block(rest, k)

    def st_Return(self, s, rest, k):
        if s.value is None or (isinstance(s.value, ast.Constant) and s.value.value is None):
            return k.ret(None, s)
        pre, v, t = self.hoist(s.value)
        v = self.coerce(v, t, self.fn.ret, s, "return value of " + self.fn.name)
        if is_mutable(t):
            src = self.root(s.value)
            fresh = src is None or (src[0] == "var" and self.own.get(src[1], "shared") == "owned")
            self.fn.fresh_returns.append(bool(fresh))
        return pre + k.ret(v, s)

    def st_Assign(self, s, rest, k):
        if len(s.targets) != 1:
            # a = b = <expr>: both names are bound to ONE object
            src = self.root(s.value)
            pre, v, t = self.hoist(s.value)
            if is_mutable(t):
                raise Unsupported("chained assignment binds %s to one and the same mutable object: value semantics would be unsound"
                                  % " and ".join(ast.unparse(x) for x in s.targets), s)
            lines = pre
            for tg2 in s.targets:
                lines = lines + self.store(self.loc_of(tg2, s), v, t, s)
            return lines + self.block(rest, k)
        tg = s.targets[0]
        if isinstance(tg, ast.Tuple) and all(isinstance(x, ast.Name) for x in tg.elts):
            pre, v, t = self.hoist(s.value)
            ts = [TVar() for _ in tg.elts]
            unify(t, TProd(ts), s, "unpacked value")
            p = self.fresh("tup")
            lines = pre + ["let %s := %s" % (p, v)]
            for i, (x, tx) in enumerate(zip(tg.elts, ts)):
                self.set_var(x.id, tx, s)
                self.own[x.id] = "shared"
                lines.append("let %s := %s" % (ident(x.id), proj(p, i, len(ts))))
            return lines + self.block(rest, k)
        if isinstance(tg, ast.Subscript):
            return self.subscript_store(tg, None, s.value, s) + self.block(rest, k)
        loc = self.loc_of(tg, s)
        if isinstance(s.value, ast.Name) and s.value.id in self.fn.out_params:
            raise Unsupported("the changed parameter %s is bound to another name" % s.value.id, s)
        pre, v, t = self.hoist(s.value)
        if kind(t) == "unit":
            raise Unsupported("assignment of the result of a function that returns nothing", s)
        self.note_alias(loc, s.value, t)
        return pre + self.store(loc, v, t, s) + self.block(rest, k)

    def subscript_store(self, tg, op, value, node):
        """`x[i] = v` / `x[i] op= v` with x a local or self attribute"""
        if isinstance(tg.slice, (ast.Slice, ast.Tuple)):
            raise Unsupported("slice assignment", node)
        loc = self.loc_of(tg.value, node)
        self.check_owned(loc, node, "item assignment")
        c, tc = self.load(loc, node)
        i, ti = self.ex(tg.slice)
        v, tv = self.ex(value)
        kc = self.need(tc, ("list", "dict"), node, "subscripted assignment target")
        if kc == "dict":
            unify(ti, tc.find().args[0], node, "dict key")
            get, set_, te = "PyRt.dictGet", "PyRt.dictSet", tc.find().args[1]
        else:
            unify(ti, TInt, node, "list index")
            get, set_, te = "PyRt.getItem", "PyRt.setItem", tc.find().args[0]
        if op is not None:
            if kind(te) == "var" and kind(tv) in ("int", "rat"):
                unify(te, tv, node, "element updated by an augmented assignment")    # `d[k] += number`: the elements are numbers
            v, tv = self.binop(op, "(%s %s %s)" % (get, c, i), te, v, tv, node)
        v = self.coerce(v, tv, te, node, "stored element")
        self.note_alias(None, value, tv)
        return self.store(loc, "%s %s %s %s" % (set_, c, i, v), tc, node)

    def st_AugAssign(self, s, rest, k):
        tg = s.target
        if isinstance(tg, ast.Subscript):
            return self.subscript_store(tg, s.op, s.value, s) + self.block(rest, k)
        loc = self.loc_of(tg, s)
        c, tc = self.load(loc, s)
        if is_mutable(tc):
            self.check_owned(loc, s, "augmented assignment")     # `x += [..]`, `s |= t` change the object itself
        v, tv = self.ex(s.value)
        r, tr = self.binop(s.op, c, tc, v, tv, s)
        return self.store(loc, r, tr, s) + self.block(rest, k)

    def st_Expr(self, s, rest, k):
        e = s.value
        if isinstance(e, ast.Call) and isinstance(e.func, ast.Attribute) and e.func.attr in INPLACE \
                and self.mod.calls.resolve_translated(self, e.func) is None:
            return self.inplace(e, s) + self.block(rest, k)
        if isinstance(e, ast.Call) and isinstance(e.func, ast.Attribute) and e.func.attr == "update" and len(e.args) == 1 and not e.keywords \
                and isinstance(e.args[0], ast.Call) and isinstance(e.args[0].func, ast.Name) and e.args[0].func.id == "zip" and len(e.args[0].args) == 2:
            loc = self.loc_of(e.func.value, s)          # d.update(zip(keys, values))
            self.check_owned(loc, s, ".update()")
            c, tc = self.load(loc, s)
            self.need(tc, ("dict",), s, "receiver of .update()")
            ks, tk = self.ex(e.args[0].args[0])
            vs, tv = self.ex(e.args[0].args[1])
            self.need(tk, ("list", "arr"), s, "keys of update(zip(..))")
            self.need(tv, ("list", "arr"), s, "values of update(zip(..))")
            unify(tk.find().args[0], tc.find().args[0], s, "keys of .update()")
            unify(tv.find().args[0], tc.find().args[1], s, "values of .update()")
            vsrc = self.root(e.args[0].args[1])
            if vsrc is not None:
                self.share(vsrc)                       # the dictionary now refers to the rows of that object
            return self.store(loc, "PyRt.dictUpdateZip %s %s %s" % (c, ks, vs), tc, s) + self.block(rest, k)
        if self.mutating_call(e) is not None or (isinstance(e, ast.Call) and (ast.unparse(e.func) in self.mod.effects or ast.unparse(e.func) in self.mod.call_through)):
            pre, _, _ = self.hoist(e)
            return pre + self.block(rest, k)
        ov = self.object_var_method(e) if isinstance(e, ast.Call) else None
        if ov is not None and ov[2]["mutates"]:
            var, o, m = ov
            if var not in self.fn.out_params and var in [p[0] for p in self.fn.params]:
                raise Unsupported("internal: changed parameter %s was not detected as an out-parameter" % var, s)
            call = self.mod.calls.object_call(self, e, None, o, m, recv=ident(var))
            new = call if m["ret"] is None else "%s.1" % call
            return ["let %s := %s" % (ident(var), new)] + self.block(rest, k)
        om = self.mod.object_method(self.fn, e) if isinstance(e, ast.Call) else None
        if om is not None and om[2]["mutates"]:
            field, o, m = om
            self.check_owned(("attr", field), s, "method call")
            call = self.mod.calls.object_call(self, e, field, o, m)
            new = call if m["ret"] is None else "%s.1" % call
            return ["let self := { self with %s := %s }" % (ident(field), new)] + self.block(rest, k)
        self.ex(e)                      # must be translatable; a pure expression statement has no effect
        self.mod.record("dropped", self.fn, s, "expression statement without effect")
        return self.block(rest, k)

    def inplace(self, e, node):
        op = e.func.attr
        loc = self.loc_of(e.func.value, node)
        if len(e.args) != 1 or e.keywords:
            raise Unsupported("unexpected arguments of .%s()" % op, node)
        self.check_owned(loc, node, "." + op + "()")
        c, tc = self.load(loc, node)
        v, tv = self.ex(e.args[0])
        kc = self.need(tc, ("list", "set"), node, "receiver of .%s()" % op)
        te = tc.find().args[0]
        if (kc == "list") != (op in ("append", "extend")):
            raise Unsupported(".%s() on a %s" % (op, kc), node)
        if op == "extend":
            self.need(tv, ("list", "set", "arr"), node, "argument of extend")
            unify(tv.find().args[0], te, node, "extended list")
            r = "%s ++ %s" % (c, v)
        else:
            v = self.coerce(v, tv, te, node, "element")
            src = self.root(e.args[0])
            if src is not None and is_mutable(tv):
                self.share(src)
            r = {"append": "%s ++ [%s]", "add": "PyRt.setAdd %s %s", "remove": "PyRt.setRemove %s %s",
                 "discard": "PyRt.setRemove %s %s"}[op] % (c, v)
        return self.store(loc, r, tc, node)

    def st_Break(self, s, rest, k):
        return k.brk(s)

    def static_truth(self, test):
        """truth value of a condition under the assumed finite domains of the spec (`assume`), else None"""
        tv = self.type_truth(test)
        if tv is not None:
            return tv
        doms = self.mod.assume
        if not doms:
            return None
        results = set()
        for key, dom in doms.items():
            if not any(ast.dump(n) == ast.dump(ast.parse(key, mode="eval").body) for n in ast.walk(test)):
                continue
            for v in dom:
                results.add(eval3(test, ast.dump(ast.parse(key, mode="eval").body), v))
            if results == {True}:
                return True
            if results == {False}:
                return False
            return None
        return None

    def type_truth(self, test):
        """truth value of a test that is decided by the declared assumptions of the variant or by static types"""
        if isinstance(test, ast.UnaryOp) and isinstance(test.op, ast.Not):
            r = self.type_truth(test.operand)
            return None if r is None else (not r)
        ax = dict(self.mod.assume_exprs)
        ax.update((self.fn.variant or {}).get("assume_exprs", {}))
        u = ast.unparse(test)
        if u in ax:
            return bool(ax[u])
        if isinstance(test, ast.Call) and self.mod.canon(dotted_name(test.func) or "") == "numpy.isscalar" and len(test.args) == 1:
            saved = self.save_scope()
            try:
                _, t = self.ex(test.args[0])
            finally:
                self.restore_scope(saved)
            if kind(t) in ("int", "rat", "bool"):
                return True
            if kind(t) in ("list", "arr", "set", "dict", "obj", "prod"):
                return False
        if isinstance(test, ast.Compare) and len(test.ops) == 1 and isinstance(test.ops[0], (ast.Is, ast.IsNot)) \
                and isinstance(test.comparators[0], ast.Constant) and test.comparators[0].value is None:
            _, t = self.ex(test.left)
            if kind(t) not in ("opt", "var"):
                return isinstance(test.ops[0], ast.IsNot)
        return None

    def none_test(self, test):
        """`x is None` / `x is not None` on a variable of optional type -> (name, is_none_test)"""
        neg = False
        while isinstance(test, ast.UnaryOp) and isinstance(test.op, ast.Not):
            test, neg = test.operand, not neg
        if isinstance(test, ast.Compare) and len(test.ops) == 1 and isinstance(test.ops[0], (ast.Is, ast.IsNot)) \
                and isinstance(test.left, ast.Name) and isinstance(test.comparators[0], ast.Constant) and test.comparators[0].value is None \
                and test.left.id in self.env and kind(self.env[test.left.id]) == "opt":
            return test.left.id, (isinstance(test.ops[0], ast.Is) != neg)
        return None

    def st_If(self, s, rest, k):
        if isinstance(s.test, ast.BoolOp) and isinstance(s.test.op, ast.And) and len(s.test.values) >= 2 \
                and (self.none_test(s.test.values[0]) is not None or self.type_truth(s.test.values[0]) is not None):
            # `A and B` with A a None-test (or decided statically): if A: (if B: body else: orelse) else: orelse
            restv = s.test.values[1:]
            inner_test = restv[0] if len(restv) == 1 else ast.BoolOp(op=ast.And(), values=restv)
            inner = ast.If(test=inner_test, body=s.body, orelse=s.orelse)
            outer = ast.If(test=s.test.values[0], body=[inner], orelse=s.orelse)
            ast.copy_location(inner, s); ast.copy_location(outer, s)
            return self.st_If(outer, rest, k)
        nt = self.none_test(s.test)
        if nt is not None:
            # optional value: the branch in which it is not None sees the value itself (new binding of the same name)
            x, is_none = nt
            tv = self.env[x].find().args[0]
            none_body, some_body = (s.body, s.orelse) if is_none else (s.orelse, s.body)
            saved = self.save_scope()
            a = self.block(list(none_body) + rest, k)
            own_a = dict(self.own)
            self.restore_scope(saved)
            self.env[x] = tv
            b = self.block(list(some_body) + rest, k)
            for key, v in own_a.items():
                if v == "shared":
                    self.own[key] = "shared"
            lines = ["(match %s with" % ident(x), "| none =>"] + indent(a) + ["| some %s =>" % ident(x)] + indent(b)
            lines[-1] += ")"
            return lines
        st = self.static_truth(s.test)
        if st is not None:
            self.mod.record("pruned", self.fn, s, "branch `%s` of `if %s` is never taken (static types / declared assumptions%s)"
                            % ("else" if st else "then", ast.unparse(s.test), (": " + self.mod.assume_text()) if self.mod.assume else ""))
            if self.type_truth(s.test) is None:
                self.fn.pruned = True
            return self.block(list(s.body if st else s.orelse) + rest, k)
        pre, c, tc = self.hoist(s.test)
        unify(tc, TBool, s, "condition of if")
        saved = self.save_scope()
        a = self.block(list(s.body) + rest, k)
        own_a = dict(self.own)
        self.restore_scope(saved)
        b = self.block(list(s.orelse) + rest, k)
        for key, v in own_a.items():          # ownership after the if = the weaker of both branches
            if v == "shared":
                self.own[key] = "shared"
        return pre + ["if %s then" % c] + indent(a) + ["else"] + indent(b)

    # ------------------------------------------------------------------ loops
    def assigned_in(self, stmts):
        """names (and 'self') that the statements may rebind, in order of first occurrence"""
        out = []

        def add(n):
            if n not in out:
                out.append(n)

        def target(t):
            if isinstance(t, ast.Name):
                add(t.id)
            elif isinstance(t, (ast.Tuple, ast.List)):
                for x in t.elts:
                    target(x)
            elif isinstance(t, ast.Subscript):
                target(t.value)
            elif isinstance(t, ast.Attribute):
                if isinstance(t.value, ast.Name) and t.value.id == "self":
                    add("self")
                else:
                    target(t.value)

        for n in [x for s in stmts for x in ast.walk(s)]:
            if isinstance(n, ast.Assign):
                for t in n.targets:
                    target(t)
            elif isinstance(n, (ast.AugAssign, ast.AnnAssign)):
                target(n.target)
            elif isinstance(n, ast.For):
                target(n.target)
            elif isinstance(n, ast.Call):
                if isinstance(n.func, ast.Attribute) and n.func.attr in INPLACE and self.mod.calls.resolve_translated(self, n.func) is None:
                    target(n.func.value)
                if self.mutating_call(n) is not None or ast.unparse(n.func) in self.mod.effects:
                    add("self")
                om = self.mod.object_method(self.fn, n)
                if om is not None and om[2]["mutates"]:
                    add("self")
        return out

    def st_While(self, s, rest, k):
        if s.orelse:
            raise Unsupported("while ... else", s)
        fuels = self.mod.fuel.get(self.fn.name)
        if not fuels:
            raise Unsupported("while loop in %s without a fuel expression in the spec" % self.fn.name, s)
        idx = self.while_count
        self.while_count += 1
        fsrc = fuels[min(idx, len(fuels) - 1)]
        fs, ft = self.ex(ast.parse(fsrc, mode="eval").body)
        unify(ft, TInt, s, "fuel expression")
        body = list(s.body)
        state = [n for n in self.assigned_in(body) if n in self.defined or (n == "self" and self.fn.is_method)]
        if "self" in state:
            state = ["self"] + [n for n in state if n != "self"]
        if has_return(body):
            raise Unsupported("`return` inside a while loop", s)
        if not state:
            raise Unsupported("while loop that changes no variable defined before it", s)
        types = [self.mod.cls_type if n == "self" else self.var_type(n, s) for n in state]
        saved = self.save_scope()
        pinned0 = set(self.pinned)
        self.pinned |= set(state)
        log0 = len(self.mut_log)
        if len(state) == 1:
            sb, st_t, lets = ident(state[0]), types[0], []
        else:
            sb, st_t = self.fresh("st"), TProd(types)
            lets = ["let %s := %s" % (ident(n), proj(sb, i, len(state))) for i, n in enumerate(state)]
        fin = WhileFin(self, state)
        cond_true = isinstance(s.test, ast.Constant) and s.test.value is True
        if cond_true:
            inner = lets + self.block(body, fin)
        else:
            c, tc = self.ex(s.test)
            unify(tc, TBool, s, "loop condition")
            inner = lets + ["if (!%s) then" % c] + indent(fin.brk(s)) + ["else"] + indent(self.block(body, fin))
        for key, node in self.mut_log[log0:]:
            default = "owned" if key.startswith("self.") else "shared"
            if self.own.get(key, default) != "owned" and saved[2].get(key, default) == "owned":
                raise Unsupported("in-place mutation of %s inside a loop that also creates an alias of it" % key, node)
        own_after = dict(self.own)
        self.restore_scope(saved)
        self.pinned = pinned0
        for key, v in own_after.items():
            if v == "shared" and key in self.own:
                self.own[key] = "shared"
        self.mod.record("fuel", self.fn, s, "while loop #%d: fuel Int.toNat(%s)" % (idx + 1, fsrc))
        lines = ["let %s := PyRt.whileSt (Int.toNat %s) %s (fun (%s : %s) =>" % (sb, fs, fin.tuple(), sb, self.tref(st_t))]
        lines += indent(inner, 4)
        lines[-1] += ")"
        after = [] if len(state) == 1 else ["let %s := %s" % (ident(n), proj(sb, i, len(state))) for i, n in enumerate(state)]
        return lines + after + self.block(rest, k)

    def st_For(self, s, rest, k):
        if s.orelse:
            raise Unsupported("for ... else", s)
        it, telem = self.iter_expr(s.iter)
        body = list(s.body)
        tnames = [n.id for n in ast.walk(s.target) if isinstance(n, ast.Name)]
        state = [n for n in self.assigned_in(body) if n not in tnames and (n in self.defined or (n == "self" and self.fn.is_method))]
        if "self" in state:
            state = ["self"] + [n for n in state if n != "self"]
        has_ret = has_return(body)
        elem, recv, pre_acc = None, None, []
        if isinstance(s.target, ast.Name) and any(isinstance(n, ast.Attribute) and isinstance(n.ctx, ast.Store) and isinstance(n.value, ast.Name)
                                                   and n.value.id == s.target.id for b in body for n in ast.walk(b)):
            # the body changes attributes of the loop element: the loop rebuilds the list it iterates over and the
            # rebuilt list is written back to where it came from (a declared observer / field of a record variable)
            src = s.iter.func if isinstance(s.iter, ast.Call) and not s.iter.args and not s.iter.keywords else s.iter
            if not (isinstance(src, ast.Attribute) and isinstance(src.value, ast.Name) and src.value.id in self.env
                    and kind(self.env[src.value.id]) == "obj" and self.env[src.value.id].find().name in self.mod.records):
                raise Unsupported("loop that changes its elements must iterate over a member of a record variable", s)
            recv = (src.value.id, src.attr)
            if has_ret or any(isinstance(n, ast.Name) and n.id == recv[0] for b in body for n in ast.walk(b)):
                raise Unsupported("loop that changes its elements: `return` / use of the container inside the body", s)
            if recv[0] in [p[0] for p in self.fn.params] and recv[0] not in self.fn.out_params:
                raise Unsupported("internal: changed parameter %s was not detected as an out-parameter" % recv[0], s)
            acc = self.fresh("xs")
            self.set_var(acc, TList(telem), s)
            pre_acc = ["let %s : %s := []" % (acc, self.tref(TList(telem)))]
            state = state + [acc]
            elem = (acc, s.target.id)
        types = [self.mod.cls_type if n == "self" else self.var_type(n, s) for n in state]
        saved = self.save_scope()
        pinned0 = set(self.pinned)
        self.pinned |= set(n for n in state if n != "self")
        log0 = len(self.mut_log)
        b, lets = self.bind_target(s.target, telem, "it")
        if elem is not None:
            self.elem_vars = self.elem_vars | {elem[1]}
            self.own[elem[1]] = "owned"
        if len(state) == 0:
            sb, st_t = "_", TUnit
        elif len(state) == 1:
            sb, st_t = ident(state[0]), types[0]
        else:
            sb, st_t = self.fresh("st"), TProd(types)
            lets = ["let %s := %s" % (ident(n), proj(sb, i, len(state))) for i, n in enumerate(state)] + lets
        has_brk = own_break(body)
        if has_brk and (has_ret or elem is not None):
            raise Unsupported("`break` in a for loop that also returns / changes its elements", s)
        fin = ForBreakFin(self, state) if has_brk else LoopFin(self, state, has_ret, elem)
        inner = lets + self.block(body, fin)
        if elem is not None:
            self.elem_vars = self.elem_vars - {elem[1]}
        for key, node in self.mut_log[log0:]:            # an alias created later in the body is alive in the next iteration
            default = "owned" if key.startswith("self.") else "shared"
            if self.own.get(key, default) != "owned" and saved[2].get(key, default) == "owned":
                raise Unsupported("in-place mutation of %s inside a loop that also creates an alias of it" % key, node)
        own_after = dict(self.own)
        self.restore_scope(saved)
        self.pinned = pinned0
        for key, v in own_after.items():
            if v == "shared" and key in self.own:
                self.own[key] = "shared"
        fin0 = LoopFin(self, state, has_ret)
        init = fin0.tuple()
        lam = "(fun (%s : %s) (%s : %s) =>" % (sb, self.tref(st_t), b, self.tref(telem))
        if not has_ret:
            if not state:
                raise Unsupported("loop whose body has no effect on any variable defined before it, but could not be dropped", s)
            if has_brk:
                head = "let %s := PyRt.forBreak %s %s %s" % (sb, it, init, lam)
                lines = pre_acc + [head] + indent(inner, 4)
                lines[-1] += ")"
            else:
                head = "let %s := List.foldl %s" % (sb, lam)
                lines = pre_acc + [head] + indent(inner, 4)
                lines[-1] += ") %s %s" % (init, it)
            after = [] if len(state) == 1 else ["let %s := %s" % (ident(n), proj(sb, i, len(state))) for i, n in enumerate(state)]
            if elem is not None:
                after.append("let %s := { %s with %s := %s }" % (ident(recv[0]), ident(recv[0]), ident(recv[1]), ident(elem[0])))
            return lines + after + self.block(rest, k)
        r = self.fresh("loop_r")
        head = "match PyRt.forLoop (ρ := %s) %s %s %s" % (self.tref(self.fn.full_type(self.mod)), it, init, lam)
        lines = [head] + indent(inner, 4)
        lines[-1] += ") with"
        after = [] if len(state) <= 1 else ["let %s := %s" % (ident(n), proj(sb, i, len(state))) for i, n in enumerate(state)]
        arm2 = after + self.block(rest, k)
        return lines + ["| Sum.inl %s =>" % r] + indent(k.through(r)) + ["| Sum.inr %s =>" % sb] + indent(arm2)


class Widen(Exception):
    """a loop-carried variable initialised with an int receives a float: retranslate the function with the variable as a float"""


def dotted_name(e):
    if isinstance(e, ast.Name):
        return e.id
    if isinstance(e, ast.Attribute):
        d = dotted_name(e.value)
        return None if d is None else d + "." + e.attr
    return None


def has_return(stmts):
    """a `return` of the enclosing function (nested function definitions do not count)"""
    for s in stmts:
        if isinstance(s, ast.Return):
            return True
        if isinstance(s, (ast.FunctionDef, ast.Lambda)):
            continue
        for f in ("body", "orelse"):
            if has_return(getattr(s, f, []) or []):
                return True
    return False


def own_break(stmts):
    """does the statement list contain a `break` that belongs to the enclosing loop (not to a nested loop)?"""
    for s in stmts:
        if isinstance(s, ast.Break):
            return True
        if isinstance(s, ast.If) and (own_break(s.body) or own_break(s.orelse)):
            return True
    return False


def eval3(e, key_dump, v):
    """three-valued evaluation of a condition in which the expression `key` has the value v: True / False / None"""
    def val(x):
        if ast.dump(x) == key_dump:
            return v
        if isinstance(x, ast.Constant) and isinstance(x.value, int) and not isinstance(x.value, bool):
            return x.value
        return None
    if isinstance(e, ast.BoolOp):
        rs = [eval3(x, key_dump, v) for x in e.values]
        if isinstance(e.op, ast.And):
            return False if False in rs else (True if all(r is True for r in rs) else None)
        return True if True in rs else (False if all(r is False for r in rs) else None)
    if isinstance(e, ast.UnaryOp) and isinstance(e.op, ast.Not):
        r = eval3(e.operand, key_dump, v)
        return None if r is None else (not r)
    if isinstance(e, ast.Compare):
        left = val(e.left)
        res = True
        for op, rn in zip(e.ops, e.comparators):
            right = val(rn)
            if left is None or right is None:
                return None
            f = {ast.Eq: lambda a, b: a == b, ast.NotEq: lambda a, b: a != b, ast.Lt: lambda a, b: a < b, ast.LtE: lambda a, b: a <= b,
                 ast.Gt: lambda a, b: a > b, ast.GtE: lambda a, b: a >= b}.get(type(op))
            if f is None:
                return None
            res = res and f(left, right)
            left = right
        return res
    return None
