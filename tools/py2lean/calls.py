"""Call translation: builtins, library bindings (math / numpy / itertools / external classes), translated functions."""
import ast
from pytypes import (T, TVar, TInt, TBool, TRat, TUnit, TList, TSet, TArr, TDict, TProd, TOpt, TObj,
                     unify, kind, is_mutable, Unsupported)
from exprs import ident


def dotted(e):
    if isinstance(e, ast.Name):
        return e.id
    if isinstance(e, ast.Attribute):
        d = dotted(e.value)
        return None if d is None else d + "." + e.attr
    return None


class Calls:
    def __init__(self, mod):
        self.mod = mod

    # ---------------------------------------------------------------- entry
    def call(self, cx, e):
        f = e.func
        name = dotted(f)
        lib = self.mod.canon(name) if name is not None else None
        if any(isinstance(a, ast.Starred) for a in e.args) and lib != "itertools.product":
            raise Unsupported("starred call argument", e)
        if any(k.arg is None for k in e.keywords):
            raise Unsupported("**kwargs in call", e)
        # translated functions: self.m(..), Class.m(..), module-level f(..)
        tf = self.resolve_translated(cx, f)
        if tf is not None:
            fn, with_self = tf
            if fn.out_params:
                raise Unsupported("call of %s, which changes its argument %s (not supported from translated code)" % (fn.name, fn.out_params), e)
            if fn.mutates:
                raise Unsupported("call of the state-changing method %s inside an expression (only allowed as a whole statement, "
                                  "right-hand side, condition or return value)" % fn.name, e)
            return self.translated_call(cx, fn, with_self, e)
        if lib is not None:
            m = getattr(self, "lib_" + lib.replace(".", "_"), None)
            if m is not None:
                return m(cx, e)
        if name is not None and name in self.mod.ext_classes:
            return self.ext_ctor(cx, name, e)
        om = self.mod.object_method(cx.fn, e)
        if om is not None:
            field, o, m = om
            if m["mutates"]:
                raise Unsupported("call of the state-changing method %s.%s inside an expression (only allowed as a statement)" % (field, f.attr), e)
            return self.object_call(cx, e, field, o, m), m["ret"]
        if isinstance(f, ast.Attribute) and not (isinstance(f.value, ast.Name) and f.value.id == "self" and cx.fn.is_method):
            r = self.record_getter(cx, e, f)
            if r is not None:
                return r
        if isinstance(f, ast.Attribute):
            m = getattr(self, "meth_" + f.attr, None)
            if m is not None:
                return m(cx, e, f.value)
        raise Unsupported("call of unknown function %s" % (name or ast.dump(f)[:60]), e)

    def resolve_translated(self, cx, f):
        """-> (FuncInfo, passes_self) or None"""
        if isinstance(f, ast.Attribute) and isinstance(f.value, ast.Name):
            if f.value.id == "self" and cx.fn.is_method and f.attr in self.mod.funcs and self.mod.funcs[f.attr].cls:
                fn = self.mod.funcs[f.attr]
                return fn, not fn.is_static
            if f.value.id == self.mod.cls_name and f.attr in self.mod.funcs and self.mod.funcs[f.attr].cls:
                fn = self.mod.funcs[f.attr]
                if not fn.is_static:
                    raise Unsupported("unbound call of instance method %s" % f.attr, f)
                return fn, False
        if isinstance(f, ast.Name) and f.id in self.mod.funcs and not self.mod.funcs[f.id].cls and f.id not in cx.env:
            return self.mod.funcs[f.id], False
        return None

    def object_call(self, cx, e, field, o, m):
        """term `<namespace>.<method> self.<field> args`"""
        if e.keywords or len(e.args) != len(m["args"]):
            raise Unsupported("arguments of %s.%s do not match its declared signature" % (field, e.func.attr), e)
        args = []
        for a, t in zip(e.args, m["args"]):
            s, ta = cx.ex(a)
            args.append(cx.coerce(s, ta, t, e, "argument of %s" % e.func.attr))
        return "(" + " ".join(["%s.%s" % (o["namespace"], ident(e.func.attr)), "self.%s" % ident(field)] + args) + ")"

    def record_getter(self, cx, e, f):
        """`obj.get_x()` on a declared record class: an argument-free observer, modelled as a field of the record"""
        if any(f.attr in r["getters"] for r in self.mod.records.values()):
            s, t = cx.ex(f.value)
            cx.resolve_record(t, f.attr, e)
            if kind(t) == "obj" and t.find().name in self.mod.records and f.attr in self.mod.records[t.find().name]["getters"]:
                if e.args or e.keywords:
                    raise Unsupported("observer %s called with arguments" % f.attr, e)
                return "%s.%s" % (s, ident(f.attr)), self.mod.records[t.find().name]["getters"][f.attr]
        return None

    def bind_args(self, cx, fn, e):
        """positional + keyword arguments matched against fn.params; defaults filled in"""
        given = {}
        if len(e.args) > len(fn.params):
            raise Unsupported("too many arguments in call of %s" % fn.name, e)
        for (pn, _, _), a in zip(fn.params, e.args):
            given[pn] = a
        for k in e.keywords:
            if k.arg in given or k.arg not in [p[0] for p in fn.params]:
                raise Unsupported("bad keyword argument %s in call of %s" % (k.arg, fn.name), e)
            given[k.arg] = k.value
        out = []
        for pn, pt, dflt in fn.params:
            if pn in given:
                s, t = cx.ex(given[pn])
                out.append(cx.coerce(s, t, pt, e, "argument %s of %s" % (pn, fn.name)))
            elif dflt is not None:
                out.append(dflt)
            else:
                raise Unsupported("missing argument %s in call of %s" % (pn, fn.name), e)
        return out

    def translated_call(self, cx, fn, with_self, e, self_term="self"):
        args = self.bind_args(cx, fn, e)
        head = fn.lean_name if fn is not cx.fn else cx.rec_head()
        parts = [head] + ([self_term] if with_self else []) + args
        return "(" + " ".join(parts) + ")", fn.result_type()

    # ---------------------------------------------------------------- builtins
    def one(self, cx, e, n=1):
        if len(e.args) != n or e.keywords:
            raise Unsupported("unexpected arguments in call of %s" % dotted(e.func), e)
        return [cx.ex(a) for a in e.args]

    def lib_tuple(self, cx, e):
        if not e.args and not e.keywords:
            return "[]", TList(TVar())
        (s, t), = self.one(cx, e)
        k = cx.need(t, ("list", "arr", "set"), e, "argument of tuple()/list()")
        return s, TList(t.find().args[0])
    lib_list = lib_tuple

    def lib_set(self, cx, e):
        if not e.args and not e.keywords:
            return "[]", TSet(TVar())
        (s, t), = self.one(cx, e)
        k = cx.need(t, ("list", "set"), e, "argument of set()")
        if k == "set":
            return s, t
        return "(PyRt.setOfList %s)" % s, TSet(t.find().args[0])

    def lib_len(self, cx, e):
        (s, t), = self.one(cx, e)
        cx.need(t, ("list", "set", "arr", "dict"), e, "argument of len()")
        return "(PyRt.len %s)" % s, TInt

    def lib_sum(self, cx, e):
        (s, t), = self.one(cx, e)
        cx.need(t, ("list", "arr", "set"), e, "argument of sum()")
        unify(t.find().args[0], TInt, e, "elements of sum()")
        return "(PyRt.sum %s)" % s, TInt

    def lib_abs(self, cx, e):
        (s, t), = self.one(cx, e)
        unify(t, TInt, e, "argument of abs()")
        return "(PyRt.abs %s)" % s, TInt

    def lib_int(self, cx, e):
        (s, t), = self.one(cx, e)
        k = cx.need(t, ("int", "rat"), e, "argument of int()")
        return (s, TInt) if k == "int" else ("(PyRt.truncQ %s)" % s, TInt)

    def lib_math_ceil(self, cx, e):
        (s, t), = self.one(cx, e)
        k = cx.need(t, ("int", "rat"), e, "argument of math.ceil")
        return (s, TInt) if k == "int" else ("(PyRt.ceilQ %s)" % s, TInt)

    def lib_all(self, cx, e, f="all"):
        (s, t), = self.one(cx, e)
        cx.need(t, ("list",), e, "argument of %s()" % f)
        unify(t.find().args[0], TBool, e, "elements of %s()" % f)
        return "(PyRt.%s %s)" % (f, s), TBool

    def lib_any(self, cx, e):
        return self.lib_all(cx, e, "any")

    def minmax(self, cx, e, f):
        if len(e.args) == 1 and not e.keywords and f == "max":
            (s, t), = self.one(cx, e)
            cx.need(t, ("list", "arr", "set"), e, "argument of max()")
            unify(t.find().args[0], TInt, e, "elements of max()")
            return "(PyRt.maxList %s)" % s, TInt
        (a, ta), (b, tb) = self.one(cx, e, 2)
        a, b, t = cx.numeric_join(a, ta, b, tb, e)
        return "(%s %s %s)" % (f, a, b), t

    def lib_max(self, cx, e):
        return self.minmax(cx, e, "max")

    def lib_min(self, cx, e):
        return self.minmax(cx, e, "min")

    def lib_range(self, cx, e):
        s, t = cx.iter_expr(e)
        return s, TList(t)

    def lib_map(self, cx, e):
        if e.keywords or len(e.args) not in (2, 3) or not isinstance(e.args[0], ast.Lambda):
            raise Unsupported("map() is supported with a lambda and one or two sequences", e)
        seqs = []
        for a in e.args[1:]:
            s, t = cx.ex(a)
            cx.need(t, ("list", "arr", "set"), a, "sequence argument of map()")
            seqs.append((s, t.find().args[0]))
        lam, tb = cx.lambda_term(e.args[0], [t for _, t in seqs])
        f = "List.map" if len(seqs) == 1 else "List.zipWith"
        return "(%s %s %s)" % (f, lam, " ".join(s for s, _ in seqs)), TList(tb)

    # ---------------------------------------------------------------- library bindings
    def lib_math_factorial(self, cx, e):
        (s, t), = self.one(cx, e)
        unify(t, TInt, e, "argument of math.factorial")
        return "(PyRt.factorial %s)" % s, TInt

    def int_dtype(self, e, npos):
        if len(e.args) != npos or [k.arg for k in e.keywords] != ["dtype"] or dotted(e.keywords[0].value) != "int":
            raise Unsupported("numpy constructor supported only as %s(<%d args>, dtype=int)" % (dotted(e.func), npos), e)

    def lib_numpy_array(self, cx, e):
        self.int_dtype(e, 1)
        s, t = cx.ex(e.args[0])
        cx.need(t, ("list", "arr"), e, "argument of np.array")
        unify(t.find().args[0], TInt, e, "np.array(dtype=int)")
        return s, TArr(TInt)

    def lib_numpy_ones(self, cx, e):
        self.int_dtype(e, 1)
        s, t = cx.ex(e.args[0])
        unify(t, TInt, e, "np.ones size")
        return "(PyRt.npOnes %s)" % s, TArr(TInt)

    def lib_numpy_full(self, cx, e):
        self.int_dtype(e, 2)
        s, t = cx.ex(e.args[0])
        v, tv = cx.ex(e.args[1])
        unify(t, TInt, e, "np.full size")
        unify(tv, TInt, e, "np.full value")
        return "(PyRt.npFull %s %s)" % (s, v), TArr(TInt)

    def lib_itertools_product(self, cx, e):
        if len(e.args) != 1 or not isinstance(e.args[0], ast.Starred) or e.keywords:
            raise Unsupported("itertools.product is supported in the form product(*seqs)", e)
        s, t = cx.ex(e.args[0].value)
        te = TVar()
        unify(t, TList(TList(te)), e, "argument of product(*..)")
        return "(PyRt.product %s)" % s, TList(TList(te))

    def ext_ctor(self, cx, name, e):
        fields = self.mod.ext_classes[name]
        given = {}
        for (fname, _), a in zip(fields, e.args):
            given[fname] = a
        for k in e.keywords:
            given[k.arg] = k.value
        if set(given) != {f for f, _ in fields} or len(e.args) > len(fields):
            raise Unsupported("constructor %s needs exactly the fields %s" % (name, [f for f, _ in fields]), e)
        parts = []
        for fname, ft in fields:
            s, t = cx.ex(given[fname])
            parts.append("%s := %s" % (ident(fname), cx.coerce(s, t, ft, e, "field %s of %s" % (fname, name))))
        return "({ %s } : PyRt.%s)" % (", ".join(parts), name), TObj("PyRt." + name)

    # ---------------------------------------------------------------- pure methods on values
    def meth_items(self, cx, e, obj):
        s, t = cx.ex(obj)
        if kind(t) != "dict" or e.args or e.keywords:
            raise Unsupported(".items() on a non-dict", e)
        return s, TList(TProd([t.find().args[0], t.find().args[1]]))

    def meth_copy(self, cx, e, obj):
        s, t = cx.ex(obj)
        if e.args or e.keywords or kind(t) not in ("list", "set", "dict", "arr"):
            raise Unsupported(".copy() on an unsupported value", e)
        return s, t


BUILTINS = {"tuple", "list", "set", "len", "sum", "abs", "max", "min", "range", "map", "int", "all", "any"}
