"""Call translation: builtins, library bindings (math / numpy / itertools / external classes), translated functions."""
import ast
from pytypes import (T, TVar, TInt, TBool, TRat, TUnit, TList, TSet, TArr, TDict, TProd, TOpt, TObj,
                     unify, kind, is_mutable, Unsupported)
from exprs import ident


def dotted(e):
    if isinstance(e, ast.Name):
        return e.id
    if isinstance(e, ast.Attribute):
        d = dotted(e.value)
        return None if d is None else d + "." + e.attr
    return None


class Calls:
    def __init__(self, mod):
        self.mod = mod

    # ---------------------------------------------------------------- entry
    def abstract_args(self, cx, e, sig):
        """arguments of an abstract operation matched against its declared signature (positional, keywords, defaults)"""
        names = sig.get("params") or [None] * len(sig["args"])
        given = dict(enumerate(e.args))
        for k in e.keywords:
            if k.arg not in names:
                raise Unsupported("keyword argument %s is not declared for %s" % (k.arg, ast.unparse(e.func)), e)
            given[names.index(k.arg)] = k.value
        out = []
        for i, t in enumerate(sig["args"]):
            if i in given:
                s_, ta = cx.ex(given[i])
                out.append(cx.coerce(s_, ta, t, e, "argument of %s" % ast.unparse(e.func)))
            elif sig.get("defaults") and sig["defaults"][i] is not None:
                out.append(sig["defaults"][i])
            else:
                raise Unsupported("missing argument %d of %s" % (i, ast.unparse(e.func)), e)
        if len(given) > len(sig["args"]):
            raise Unsupported("too many arguments of %s" % ast.unparse(e.func), e)
        return out

    def call(self, cx, e):
        f = e.func
        key = ast.unparse(f)
        if key in self.mod.call_through:                 # f(label, g) == g()
            g = e.args[self.mod.call_through[key]]
            return self.call(cx, ast.Call(func=g, args=[], keywords=[]))
        if key in self.mod.reads:
            sig = self.mod.reads[key]
            args = self.abstract_args(cx, e, sig)
            return "(" + " ".join(["F.%s" % ident(sig["name"]), "self.%s" % ident(self.mod.spec["world"])] + args) + ")", sig["ret"]
        if key in self.mod.effects:
            raise Unsupported("call of the state-changing operation %s inside an expression (only allowed as a statement, right-hand side, "
                              "condition or return value)" % key, e)
        name = dotted(f)
        lib = self.mod.canon(name) if name is not None else None
        if any(isinstance(a, ast.Starred) for a in e.args) and lib != "itertools.product":
            raise Unsupported("starred call argument", e)
        if any(k.arg is None for k in e.keywords):
            raise Unsupported("**kwargs in call", e)
        # translated functions: self.m(..), Class.m(..), module-level f(..)
        tf = self.resolve_translated(cx, f)
        if tf is not None:
            fn, with_self = tf
            if fn.out_params:
                raise Unsupported("call of %s, which changes its argument %s (not supported from translated code)" % (fn.name, fn.out_params), e)
            if fn.mutates:
                raise Unsupported("call of the state-changing method %s inside an expression (only allowed as a whole statement, "
                                  "right-hand side, condition or return value)" % fn.name, e)
            return self.translated_call(cx, fn, with_self, e)
        if lib is not None:
            m = getattr(self, "lib_" + lib.replace(".", "_"), None)
            if m is not None:
                return m(cx, e)
        if name is not None and name in self.mod.ext_classes:
            return self.ext_ctor(cx, name, e)
        if isinstance(f, ast.Attribute) and isinstance(f.value, ast.Name) and f.value.id == "self" and cx.fn.is_method and f.attr in self.mod.abstract:
            sig = self.mod.abstract[f.attr]
            if e.keywords or len(e.args) != len(sig["args"]):
                raise Unsupported("arguments of the abstract method %s do not match its declared signature" % f.attr, e)
            args = []
            for a, t in zip(e.args, sig["args"]):
                s_, ta = cx.ex(a)
                args.append(cx.coerce(s_, ta, t, e, "argument of %s" % f.attr))
            return "(" + " ".join(["F.%s" % ident(f.attr)] + (args or ["()"])) + ")", sig["ret"]
        ov = cx.object_var_method(e)
        if ov is not None:
            var, o, m = ov
            if m["mutates"]:
                raise Unsupported("call of the state-changing method %s.%s inside an expression (only allowed as a statement)" % (var, f.attr), e)
            return self.object_call(cx, e, None, o, m, recv=ident(var)), m["ret"]
        om = self.mod.object_method(cx.fn, e)
        if om is not None:
            field, o, m = om
            if m["mutates"]:
                raise Unsupported("call of the state-changing method %s.%s inside an expression (only allowed as a statement)" % (field, f.attr), e)
            return self.object_call(cx, e, field, o, m), m["ret"]
        if isinstance(f, ast.Attribute) and not (isinstance(f.value, ast.Name) and f.value.id == "self" and cx.fn.is_method):
            r = self.record_getter(cx, e, f)
            if r is not None:
                return r
        if isinstance(f, ast.Attribute):
            m = getattr(self, "meth_" + f.attr, None)
            if m is not None:
                return m(cx, e, f.value)
        raise Unsupported("call of unknown function %s" % (name or ast.dump(f)[:60]), e)

    def resolve_translated(self, cx, f):
        """-> (FuncInfo, passes_self) or None"""
        if ast.unparse(f) in self.mod.effects or ast.unparse(f) in self.mod.reads:
            return None
        if isinstance(f, ast.Attribute) and isinstance(f.value, ast.Name):
            if f.value.id == "self" and cx.fn.is_method and self.mod.method_for(cx.fn, f.attr) is not None:
                fn = self.mod.method_for(cx.fn, f.attr)
                return fn, not fn.is_static
            if f.value.id == self.mod.cls_name and f.attr in self.mod.funcs and self.mod.funcs[f.attr].cls:
                fn = self.mod.funcs[f.attr]
                if not fn.is_static:
                    raise Unsupported("unbound call of instance method %s" % f.attr, f)
                return fn, False
        if isinstance(f, ast.Name) and f.id in self.mod.funcs and not self.mod.funcs[f.id].cls and f.id not in cx.env:
            return self.mod.funcs[f.id], False
        return None

    def object_call(self, cx, e, field, o, m, recv=None):
        """term `<namespace>.<method> <receiver> args` (receiver: self.<field> or a variable)"""
        names = m.get("params") or [None] * len(m["args"])
        given = dict(zip(range(len(e.args)), e.args))
        for k in e.keywords:
            if k.arg not in names:
                raise Unsupported("keyword argument %s of %s is not declared" % (k.arg, e.func.attr), e)
            given[names.index(k.arg)] = k.value
        if sorted(given) != list(range(len(m["args"]))):
            raise Unsupported("arguments of %s do not match its declared signature" % e.func.attr, e)
        args = []
        for i, t in enumerate(m["args"]):
            s, ta = cx.ex(given[i])
            args.append(cx.coerce(s, ta, t, e, "argument of %s" % e.func.attr))
        return "(" + " ".join(["%s.%s" % (o["namespace"], ident(e.func.attr)), recv or "self.%s" % ident(field)] + args) + ")"

    def record_getter(self, cx, e, f):
        """`obj.get_x()` on a declared record class: an argument-free observer, modelled as a field of the record"""
        if any(f.attr in r["getters"] for r in self.mod.records.values()):
            s, t = cx.ex(f.value)
            cx.resolve_record(t, f.attr, e)
            if kind(t) == "obj" and t.find().name in self.mod.records and f.attr in self.mod.records[t.find().name]["getters"]:
                if e.args or e.keywords:
                    raise Unsupported("observer %s called with arguments" % f.attr, e)
                return "%s.%s" % (s, ident(f.attr)), self.mod.records[t.find().name]["getters"][f.attr]
        return None

    def bind_args(self, cx, fn, e):
        """positional + keyword arguments matched against fn.params; defaults filled in"""
        given = {}
        if len(e.args) > len(fn.params):
            raise Unsupported("too many arguments in call of %s" % fn.name, e)
        for (pn, _, _), a in zip(fn.params, e.args):
            given[pn] = a
        for k in e.keywords:
            if k.arg in given or k.arg not in [p[0] for p in fn.params]:
                raise Unsupported("bad keyword argument %s in call of %s" % (k.arg, fn.name), e)
            given[k.arg] = k.value
        out = []
        for pn, pt, dflt in fn.params:
            if pn in given:
                s, t = cx.ex(given[pn])
                out.append(cx.coerce(s, t, pt, e, "argument %s of %s" % (pn, fn.name)))
            elif dflt is not None:
                out.append(dflt)
            else:
                raise Unsupported("missing argument %s in call of %s" % (pn, fn.name), e)
        return out

    def translated_call(self, cx, fn, with_self, e, self_term="self"):
        args = self.bind_args(cx, fn, e)
        head = fn.lean_name if fn is not cx.fn else cx.rec_head()
        parts = [head] + (["F"] if fn.uses_abstract else []) + ([self_term] if with_self else []) + args
        return "(" + " ".join(parts) + ")", fn.result_type()

    # ---------------------------------------------------------------- builtins
    def one(self, cx, e, n=1):
        if len(e.args) != n or e.keywords:
            raise Unsupported("unexpected arguments in call of %s" % dotted(e.func), e)
        return [cx.ex(a) for a in e.args]

    def lib_tuple(self, cx, e):
        if not e.args and not e.keywords:
            return "[]", TList(TVar())
        (s, t), = self.one(cx, e)
        k = cx.need(t, ("list", "arr", "set"), e, "argument of tuple()/list()")
        return s, TList(t.find().args[0])
    lib_list = lib_tuple

    def lib_set(self, cx, e):
        if not e.args and not e.keywords:
            return "[]", TSet(TVar())
        (s, t), = self.one(cx, e)
        k = cx.need(t, ("list", "set"), e, "argument of set()")
        if k == "set":
            return s, t
        return "(PyRt.setOfList %s)" % s, TSet(t.find().args[0])

    def lib_len(self, cx, e):
        (s, t), = self.one(cx, e)
        cx.need(t, ("list", "set", "arr", "dict"), e, "argument of len()")
        return "(PyRt.len %s)" % s, TInt

    def lib_sum(self, cx, e):
        (s, t), = self.one(cx, e)
        cx.need(t, ("list", "arr", "set"), e, "argument of sum()")
        unify(t.find().args[0], TInt, e, "elements of sum()")
        return "(PyRt.sum %s)" % s, TInt

    def lib_abs(self, cx, e):
        (s, t), = self.one(cx, e)
        unify(t, TInt, e, "argument of abs()")
        return "(PyRt.abs %s)" % s, TInt

    def lib_int(self, cx, e):
        (s, t), = self.one(cx, e)
        k = cx.need(t, ("int", "rat", "bool"), e, "argument of int()")
        if k == "bool":
            return "(PyRt.boolToInt %s)" % s, TInt
        return (s, TInt) if k == "int" else ("(PyRt.truncQ %s)" % s, TInt)

    def lib_sorted(self, cx, e):
        (s, t), = self.one(cx, e)
        cx.need(t, ("list", "set", "arr"), e, "argument of sorted()")
        unify(t.find().args[0], TInt, e, "elements of sorted()")
        return "(PyRt.sorted %s)" % s, TList(TInt)

    def lib_reversed(self, cx, e):
        (s, t), = self.one(cx, e)
        cx.need(t, ("list", "arr"), e, "argument of reversed()")
        return "(List.reverse %s)" % s, TList(t.find().args[0])

    def lib_numpy_sum(self, cx, e):
        return self.lib_sum(cx, e)

    def lib_math_ceil(self, cx, e):
        (s, t), = self.one(cx, e)
        k = cx.need(t, ("int", "rat"), e, "argument of math.ceil")
        return (s, TInt) if k == "int" else ("(PyRt.ceilQ %s)" % s, TInt)

    def lib_all(self, cx, e, f="all"):
        (s, t), = self.one(cx, e)
        cx.need(t, ("list",), e, "argument of %s()" % f)
        unify(t.find().args[0], TBool, e, "elements of %s()" % f)
        return "(PyRt.%s %s)" % (f, s), TBool

    def lib_any(self, cx, e):
        return self.lib_all(cx, e, "any")

    def minmax(self, cx, e, f):
        if len(e.args) == 1 and not e.keywords and f == "max":
            (s, t), = self.one(cx, e)
            cx.need(t, ("list", "arr", "set"), e, "argument of max()")
            unify(t.find().args[0], TInt, e, "elements of max()")
            return "(PyRt.maxList %s)" % s, TInt
        (a, ta), (b, tb) = self.one(cx, e, 2)
        a, b, t = cx.numeric_join(a, ta, b, tb, e)
        return "(%s %s %s)" % (f, a, b), t

    def lib_max(self, cx, e):
        return self.minmax(cx, e, "max")

    def lib_min(self, cx, e):
        return self.minmax(cx, e, "min")

    def lib_range(self, cx, e):
        s, t = cx.iter_expr(e)
        return s, TList(t)

    def lib_map(self, cx, e):
        if e.keywords or len(e.args) not in (2, 3) or not isinstance(e.args[0], ast.Lambda):
            raise Unsupported("map() is supported with a lambda and one or two sequences", e)
        seqs = []
        for a in e.args[1:]:
            s, t = cx.ex(a)
            cx.need(t, ("list", "arr", "set"), a, "sequence argument of map()")
            seqs.append((s, t.find().args[0]))
        lam, tb = cx.lambda_term(e.args[0], [t for _, t in seqs])
        f = "List.map" if len(seqs) == 1 else "List.zipWith"
        return "(%s %s %s)" % (f, lam, " ".join(s for s, _ in seqs)), TList(tb)

    # ---------------------------------------------------------------- library bindings
    def lib_math_factorial(self, cx, e):
        (s, t), = self.one(cx, e)
        unify(t, TInt, e, "argument of math.factorial")
        return "(PyRt.factorial %s)" % s, TInt

    def int_dtype(self, e, npos):
        if len(e.args) != npos or [k.arg for k in e.keywords] != ["dtype"] or dotted(e.keywords[0].value) != "int":
            raise Unsupported("numpy constructor supported only as %s(<%d args>, dtype=int)" % (dotted(e.func), npos), e)

    def lib_numpy_array(self, cx, e):
        if len(e.args) == 1 and not e.keywords:        # np.array(x) / np.asarray(x) of a (nested) sequence: the same values
            s, t = cx.ex(e.args[0])
            cx.need(t, ("list", "arr"), e, "argument of np.array / np.asarray")
            return s, t
        self.int_dtype(e, 1)
        s, t = cx.ex(e.args[0])
        cx.need(t, ("list", "arr"), e, "argument of np.array")
        unify(t.find().args[0], TInt, e, "np.array(dtype=int)")
        return s, TArr(TInt)

    lib_numpy_asarray = lib_numpy_array

    def lib_numpy_empty(self, cx, e):
        a = e.args[0] if len(e.args) == 1 and not e.keywords else None
        if not (isinstance(a, ast.Tuple) and len(a.elts) == 2 and isinstance(a.elts[0], ast.Constant) and a.elts[0].value == 0):
            raise Unsupported("np.empty is supported only as np.empty((0, n)) (no rows)", e)
        s, t = cx.ex(a.elts[1])
        unify(t, TInt, e, "row length of np.empty")
        return "[]", TList(TList(TVar()))

    def lib_zip(self, cx, e):
        (a, ta), (b, tb) = self.one(cx, e, 2)
        cx.need(ta, ("list", "arr"), e, "first argument of zip()")
        cx.need(tb, ("list", "arr"), e, "second argument of zip()")
        return "(List.zip %s %s)" % (a, b), TList(TProd([ta.find().args[0], tb.find().args[0]]))

    def lib_numpy_zeros(self, cx, e):
        if len(e.args) != 1 or e.keywords:
            raise Unsupported("np.zeros is supported as np.zeros(n) (a float vector)", e)
        s, t = cx.ex(e.args[0])
        unify(t, TInt, e, "np.zeros size")
        return "(List.replicate (Int.toNat %s) ((0 : Int) : Rat))" % s, TList(TRat)

    def lib_numpy_ones(self, cx, e):
        self.int_dtype(e, 1)
        s, t = cx.ex(e.args[0])
        unify(t, TInt, e, "np.ones size")
        return "(PyRt.npOnes %s)" % s, TArr(TInt)

    def lib_numpy_full(self, cx, e):
        self.int_dtype(e, 2)
        s, t = cx.ex(e.args[0])
        v, tv = cx.ex(e.args[1])
        unify(t, TInt, e, "np.full size")
        unify(tv, TInt, e, "np.full value")
        return "(PyRt.npFull %s %s)" % (s, v), TArr(TInt)

    def lib_itertools_product(self, cx, e):
        if len(e.args) != 1 or not isinstance(e.args[0], ast.Starred) or e.keywords:
            raise Unsupported("itertools.product is supported in the form product(*seqs)", e)
        s, t = cx.ex(e.args[0].value)
        te = TVar()
        unify(t, TList(TList(te)), e, "argument of product(*..)")
        return "(PyRt.product %s)" % s, TList(TList(te))

    def ext_ctor(self, cx, name, e):
        fields = self.mod.ext_classes[name]
        given = {}
        for (fname, _), a in zip(fields, e.args):
            given[fname] = a
        for k in e.keywords:
            given[k.arg] = k.value
        if set(given) != {f for f, _ in fields} or len(e.args) > len(fields):
            raise Unsupported("constructor %s needs exactly the fields %s" % (name, [f for f, _ in fields]), e)
        parts = []
        for fname, ft in fields:
            s, t = cx.ex(given[fname])
            parts.append("%s := %s" % (ident(fname), cx.coerce(s, t, ft, e, "field %s of %s" % (fname, name))))
        return "({ %s } : PyRt.%s)" % (", ".join(parts), name), TObj("PyRt." + name)

    # ---------------------------------------------------------------- pure methods on values
    def meth_items(self, cx, e, obj):
        s, t = cx.ex(obj)
        if kind(t) != "dict" or e.args or e.keywords:
            raise Unsupported(".items() on a non-dict", e)
        return s, TList(TProd([t.find().args[0], t.find().args[1]]))

    def meth_get(self, cx, e, obj):
        s, t = cx.ex(obj)
        if kind(t) != "dict" or e.keywords or len(e.args) not in (1, 2):
            raise Unsupported(".get() on a non-dict", e)
        k, tk = cx.ex(e.args[0])
        unify(tk, t.find().args[0], e, "key of .get()")
        tv = t.find().args[1]
        if len(e.args) == 1 or (isinstance(e.args[1], ast.Constant) and e.args[1].value is None):
            return "(PyRt.dictGet? %s %s)" % (s, k), TOpt(tv)
        d, td = cx.ex(e.args[1])
        d = cx.coerce(d, td, tv, e, "default of .get()")
        return "(Option.getD (PyRt.dictGet? %s %s) %s)" % (s, k, d), tv

    def meth_keys(self, cx, e, obj):
        s, t = cx.ex(obj)
        if kind(t) != "dict" or e.args or e.keywords:
            raise Unsupported(".keys() on a non-dict", e)
        return "(List.map (fun p => p.1) %s)" % s, TList(t.find().args[0])

    def meth_values(self, cx, e, obj):
        s, t = cx.ex(obj)
        if kind(t) != "dict" or e.args or e.keywords:
            raise Unsupported(".values() on a non-dict", e)
        return "(List.map (fun p => p.2) %s)" % s, TList(t.find().args[1])

    def meth_reshape(self, cx, e, obj):
        s, t = cx.ex(obj)
        if kind(t) not in ("list", "arr") or e.keywords or len(e.args) != 1:
            raise Unsupported(".reshape() on an unsupported value", e)
        cx.ex(e.args[0]) if not isinstance(e.args[0], ast.Tuple) else [cx.ex(x) for x in e.args[0].elts]
        cx.mod.record("assumed", cx.fn, e, "`%s` keeps the rows (it raises unless the array already has that shape)" % ast.unparse(e))
        return s, t

    def meth_copy(self, cx, e, obj):
        s, t = cx.ex(obj)
        if e.args or e.keywords or kind(t) not in ("list", "set", "dict", "arr"):
            raise Unsupported(".copy() on an unsupported value", e)
        return s, t


BUILTINS = {"tuple", "list", "set", "len", "sum", "abs", "max", "min", "range", "map", "int", "all", "any", "sorted", "reversed", "zip"}
