"""Types of the translated Python subset, with unification (stdlib only)."""


class Unsupported(Exception):
    """raised for syntax / typing outside the translated subset; carries the offending ast node"""

    def __init__(self, msg, node=None):
        Exception.__init__(self, msg)
        self.node = node


class T:
    """type term: kind in {var,int,bool,rat,list,set,dict,arr,prod,opt,obj,unit}; args = sub-terms"""
    _n = 0

    def __init__(self, kind, args=(), name=None):
        self.kind = kind
        self.args = list(args)
        self.name = name
        self.ref = None          # for kind == "var": the term it was unified with
        if kind == "var":
            T._n += 1
            self.id = T._n

    def find(self):
        t = self
        while t.kind == "var" and t.ref is not None:
            t = t.ref
        return t

    def __repr__(self):
        return lean_type(self, strict=False)


def TVar():
    return T("var")


TInt = T("int")
TBool = T("bool")
TRat = T("rat")
TUnit = T("unit")


def TList(e):
    return T("list", [e])


def TSet(e):
    return T("set", [e])


def TArr(e):
    return T("arr", [e])


def TDict(k, v):
    return T("dict", [k, v])


def TProd(ts):
    return T("prod", ts)


def TOpt(e):
    return T("opt", [e])


def TObj(name):
    return T("obj", name=name)


def unify(a, b, node=None, what=""):
    a, b = a.find(), b.find()
    if a is b:
        return
    if a.kind == "var":
        a.ref = b
        return
    if b.kind == "var":
        b.ref = a
        return
    if a.kind != b.kind or len(a.args) != len(b.args) or a.name != b.name:
        raise Unsupported("type mismatch %s: %r vs %r" % (what, a, b), node)
    for x, y in zip(a.args, b.args):
        unify(x, y, node, what)


def kind(t):
    return t.find().kind


def is_mutable(t):
    return kind(t) in ("list", "set", "dict", "arr", "obj", "var")


def lean_type(t, strict=True):
    t = t.find()
    k = t.kind
    if k == "var":
        if strict:
            raise Unsupported("cannot infer a type (unresolved type variable ?%d)" % t.id)
        return "?%d" % t.id
    if k == "int":
        return "Int"
    if k == "bool":
        return "Bool"
    if k == "rat":
        return "Rat"
    if k == "unit":
        return "Unit"
    if k in ("list", "set", "arr"):
        return "List " + atom(t.args[0], strict)
    if k == "dict":
        return "List (%s × %s)" % (lean_type(t.args[0], strict), lean_type(t.args[1], strict))
    if k == "prod":
        return " × ".join(atom(x, strict) for x in t.args)
    if k == "opt":
        return "Option " + atom(t.args[0], strict)
    if k == "obj":
        return t.name
    raise Unsupported("unknown type kind " + k)


def atom(t, strict=True):
    s = lean_type(t, strict)
    return "(" + s + ")" if " " in s else s
