#!/usr/bin/env python3
"""py2lean -- syntax-directed translator of the Python subset used by sparseSpACE/combiScheme.py into Lean 4 definitions.

    py2lean.py [--repo DIR] [--out FILE.lean] [--json FILE.json] [--file REL.py] [--class NAME]

Reads <repo>/sparseSpACE/combiScheme.py (class CombiScheme; functions it calls from `from ... import *` modules of the
same package are translated as well) and writes one Lean definition per Python function to namespace SparseSpace.Gen.
Nothing is keyed by function names or source text: every construct is translated by the rule for its syntax node and the
inferred types of its operands.  Unsupported syntax -> exit code 2 and a message naming the node.  Python stdlib only.
"""
import argparse
import ast
import hashlib
import json
import os
import re
import sys

sys.path.insert(0, os.path.dirname(os.path.abspath(__file__)))
from pytypes import (T, TVar, TInt, TBool, TRat, TUnit, TList, TSet, TArr, TDict, TProd, TOpt, TObj,   # noqa: E402
                     unify, kind, is_mutable, lean_type, atom, Unsupported)
from exprs import ident, int_lit                                                                         # noqa: E402
from calls import Calls, BUILTINS, dotted                                                                # noqa: E402
from stmts import FnCtx, FnFin, indent                                                                   # noqa: E402

# library bindings: classes of other modules that are only constructed / read (fields and their types)
EXT_CLASSES = {"ComponentGridInfo": [("levelvector", TList(TInt)), ("coefficient", TRat)]}
IGNORED_MODULES = {"typing"}


class Scope:
    """imports of one source file"""

    def __init__(self, tree):
        self.modules, self.names, self.star = {}, {}, []
        for n in tree.body:
            if isinstance(n, ast.Import):
                for a in n.names:
                    self.modules[a.asname or a.name] = a.name
            elif isinstance(n, ast.ImportFrom) and n.module:
                for a in n.names:
                    if a.name == "*":
                        self.star.append(n.module)
                    elif n.module not in IGNORED_MODULES:
                        self.names[a.asname or a.name] = n.module + "." + a.name

    def canon(self, name):
        if name in self.names:
            return self.names[name]
        head = name.split(".")[0]
        if head in self.modules and "." in name:
            return self.modules[head] + name[len(head):]
        if name in BUILTINS:
            return name
        return None


class FuncInfo:
    def __init__(self, node, cls, scope, relfile):
        self.node, self.cls, self.scope, self.relfile = node, cls, scope, relfile
        self.name = node.name
        self.lean_name = ident(node.name)
        self.is_static = any(dotted(d) == "staticmethod" for d in node.decorator_list)
        self.is_ctor = cls and node.name == "__init__"
        self.is_method = cls and not self.is_static
        self.params = []
        self.ret = TVar()
        self.mutates = False
        self.ret_mode = "unit"
        self.recursive = False
        self.measure = None
        self.returns_alias = False
        self.out_params = []       # record parameters whose elements the function changes: returned next to the result
        self.calls = []

    def value_type(self):
        return {"unit": TUnit, "value": self.ret, "option": TOpt(self.ret)}[self.ret_mode]

    def result_type(self):
        return self.value_type()

    def full_type(self, mod):
        parts = ([mod.cls_type] if self.mutates else []) + [t for n, t, _ in self.params if n in self.out_params] \
            + ([] if self.ret_mode == "unit" else [self.value_type()])
        return TUnit if not parts else (parts[0] if len(parts) == 1 else TProd(parts))


def always_returns(stmts):
    for s in stmts:
        if isinstance(s, ast.Return):
            return True
        if isinstance(s, ast.If) and always_returns(s.body) and always_returns(s.orelse):
            return True
    return False


class Module:
    def __init__(self, repo, relfile, cls_name, spec=None):
        self.repo, self.relfile, self.cls_name = repo, relfile, cls_name
        self.spec = spec or {}
        self.namespace = self.spec.get("namespace", "SparseSpace.Gen")
        self.state_name = self.spec.get("state_name", cls_name)
        self.assume = {k: list(v) for k, v in self.spec.get("assume", {}).items()}
        self.fuel = {k: (v if isinstance(v, list) else [v]) for k, v in self.spec.get("fuel", {}).items()}
        self.ignore_calls = set(self.spec.get("ignore_calls", []))
        self.records = {}
        self.objects = {}          # classes translated elsewhere (another generated module): name -> {lean_type, namespace, import, methods}
        self.records_log = []
        self.trefs = {}
        self.shared_attrs, self.mutated_attrs = {}, {}
        self.calls = Calls(self)
        self.cur_scope = None
        path = os.path.join(repo, relfile)
        self.src = open(path, encoding="utf-8").read()
        tree = ast.parse(self.src, filename=relfile)
        self.scope = Scope(tree)
        self.scope.modules.update(self.spec.get("modules", {}))
        for name, o in self.spec.get("objects", {}).items():
            self.objects[name] = dict(o, methods={})
        for name, o in self.spec.get("objects", {}).items():
            for m, sig in o.get("methods", {}).items():
                self.objects[name]["methods"][m] = {"args": [self.type_of_text(a) for a in sig.get("args", [])], "mutates": bool(sig.get("mutates")),
                                                    "ret": self.type_of_text(sig["ret"]) if sig.get("ret") else None}
        for name in self.spec.get("records", {}):        # declared interfaces of classes of other modules (two passes: they may refer to each other)
            self.records[name] = {"fields": [], "getters": {}}
        for name, r in self.spec.get("records", {}).items():
            self.records[name]["fields"] = [(f, self.type_of_text(t)) for f, t in r.get("fields", {}).items()]
            self.records[name]["getters"] = {m: self.type_of_text(t) for m, t in r.get("getters", {}).items()}
        self.ext_classes = {k: v for k, v in EXT_CLASSES.items() if self.scope.names.get(k, "").endswith("." + k)}
        cdef = [n for n in tree.body if isinstance(n, ast.ClassDef) and n.name == cls_name]
        if len(cdef) != 1:
            raise Unsupported("class %s not found in %s" % (cls_name, relfile))
        cdef = cdef[0]
        self.cls_type = TObj(self.state_name)
        self.funcs = {}
        methods = {}
        for n in cdef.body:
            if isinstance(n, ast.FunctionDef):
                if n.name in methods:
                    raise Unsupported("method %s defined twice" % n.name, n)
                methods[n.name] = n
            elif isinstance(n, (ast.Assign, ast.AnnAssign)):
                raise Unsupported("class-level attribute", n)
            elif not (isinstance(n, ast.Expr) and isinstance(n.value, ast.Constant)) and not isinstance(n, ast.Pass):
                raise Unsupported("unsupported class member %s" % type(n).__name__, n)
        selected = self.spec.get("functions")
        if selected is None:
            selected = list(methods)
        else:                                             # the slice: the listed methods and every method of the class they call
            todo = list(selected)
            while todo:
                f = todo.pop()
                if f not in methods:
                    raise Unsupported("method %s of the spec not found in class %s" % (f, cls_name))
                for c in ast.walk(methods[f]):
                    if isinstance(c, ast.Call) and isinstance(c.func, ast.Attribute) and isinstance(c.func.value, ast.Name) \
                            and c.func.value.id in ("self", cls_name) and c.func.attr in methods and c.func.attr not in selected:
                        selected.append(c.func.attr)
                        todo.append(c.func.attr)
        for name in methods:
            if name in selected:
                self.funcs[name] = FuncInfo(methods[name], True, self.scope, relfile)
        self.fields = {f: self.type_of_text(t) for f, t in self.spec.get("fields", {}).items()}
        for fn in list(self.funcs.values()):
            for n in ast.walk(fn.node):
                if isinstance(n, ast.Attribute) and isinstance(n.ctx, ast.Store) and isinstance(n.value, ast.Name):
                    if n.value.id == "self" and fn.is_method and "fields" not in self.spec:
                        self.fields.setdefault(n.attr, TVar())
                    elif n.value.id == cls_name:
                        raise Unsupported("assignment to the class attribute %s.%s (shared by all instances)" % (cls_name, n.attr), n)
        self.pull_star_functions()
        self.analyse()

    def canon(self, name):
        return (self.cur_scope or self.scope).canon(name)

    # ------------------------------------------------------------------ functions of `from m import *` modules
    def pull_star_functions(self):
        star = {}
        for m in self.scope.star:
            rel = m.replace(".", "/") + ".py"
            p = os.path.join(self.repo, rel)
            if os.path.exists(p):
                tree = ast.parse(open(p, encoding="utf-8").read(), filename=rel)
                sc = Scope(tree)
                for n in tree.body:
                    if isinstance(n, ast.FunctionDef):
                        star.setdefault(n.name, (n, sc, rel))
        todo = list(self.funcs.values())
        while todo:
            fn = todo.pop()
            for n in ast.walk(fn.node):
                if isinstance(n, ast.Call) and isinstance(n.func, ast.Name):
                    f = n.func.id
                    if f in star and f not in self.funcs and fn.scope.canon(f) is None and f not in self.ext_classes:
                        node, sc, rel = star[f]
                        self.funcs[f] = FuncInfo(node, False, sc, rel)
                        todo.append(self.funcs[f])

    # ------------------------------------------------------------------ whole-module analyses
    def callee(self, fn, call):
        f = call.func
        if isinstance(f, ast.Attribute) and isinstance(f.value, ast.Name) and f.value.id in ("self", self.cls_name) \
                and fn.cls and f.attr in self.funcs and self.funcs[f.attr].cls:
            return self.funcs[f.attr]
        if isinstance(f, ast.Name) and f.id in self.funcs and not self.funcs[f.id].cls:
            return self.funcs[f.id]
        return None

    def analyse(self):
        for fn in self.funcs.values():
            for n in ast.walk(fn.node):
                if isinstance(n, ast.Call):
                    c = self.callee(fn, n)
                    if c is not None and c not in fn.calls:
                        fn.calls.append(c)
                if isinstance(n, (ast.FunctionDef, ast.AsyncFunctionDef)) and n is not fn.node:
                    raise Unsupported("nested function definition", n)
                if isinstance(n, (ast.Global, ast.Nonlocal, ast.Yield, ast.YieldFrom, ast.Await, ast.Try, ast.With,
                                  ast.Delete, ast.Raise, ast.ClassDef, ast.Continue)):
                    raise Unsupported("unsupported statement %s in %s" % (type(n).__name__, fn.name), n)
            fn.recursive = fn in fn.calls
        # state-changing methods (fixpoint over the call graph)
        for fn in self.funcs.values():
            if not fn.is_method:
                continue
            for n in ast.walk(fn.node):
                if isinstance(n, ast.Attribute) and isinstance(n.value, ast.Name) and n.value.id == "self":
                    if isinstance(n.ctx, ast.Store):
                        fn.mutates = True
            for n in ast.walk(fn.node):
                if isinstance(n, ast.Call) and isinstance(n.func, ast.Attribute) and n.func.attr in ("append", "extend", "add", "remove", "discard"):
                    v = n.func.value
                    if isinstance(v, ast.Attribute) and isinstance(v.value, ast.Name) and v.value.id == "self":
                        fn.mutates = True
                if isinstance(n, (ast.Assign, ast.AugAssign)):
                    for t in (n.targets if isinstance(n, ast.Assign) else [n.target]):
                        if isinstance(t, ast.Subscript):
                            v = t.value
                            if isinstance(v, ast.Attribute) and isinstance(v.value, ast.Name) and v.value.id == "self":
                                fn.mutates = True
        for fn in self.funcs.values():
            for n in ast.walk(fn.node):
                if isinstance(n, ast.Call):
                    om = self.object_method(fn, n)
                    if om is not None and om[2]["mutates"]:
                        fn.mutates = True
        changed = True
        while changed:
            changed = False
            for fn in self.funcs.values():
                if fn.is_method and not fn.mutates and any(c.mutates and c.is_method for c in fn.calls):
                    fn.mutates = changed = True
        # shape of the result
        for fn in self.funcs.values():
            rets = [n for n in ast.walk(fn.node) if isinstance(n, ast.Return)]
            valued = [r for r in rets if r.value is not None and not (isinstance(r.value, ast.Constant) and r.value.value is None)]
            bare = len(valued) < len(rets) or not always_returns(fn.node.body)
            fn.ret_mode = "unit" if not valued else ("option" if bare else "value")
            if fn.is_ctor:
                if valued:
                    raise Unsupported("__init__ returns a value", fn.node)
                fn.mutates = True
            for r in valued:
                v = r.value
                if isinstance(v, ast.Attribute) and isinstance(v.value, ast.Name) and v.value.id == "self":
                    fn.returns_alias = True
                if isinstance(v, ast.Name) and v.id in [a.arg for a in fn.node.args.args]:
                    fn.returns_alias = True
        # out-parameters: `for x in p.member(): ... x.attr = ...` with p a parameter
        for fn in self.funcs.values():
            pnames = [a.arg for a in fn.node.args.args]
            for n in ast.walk(fn.node):
                if isinstance(n, ast.For) and isinstance(n.target, ast.Name):
                    src = n.iter.func if isinstance(n.iter, ast.Call) else n.iter
                    if isinstance(src, ast.Attribute) and isinstance(src.value, ast.Name) and src.value.id in pnames and src.value.id != "self" \
                            and any(isinstance(m, ast.Attribute) and isinstance(m.ctx, ast.Store) and isinstance(m.value, ast.Name)
                                    and m.value.id == n.target.id for b in n.body for m in ast.walk(b)):
                        if src.value.id not in fn.out_params:
                            fn.out_params.append(src.value.id)
        # mutual recursion is not supported; order: callees first, otherwise source order
        order, state = [], {}

        def visit(fn, stack):
            if state.get(fn.name) == "done":
                return
            if state.get(fn.name) == "open":
                raise Unsupported("mutually recursive functions %s" % " -> ".join(s.name for s in stack + [fn]), fn.node)
            state[fn.name] = "open"
            for c in fn.calls:
                if c is not fn:
                    visit(c, stack + [fn])
            state[fn.name] = "done"
            order.append(fn)
        ctor = [f for f in self.funcs.values() if f.is_ctor]
        for fn in ctor + [f for f in self.funcs.values() if not f.is_ctor]:
            visit(fn, [])
        self.order = order

    # ------------------------------------------------------------------ bookkeeping
    def object_method(self, fn, call):
        """`self.<field>.<method>(..)` with <field> an object of another generated module -> (field, object description, method description)"""
        f = call.func
        if isinstance(f, ast.Attribute) and isinstance(f.value, ast.Attribute) and isinstance(f.value.value, ast.Name) \
                and f.value.value.id == "self" and fn.is_method and f.value.attr in self.fields:
            t = self.fields[f.value.attr].find()
            for o in self.objects.values():
                if t.kind == "obj" and t.name == o["lean_type"] and f.attr in o["methods"]:
                    return f.value.attr, o, o["methods"][f.attr]
        return None

    def tref(self, t):
        n = len(self.trefs)
        self.trefs[n] = t
        return "⟪%d⟫" % n

    def record(self, what, fn, node, text):
        r = {"kind": what, "function": fn.name, "file": fn.relfile, "line": getattr(node, "lineno", 0), "text": text}
        if r not in self.records_log:
            self.records_log.append(r)

    def type_of_text(self, text):
        return self.ann_type(ast.parse(text, mode="eval").body)

    def assume_text(self):
        return "; ".join("%s in %s" % (k, tuple(v)) for k, v in self.assume.items())

    def ann_type(self, a):
        if a is None:
            return TVar()
        d = dotted(a)
        if d in self.records:
            return TObj(d)
        if d in self.objects:
            return TObj(self.objects[d]["lean_type"])
        if d in ("int",):
            return TInt
        if d in ("bool",):
            return TBool
        if d in ("float",):
            return TRat
        if isinstance(a, ast.Subscript):
            h = (dotted(a.value) or "").split(".")[-1]
            args = list(a.slice.elts) if isinstance(a.slice, ast.Tuple) else [a.slice]
            if h in ("List", "Sequence", "list", "Iterable"):
                return TList(self.ann_type(args[0]))
            if h in ("Set", "set"):
                return TSet(self.ann_type(args[0]))
            if h in ("Tuple", "tuple"):
                if len(args) == 2 and isinstance(args[1], ast.Constant) and args[1].value is Ellipsis:
                    return TList(self.ann_type(args[0]))
                return TProd([self.ann_type(x) for x in args])
            if h in ("Dict", "dict") and len(args) == 2:
                return TDict(self.ann_type(args[0]), self.ann_type(args[1]))
        return TVar()

    # ------------------------------------------------------------------ one function
    def signature(self, fn):
        a = fn.node.args
        if a.vararg or a.kwarg or a.kwonlyargs or a.posonlyargs:
            raise Unsupported("unsupported parameter kinds in %s" % fn.name, fn.node)
        args = list(a.args)
        if fn.is_method:
            if not args or args[0].arg != "self":
                raise Unsupported("method %s without self" % fn.name, fn.node)
            args = args[1:]
        defaults = [None] * (len(args) - len(a.defaults)) + list(a.defaults)
        for p, d in zip(args, defaults):
            ds = None
            if d is not None:
                if isinstance(d, ast.Constant) and d.value in (True, False) and isinstance(d.value, bool):
                    ds = "true" if d.value else "false"
                elif isinstance(d, ast.Constant) and isinstance(d.value, int):
                    ds = int_lit(d.value)
                else:
                    raise Unsupported("unsupported default value of parameter %s of %s" % (p.arg, fn.name), d)
            decl = self.spec.get("signatures", {}).get(fn.name, {}).get(p.arg)
            fn.params.append((p.arg, self.type_of_text(decl) if (decl and p.annotation is None) else self.ann_type(p.annotation), ds))

    def find_measure(self, fn):
        """a parameter that every recursive call passes as `p - <positive literal>`"""
        names = [p[0] for p in fn.params]
        calls = [n for n in ast.walk(fn.node) if isinstance(n, ast.Call) and self.callee(fn, n) is fn]
        for i, (pn, pt, _) in enumerate(fn.params):
            ok = kind(pt) == "int"
            for c in calls:
                arg = c.args[i] if i < len(c.args) else next((k.value for k in c.keywords if k.arg == pn), None)
                if not (isinstance(arg, ast.BinOp) and isinstance(arg.op, ast.Sub) and isinstance(arg.left, ast.Name) and arg.left.id == pn
                        and isinstance(arg.right, ast.Constant) and isinstance(arg.right.value, int) and arg.right.value >= 1):
                    ok = False
            reassigned = any(isinstance(n, ast.Name) and n.id == pn and isinstance(n.ctx, ast.Store) for n in ast.walk(fn.node))
            if ok and not reassigned:
                return pn
        raise Unsupported("no decreasing integer parameter found for the recursive function %s" % fn.name, fn.node)

    def translate_fn(self, fn):
        self.cur_scope = fn.scope
        cx = FnCtx(self, fn)
        for pn, pt, _ in fn.params:
            cx.set_var(pn, pt, fn.node, borrowed=True)
        pre = []
        if fn.is_ctor:
            pre = ["let self : %s := default" % self.cls_name]
        if fn.recursive:
            fn.measure = self.find_measure(fn)
            cx.fuel_name = cx.fresh("fuel")
        fn.pruned = False
        body = pre + cx.block(list(fn.node.body), FnFin(cx))
        if fn.pruned:                                      # the slice is only meaningful under the assumption: make it explicit
            guards = []
            for key, dom in self.assume.items():
                ks, kt = cx.ex(ast.parse(key, mode="eval").body)
                guards.append("(List.contains [%s] %s)" % (", ".join(int_lit(v) for v in dom), ks))
            body = ["if !(%s) then default else" % " && ".join(guards)] + body
        asserts = [r["text"] for r in self.records_log if r["kind"] == "assert" and r["function"] == fn.name and r["file"] == fn.relfile]
        doc = "`%s%s` of `%s`" % ((self.cls_name + ".") if fn.cls else "", fn.name, fn.relfile)
        if fn.pruned:
            doc += "; SLICE under the assumption %s (branches that are dead under it are not translated; outside it the result is `default`)" % self.assume_text()
        if asserts:
            doc += "; asserts of the source (hypotheses, not executed): " + "; ".join("`%s`" % a for a in asserts)
        binders = []
        if fn.is_method and not fn.is_ctor:
            binders.append(("self", self.tref(self.cls_type), None))
        for pn, pt, ds in fn.params:
            binders.append((ident(pn), self.tref(pt), ds))
        rtype = self.tref(fn.full_type(self))
        out = ["/-- %s -/" % doc]
        if not fn.recursive:
            sig = " ".join("(%s : %s%s)" % (n, t, " := " + d if d else "") for n, t, d in binders)
            out.append("def %s %s: %s :=" % (fn.lean_name, sig + " " if sig else "", rtype))
            out += indent(body)
        else:
            doc2 = ("recursion of `%s` with an explicit fuel argument (structural); fuel exhausted = the Python recursion does not "
                    "terminate, result `default`" % fn.name)
            out = ["/-- %s -/" % doc2]
            out.append("def %s.fuel : Nat → %s → %s" % (fn.lean_name, " → ".join(t for _, t, _ in binders), rtype))
            out.append("  | 0, %s => default" % ", ".join("_" for _ in binders))
            out.append("  | %s + 1, %s =>" % (cx.fuel_name, ", ".join(n for n, _, _ in binders)))
            out += indent(body, 4)
            out.append("")
            out.append("/-- %s; fuel from the parameter `%s`, which every recursive call decreases -/" % (doc, fn.measure))
            sig = " ".join("(%s : %s%s)" % (n, t, " := " + d if d else "") for n, t, d in binders)
            out.append("def %s %s : %s :=" % (fn.lean_name, sig, rtype))
            out.append("  %s.fuel (Int.toNat %s + 1) %s" % (fn.lean_name, ident(fn.measure), " ".join(n for n, _, _ in binders)))
        return out

    def translate(self):
        for fn in self.order:
            self.signature(fn)
        chunks = []
        for fn in self.order:
            chunks.append(self.translate_fn(fn))
        for f, (where, node) in self.mutated_attrs.items():
            if f in self.shared_attrs or "*" in self.shared_attrs:
                raise Unsupported("self.%s is changed in place (in %s) but is bound without copy to another name/attribute (in %s): "
                                  "value semantics would be unsound" % (f, where, self.shared_attrs.get(f, self.shared_attrs.get("*"))), node)
        head = ["/-",
                "GENERATED by tools/py2lean from %s (class %s) -- do not edit." % (self.relfile, self.cls_name),
                "One definition per Python function; `self.x` attributes are the fields of the state record, state-changing",
                "methods return the new state (paired with their result).  Helper semantics: Model/PyRt.lean.",
                "-/",
                "import SparseSpace.Model.PyRt"] + ["import %s" % o["import"] for o in self.objects.values()] + [
                "set_option linter.unusedVariables false",
                "namespace %s" % self.namespace,
                "open SparseSpace", ""]
        st = []
        for name, r in self.records.items():
            st += ["/-- declared interface of class `%s` (fields and argument-free observers that the translated functions read) -/" % name,
                   "structure %s where" % name]
            st += ["  %s : %s" % (ident(f), self.tref(t)) for f, t in r["fields"]]
            st += ["  %s : %s" % (ident(m), self.tref(t)) for m, t in r["getters"].items()]
            st += ["deriving Repr, Inhabited", ""]
        st += ["/-- attributes assigned through `self.` anywhere in class `%s` (an attribute that was never assigned reads as `default`) -/" % self.cls_name
               if "fields" not in self.spec else
               "/-- the attributes of class `%s` that the translated functions use (declared in the spec) -/" % self.cls_name,
               "structure %s where" % self.state_name]
        for f, t in self.fields.items():
            st.append("  %s : %s" % (ident(f), self.tref(t)))
        st += ["deriving Repr, Inhabited", ""]
        text = "\n".join(head + st + [l for c in chunks for l in c + [""]] + ["end %s" % self.namespace, ""])
        text = re.sub(r"⟪(\d+)⟫", lambda m: lean_type(self.trefs[int(m.group(1))]), text)
        return text

    def side_info(self):
        return {"source": self.relfile, "class": self.cls_name,
                "functions": [{"python": fn.name, "lean": self.namespace + "." + fn.name, "file": fn.relfile, "line": fn.node.lineno,
                               "state_changing": fn.mutates, "result": fn.ret_mode, "static": fn.is_static,
                               "recursive_fuel_from": fn.measure} for fn in self.order],
                "fields": {f: lean_type(t, strict=False) for f, t in self.fields.items()},
                "asserts": [r for r in self.records_log if r["kind"] == "assert"],
                "dropped": [r for r in self.records_log if r["kind"] == "dropped"],
                "pruned": [r for r in self.records_log if r["kind"] == "pruned"],
                "fuel": [r for r in self.records_log if r["kind"] == "fuel"],
                "assume": self.assume,
                "library_bindings": sorted(list(BUILTINS) + ["math.factorial", "numpy.array", "numpy.ones", "numpy.full", "itertools.product"] + list(self.ext_classes))}


def main():
    ap = argparse.ArgumentParser()
    ap.add_argument("--repo", default=os.environ.get("VERIF_REPO", "/repo"))
    ap.add_argument("--file", default="sparseSpACE/combiScheme.py")
    ap.add_argument("--class", dest="cls", default="CombiScheme")
    ap.add_argument("--out", default="-")
    ap.add_argument("--json", default=None)
    ap.add_argument("--spec", default=None, help="JSON description of a slice of a class (functions, state fields, record interfaces, assumptions, fuel)")
    a = ap.parse_args()
    try:
        spec = json.load(open(a.spec)) if a.spec else None
        if spec:
            a.file, a.cls = spec.get("file", a.file), spec.get("class", a.cls)
        mod = Module(a.repo, a.file, a.cls, spec)
        text = mod.translate()
    except Unsupported as e:
        node = e.node
        where = ""
        if node is not None and hasattr(node, "lineno"):
            where = " at line %d col %d (%s)" % (node.lineno, getattr(node, "col_offset", 0), type(node).__name__)
            try:
                where += ": " + ast.unparse(node).split("\n")[0][:120]
            except Exception:
                pass
        sys.stderr.write("py2lean: unsupported%s: %s\n" % (where, e))
        sys.exit(2)
    except SyntaxError as e:
        sys.stderr.write("py2lean: the source does not parse: %s\n" % e)
        sys.exit(2)
    if a.out == "-":
        sys.stdout.write(text)
    else:
        open(a.out, "w", encoding="utf-8").write(text)
    if a.json:
        json.dump(mod.side_info(), open(a.json, "w"), indent=1)


if __name__ == "__main__":
    main()
