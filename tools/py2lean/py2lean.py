#!/usr/bin/env python3
"""py2lean -- syntax-directed translator of the Python subset used by sparseSpACE/combiScheme.py into Lean 4 definitions.

    py2lean.py [--repo DIR] [--out FILE.lean] [--json FILE.json] [--file REL.py] [--class NAME]

Reads <repo>/sparseSpACE/combiScheme.py (class CombiScheme; functions it calls from `from ... import *` modules of the
same package are translated as well) and writes one Lean definition per Python function to namespace SparseSpace.Gen.
Nothing is keyed by function names or source text: every construct is translated by the rule for its syntax node and the
inferred types of its operands.  Unsupported syntax -> exit code 2 and a message naming the node.  Python stdlib only.
"""
import argparse
import ast
import hashlib
import json
import os
import re
import sys

sys.path.insert(0, os.path.dirname(os.path.abspath(__file__)))
from pytypes import (T, TVar, TInt, TBool, TRat, TUnit, TList, TSet, TArr, TDict, TProd, TOpt, TObj,   # noqa: E402
                     unify, kind, is_mutable, lean_type, atom, Unsupported)
from exprs import ident, int_lit                                                                         # noqa: E402
from calls import Calls, BUILTINS, dotted                                                                # noqa: E402
from stmts import FnCtx, FnFin, Widen, indent                                                                   # noqa: E402

# library bindings: classes of other modules that are only constructed / read (fields and their types)
EXT_CLASSES = {"ComponentGridInfo": [("levelvector", TList(TInt)), ("coefficient", TRat)]}
IGNORED_MODULES = {"typing"}


class Scope:
    """imports of one source file"""

    def __init__(self, tree):
        self.modules, self.names, self.star = {}, {}, []
        for n in tree.body:
            if isinstance(n, ast.Import):
                for a in n.names:
                    self.modules[a.asname or a.name] = a.name
            elif isinstance(n, ast.ImportFrom) and n.module:
                for a in n.names:
                    if a.name == "*":
                        self.star.append(n.module)
                    elif n.module not in IGNORED_MODULES:
                        self.names[a.asname or a.name] = n.module + "." + a.name

    def canon(self, name):
        if name in self.names:
            return self.names[name]
        head = name.split(".")[0]
        if head in self.modules and "." in name:
            return self.modules[head] + name[len(head):]
        if name in BUILTINS:
            return name
        return None


class FuncInfo:
    def __init__(self, node, cls, scope, relfile):
        self.node, self.cls, self.scope, self.relfile = node, cls, scope, relfile
        self.name = node.name
        self.lean_name = ident(node.name)
        self.is_static = any(dotted(d) == "staticmethod" for d in node.decorator_list)
        self.is_ctor = cls and node.name == "__init__"
        self.is_method = cls and not self.is_static
        self.params = []
        self.ret = TVar()
        self.mutates = False
        self.ret_mode = "unit"
        self.recursive = False
        self.measure = None
        self.returns_alias = False
        self.fresh_returns = []    # per `return` of a mutable value: is it a fresh object (no alias of state / parameters)?
        self.variant = None        # typed reading of a dynamically typed method (spec "variants")
        self.owner = None          # class of a family (spec "family") that defines this method itself
        self.widen = set()         # loop-carried variables initialised with an int that receive a float (held as Rat)
        self.uses_abstract = False
        self.out_params = []       # record parameters whose elements the function changes: returned next to the result
        self.calls = []

    def value_type(self):
        return {"unit": TUnit, "value": self.ret, "option": TOpt(self.ret)}[self.ret_mode]

    def result_type(self):
        return self.value_type()

    def full_type(self, mod):
        if getattr(self, "prefix_types", None) is not None:
            parts = ([mod.cls_type] if self.mutates else []) + [t for n, t, _ in self.params if n in self.out_params] + list(self.prefix_types)
            return TUnit if not parts else (parts[0] if len(parts) == 1 else TProd(parts))
        parts = ([mod.cls_type] if self.mutates else []) + [t for n, t, _ in self.params if n in self.out_params] \
            + ([] if self.ret_mode == "unit" else [self.value_type()])
        return TUnit if not parts else (parts[0] if len(parts) == 1 else TProd(parts))


def const_fraction(e):
    """value of a constant arithmetic expression over exact rationals (`10 ** -3` = 1/1000), else None"""
    from fractions import Fraction
    try:
        if isinstance(e, ast.Constant) and isinstance(e.value, (int, float)) and not isinstance(e.value, bool):
            return Fraction(str(e.value))
        if isinstance(e, ast.UnaryOp) and isinstance(e.op, ast.USub):
            v = const_fraction(e.operand)
            return None if v is None else -v
        if isinstance(e, ast.BinOp):
            a, b = const_fraction(e.left), const_fraction(e.right)
            if a is None or b is None:
                return None
            if isinstance(e.op, ast.Add):
                return a + b
            if isinstance(e.op, ast.Sub):
                return a - b
            if isinstance(e.op, ast.Mult):
                return a * b
            if isinstance(e.op, ast.Div):
                return a / b
            if isinstance(e.op, ast.Pow) and b.denominator == 1:
                return a ** int(b)
    except Exception:
        return None
    return None


def always_returns(stmts):
    for s in stmts:
        if isinstance(s, ast.Return):
            return True
        if isinstance(s, ast.If) and always_returns(s.body) and always_returns(s.orelse):
            return True
    return False


class Module:
    def __init__(self, repo, relfile, cls_name, spec=None):
        self.repo, self.relfile, self.cls_name = repo, relfile, cls_name
        self.spec = spec or {}
        self.namespace = self.spec.get("namespace", "SparseSpace.Gen")
        self.state_name = self.spec.get("state_name", cls_name)
        self.assume = {k: list(v) for k, v in self.spec.get("assume", {}).items()}
        self.fuel = {k: (v if isinstance(v, list) else [v]) for k, v in self.spec.get("fuel", {}).items()}
        self.ignore_calls = set(self.spec.get("ignore_calls", []))
        self.prefix = self.spec.get("prefix", {})
        self.opaque = list(self.spec.get("opaque_types", []))       # type parameters of the generated module
        self.effects, self.reads, self.read_attrs = {}, {}, {}
        self.call_through = self.spec.get("call_through", {})
        self.assume_exprs = self.spec.get("assume_exprs", {})
        self.ghost = self.spec.get("ghost_params", {})
        self.variants = self.spec.get("variants", {})     # several typed readings of one dynamically typed method
        self.abstract = {}
        self.records = {}
        self.objects = {}          # classes translated elsewhere (another generated module): name -> {lean_type, namespace, import, methods}
        self.records_log = []
        self.trefs = {}
        self.shared_attrs, self.mutated_attrs = {}, {}
        self.calls = Calls(self)
        self.cur_scope = None
        path = os.path.join(repo, relfile)
        self.src = open(path, encoding="utf-8").read()
        tree = ast.parse(self.src, filename=relfile)
        self.scope = Scope(tree)
        self.scope.modules.update(self.spec.get("modules", {}))
        self.ext_classes = {k: v for k, v in EXT_CLASSES.items()
                            if self.scope.names.get(k, "").endswith("." + k) or k in self.spec.get("ext_classes", [])}
        for name, o in self.spec.get("objects", {}).items():
            self.objects[name] = dict(o, methods={})
        for name, o in self.spec.get("objects", {}).items():
            for m, sig in o.get("methods", {}).items():
                self.objects[name]["methods"][m] = {"args": [self.type_of_text(a) for a in sig.get("args", [])], "mutates": bool(sig.get("mutates")),
                                                    "params": sig.get("params"),
                                                    "ret": self.type_of_text(sig["ret"]) if sig.get("ret") else None}
        for name, o in self.spec.get("objects", {}).items():
            self.objects[name]["field_types"] = {f: self.type_of_text(t) for f, t in o.get("fields", {}).items()}
        def _sig(v):
            return {"name": v["name"], "args": [self.type_of_text(a) for a in v.get("args", [])], "params": v.get("params"),
                    "defaults": v.get("defaults"), "ret": self.type_of_text(v["ret"]) if v.get("ret") else None}
        self.effects = {k: _sig(v) for k, v in self.spec.get("effects", {}).items()}
        self.reads = {k: _sig(v) for k, v in self.spec.get("reads", {}).items()}
        self.read_attrs = {k: _sig(v) for k, v in self.spec.get("read_attrs", {}).items()}
        for m, sig in self.spec.get("abstract", {}).items():          # abstract methods of the class: parameters of the translation
            self.abstract[m] = {"args": [self.type_of_text(a) for a in sig.get("args", [])], "ret": self.type_of_text(sig["ret"])}
        for name in self.spec.get("records", {}):        # declared interfaces of classes of other modules (two passes: they may refer to each other)
            self.records[name] = {"fields": [], "getters": {}}
        for name, r in self.spec.get("records", {}).items():
            self.records[name]["fields"] = [(f, self.type_of_text(t)) for f, t in r.get("fields", {}).items()]
            self.records[name]["getters"] = {m: self.type_of_text(t) for m, t in r.get("getters", {}).items()}
        cdef = [n for n in tree.body if isinstance(n, ast.ClassDef) and n.name == cls_name]
        if len(cdef) != 1:
            raise Unsupported("class %s not found in %s" % (cls_name, relfile))
        cdef = cdef[0]
        self.cls_type = TObj(" ".join([self.state_name] + self.opaque))
        self.funcs = {}
        classes = {n.name: n for n in tree.body if isinstance(n, ast.ClassDef)}

        def own_methods(c, strict=True):
            out = {}
            for n in c.body:
                if isinstance(n, ast.FunctionDef):
                    if n.name in out and strict:
                        raise Unsupported("method %s defined twice" % n.name, n)
                    out[n.name] = n                    # (a base class: the later definition is the one Python keeps)
                elif not strict:
                    continue
                elif isinstance(n, (ast.Assign, ast.AnnAssign)):
                    raise Unsupported("class-level attribute", n)
                elif not (isinstance(n, ast.Expr) and isinstance(n.value, ast.Constant)) and not isinstance(n, ast.Pass):
                    raise Unsupported("unsupported class member %s" % type(n).__name__, n)
            return out

        def base_of(c, strict=False):
            """the base class of c if it is its only base (ABC / object aside) and is defined in this file, else None (methods of
            other base classes are not looked up: a call of one is an unknown function)"""
            bs = [b for b in c.bases if not (isinstance(b, ast.Name) and b.id in ("ABC", "object"))]
            if len(bs) == 1 and isinstance(bs[0], ast.Name) and bs[0].id in classes and not c.keywords:
                return classes[bs[0].id]
            if strict and bs:
                raise Unsupported("base classes of %s: only a single base class defined in the same file is supported" % c.name, c)
            return None

        methods = own_methods(cdef)
        self.inherited = {}
        anc = base_of(cdef)
        while anc is not None:                            # inherited methods: the nearest definition along the chain of base classes
            for k, v in own_methods(anc, strict=False).items():
                if k not in methods:
                    methods[k] = v
                    self.inherited[k] = anc.name
            anc = base_of(anc)
        # a family of concrete subclasses of the translated class that add no state: their own methods are translated as
        # `<Class>_<method>`, an object of the family is (class tag, state), a method call on it dispatches on the tag
        self.family = self.spec.get("family")
        self.owner_of, self.family_defs = {}, {}
        if self.family:
            for cname in self.family["classes"]:
                if cname not in classes:
                    raise Unsupported("class %s of the family not found in %s" % (cname, relfile))
                chain, c = [], classes[cname]
                while c is not None and c.name != cls_name:
                    chain.append(c)
                    c = base_of(c, strict=True)
                if c is None:
                    raise Unsupported("class %s of the family is not a subclass of %s" % (cname, cls_name), classes[cname])
                self.family_defs[cname] = set()
                for c in chain:
                    for k, v in own_methods(c).items():
                        if k == "__init__":
                            self.check_forwarding_init(v, methods.get("__init__"), c.name)
                            continue
                        if k not in self.family_defs[cname]:
                            self.family_defs[cname].add(k)
                            methods[cname + "_" + k] = v
                            self.owner_of[cname + "_" + k] = cname
        selected = self.spec.get("functions")
        if selected is not None and self.family:
            selected = list(selected)
            for cname in self.family["classes"]:
                for m in self.family["methods"]:
                    r = (cname + "_" + m) if m in self.family_defs[cname] else m
                    if r not in methods:
                        raise Unsupported("method %s of the family is not defined for class %s" % (m, cname))
                    if r not in selected:
                        selected.append(r)
        if selected is None:
            selected = list(methods)
        else:                                             # the slice: the listed methods and every method of the class they call
            todo = [] if self.spec.get("no_closure") else list(selected)
            for f in selected:
                if f not in methods:
                    raise Unsupported("method %s of the spec not found in class %s" % (f, cls_name))
            while todo:
                f = todo.pop()
                if f not in methods:
                    raise Unsupported("method %s of the spec not found in class %s" % (f, cls_name))
                body = methods[f].body
                if f in self.prefix:                       # only the translated prefix of the function counts
                    cut = next((i for i, st in enumerate(body) if ast.unparse(st).startswith(self.prefix[f]["until"])), len(body))
                    body = body[:cut]
                for c in [x for st in body for x in ast.walk(st)]:
                    if isinstance(c, ast.Call) and isinstance(c.func, ast.Attribute) and isinstance(c.func.value, ast.Name) \
                            and c.func.value.id in ("self", cls_name) \
                            and ("self." + c.func.attr) not in self.spec.get("effects", {}) and ("self." + c.func.attr) not in self.spec.get("reads", {}):
                        callee = c.func.attr
                        if f in self.owner_of and (self.owner_of[f] + "_" + callee) in methods:
                            callee = self.owner_of[f] + "_" + callee           # the subclass's own definition comes first
                        if callee in methods and callee not in selected:
                            selected.append(callee)
                            todo.append(callee)
        for name in methods:
            if name in selected:
                fi = FuncInfo(methods[name], True, self.scope, relfile)
                if name in self.owner_of:
                    fi.name, fi.lean_name, fi.owner = name, ident(name), self.owner_of[name]
                self.funcs[name] = fi
        if self.family:              # open recursion: a method of the base class must not call a method that a family class (re)defines
            redefined = set(k for d in self.family_defs.values() for k in d)
            for name, fi in self.funcs.items():
                if fi.owner is None:
                    for c in ast.walk(fi.node):
                        if isinstance(c, ast.Call) and isinstance(c.func, ast.Attribute) and isinstance(c.func.value, ast.Name) \
                                and c.func.value.id == "self" and c.func.attr in redefined:
                            raise Unsupported("%s of the base class calls self.%s, which classes of the family define themselves "
                                              "(dispatch back into the subclass)" % (name, c.func.attr), c)
        for vname, v in self.variants.items():
            if v["function"] not in methods:
                raise Unsupported("method %s of variant %s not found" % (v["function"], vname))
            fi = FuncInfo(methods[v["function"]], True, self.scope, relfile)
            fi.name, fi.lean_name, fi.variant = vname, ident(vname), v
            self.funcs[vname] = fi
            self.spec.setdefault("signatures", {})[vname] = v.get("signature", {})
        self.fields = {f: self.type_of_text(t) for f, t in self.spec.get("fields", {}).items()}
        for fn in list(self.funcs.values()):
            for n in ast.walk(fn.node):
                if isinstance(n, ast.Attribute) and isinstance(n.ctx, ast.Store) and isinstance(n.value, ast.Name):
                    if n.value.id == "self" and fn.is_method and "fields" not in self.spec:
                        self.fields.setdefault(n.attr, TVar())
                    elif n.value.id == cls_name:
                        raise Unsupported("assignment to the class attribute %s.%s (shared by all instances)" % (cls_name, n.attr), n)
        self.pull_star_functions()
        self.analyse()

    def canon(self, name):
        return (self.cur_scope or self.scope).canon(name)

    # ------------------------------------------------------------------ functions of `from m import *` modules
    def pull_star_functions(self):
        star = {}
        for m in self.scope.star:
            rel = m.replace(".", "/") + ".py"
            p = os.path.join(self.repo, rel)
            if os.path.exists(p):
                tree = ast.parse(open(p, encoding="utf-8").read(), filename=rel)
                sc = Scope(tree)
                for n in tree.body:
                    if isinstance(n, ast.FunctionDef):
                        star.setdefault(n.name, (n, sc, rel))
        todo = list(self.funcs.values())
        while todo:
            fn = todo.pop()
            for n in ast.walk(fn.node):
                if isinstance(n, ast.Call) and isinstance(n.func, ast.Name):
                    f = n.func.id
                    if f in star and f not in self.funcs and fn.scope.canon(f) is None and f not in self.ext_classes:
                        node, sc, rel = star[f]
                        self.funcs[f] = FuncInfo(node, False, sc, rel)
                        todo.append(self.funcs[f])

    # ------------------------------------------------------------------ whole-module analyses
    def method_for(self, fn, attr):
        """the translated method that `self.<attr>` denotes inside fn (a family class's own definition first)"""
        if fn.owner is not None and (fn.owner + "_" + attr) in self.funcs:
            return self.funcs[fn.owner + "_" + attr]
        m = self.funcs.get(attr)
        return m if m is not None and m.cls and m.owner is None else None

    def check_forwarding_init(self, node, base_init, cname):
        """a family class adds no state: its constructor only forwards its own parameters, in order, to the base constructor"""
        ps = [a.arg for a in node.args.args[1:]]
        ok = len(node.body) == 1 and isinstance(node.body[0], ast.Expr) and isinstance(node.body[0].value, ast.Call)
        if ok:
            c = node.body[0].value
            ok = isinstance(c.func, ast.Attribute) and c.func.attr == "__init__" and isinstance(c.func.value, ast.Call) \
                and isinstance(c.func.value.func, ast.Name) and c.func.value.func.id == "super" and not c.keywords \
                and [ast.unparse(a) for a in c.args] == ps and not node.args.defaults and not node.args.kwonlyargs
            if ok and c.func.value.args:
                ok = [ast.unparse(a) for a in c.func.value.args] == [cname, "self"]
        if ok and base_init is not None:
            ok = len(base_init.args.args) - 1 == len(ps)
        if not ok:
            raise Unsupported("constructor of the family class %s is not a plain forwarding of its parameters to the base constructor" % cname, node)

    def callee(self, fn, call):
        f = call.func
        if ast.unparse(f) in self.spec.get("effects", {}) or ast.unparse(f) in self.spec.get("reads", {}):
            return None
        if isinstance(f, ast.Attribute) and isinstance(f.value, ast.Name) and f.value.id in ("self", self.cls_name) and fn.cls:
            m = self.method_for(fn, f.attr)
            if m is not None:
                return m
        if isinstance(f, ast.Name) and f.id in self.funcs and not self.funcs[f.id].cls:
            return self.funcs[f.id]
        return None

    def analyse(self):
        for fn in self.funcs.values():
            for n in ast.walk(fn.node):
                if isinstance(n, ast.Call):
                    c = self.callee(fn, n)
                    if c is not None and c not in fn.calls:
                        fn.calls.append(c)
                if isinstance(n, ast.AsyncFunctionDef):
                    raise Unsupported("async function definition", n)
                if isinstance(n, (ast.Global, ast.Nonlocal, ast.Yield, ast.YieldFrom, ast.Await, ast.Try, ast.With,
                                  ast.Delete, ast.Raise, ast.ClassDef, ast.Continue)):
                    raise Unsupported("unsupported statement %s in %s" % (type(n).__name__, fn.name), n)
            fn.recursive = fn in fn.calls
        for fn in self.funcs.values():
            for n in ast.walk(fn.node):
                if isinstance(n, ast.Call) and isinstance(n.func, ast.Attribute) and isinstance(n.func.value, ast.Name) \
                        and n.func.value.id == "self" and n.func.attr in self.abstract:
                    fn.uses_abstract = True
        for fn in self.funcs.values():
            for n in ast.walk(fn.node):
                u = ast.unparse(n.func) if isinstance(n, ast.Call) else (ast.unparse(n) if isinstance(n, ast.Attribute) else None)
                if u in self.effects:
                    fn.uses_abstract = fn.mutates_world = True
                if u in self.reads or u in self.read_attrs:
                    fn.uses_abstract = True
        grew = True
        while grew:
            grew = False
            for fn in self.funcs.values():
                if not fn.uses_abstract and any(c.uses_abstract for c in fn.calls):
                    fn.uses_abstract = grew = True
        # state-changing methods (fixpoint over the call graph)
        for fn in self.funcs.values():
            if not fn.is_method:
                continue
            for n in ast.walk(fn.node):
                if isinstance(n, ast.Attribute) and isinstance(n.value, ast.Name) and n.value.id == "self":
                    if isinstance(n.ctx, ast.Store):
                        fn.mutates = True
            for n in ast.walk(fn.node):
                if isinstance(n, ast.Call) and isinstance(n.func, ast.Attribute) and n.func.attr in ("append", "extend", "add", "remove", "discard"):
                    v = n.func.value
                    if isinstance(v, ast.Attribute) and isinstance(v.value, ast.Name) and v.value.id == "self":
                        fn.mutates = True
                if isinstance(n, (ast.Assign, ast.AugAssign)):
                    for t in (n.targets if isinstance(n, ast.Assign) else [n.target]):
                        if isinstance(t, ast.Subscript):
                            v = t.value
                            if isinstance(v, ast.Attribute) and isinstance(v.value, ast.Name) and v.value.id == "self":
                                fn.mutates = True
        for fn in self.funcs.values():
            if getattr(fn, "mutates_world", False):
                fn.mutates = True
            for n in ast.walk(fn.node):
                if isinstance(n, ast.Call):
                    om = self.object_method(fn, n)
                    if om is not None and om[2]["mutates"]:
                        fn.mutates = True
        changed = True
        while changed:
            changed = False
            for fn in self.funcs.values():
                if fn.is_method and not fn.mutates and any(c.mutates and c.is_method for c in fn.calls):
                    fn.mutates = changed = True
        # shape of the result
        for fn in self.funcs.values():
            nested = {id(m) for d in ast.walk(fn.node) if isinstance(d, (ast.FunctionDef, ast.Lambda)) and d is not fn.node for m in ast.walk(d)}
            rets = [n for n in ast.walk(fn.node) if isinstance(n, ast.Return) and id(n) not in nested]
            valued = [r for r in rets if r.value is not None and not (isinstance(r.value, ast.Constant) and r.value.value is None)]
            bare = len(valued) < len(rets) or not always_returns(fn.node.body)
            fn.ret_mode = "unit" if not valued else ("option" if bare else "value")
            if fn.is_ctor:
                if valued:
                    raise Unsupported("__init__ returns a value", fn.node)
                fn.mutates = True
            for r in valued:
                v = r.value
                if isinstance(v, ast.Attribute) and isinstance(v.value, ast.Name) and v.value.id == "self":
                    fn.returns_alias = True
                if isinstance(v, ast.Name) and v.id in [a.arg for a in fn.node.args.args]:
                    fn.returns_alias = True
        # out-parameters: `for x in p.member(): ... x.attr = ...` with p a parameter
        for fn in self.funcs.values():
            pnames = [a.arg for a in fn.node.args.args]
            for n in ast.walk(fn.node):
                if isinstance(n, ast.For) and isinstance(n.target, ast.Name):
                    src = n.iter.func if isinstance(n.iter, ast.Call) else n.iter
                    if isinstance(src, ast.Attribute) and isinstance(src.value, ast.Name) and src.value.id in pnames and src.value.id != "self" \
                            and any(isinstance(m, ast.Attribute) and isinstance(m.ctx, ast.Store) and isinstance(m.value, ast.Name)
                                    and m.value.id == n.target.id for b in n.body for m in ast.walk(b)):
                        if src.value.id not in fn.out_params:
                            fn.out_params.append(src.value.id)
        for fn in self.funcs.values():
            pnames = [a.arg for a in fn.node.args.args if a.arg != "self"]
            sig = self.spec.get("signatures", {}).get(fn.name, {})
            for n in ast.walk(fn.node):
                p = None
                if isinstance(n, ast.Attribute) and isinstance(n.ctx, ast.Store) and isinstance(n.value, ast.Name) and n.value.id in pnames:
                    p = n.value.id
                if isinstance(n, ast.Call) and isinstance(n.func, ast.Attribute) and isinstance(n.func.value, ast.Name) and n.func.value.id in pnames:
                    cls = sig.get(n.func.value.id)
                    a = next((x.annotation for x in fn.node.args.args if x.arg == n.func.value.id), None)
                    cls = cls or (dotted(a) if a is not None else None)
                    if cls in self.objects and self.objects[cls]["methods"].get(n.func.attr, {}).get("mutates"):
                        p = n.func.value.id
                if p is not None and p not in fn.out_params:
                    fn.out_params.append(p)
        # mutual recursion is not supported; order: callees first, otherwise source order
        order, state = [], {}

        def visit(fn, stack):
            if state.get(fn.name) == "done":
                return
            if state.get(fn.name) == "open":
                raise Unsupported("mutually recursive functions %s" % " -> ".join(s.name for s in stack + [fn]), fn.node)
            state[fn.name] = "open"
            for c in fn.calls:
                if c is not fn:
                    visit(c, stack + [fn])
            state[fn.name] = "done"
            order.append(fn)
        ctor = [f for f in self.funcs.values() if f.is_ctor]
        for fn in ctor + [f for f in self.funcs.values() if not f.is_ctor]:
            visit(fn, [])
        self.order = order

    # ------------------------------------------------------------------ bookkeeping
    def object_method(self, fn, call):
        """`self.<field>.<method>(..)` with <field> an object of another generated module -> (field, object description, method description)"""
        f = call.func
        if isinstance(f, ast.Attribute) and isinstance(f.value, ast.Attribute) and isinstance(f.value.value, ast.Name) \
                and f.value.value.id == "self" and fn.is_method and f.value.attr in self.fields:
            t = self.fields[f.value.attr].find()
            for o in self.objects.values():
                if t.kind == "obj" and t.name == o["lean_type"] and f.attr in o["methods"]:
                    return f.value.attr, o, o["methods"][f.attr]
        return None

    def tref(self, t):
        n = len(self.trefs)
        self.trefs[n] = t
        return "⟪%d⟫" % n

    def record(self, what, fn, node, text):
        r = {"kind": what, "function": fn.name, "file": fn.relfile, "line": getattr(node, "lineno", 0), "text": text}
        if r not in self.records_log:
            self.records_log.append(r)

    def type_of_text(self, text):
        return self.ann_type(ast.parse(text, mode="eval").body)

    def assume_text(self):
        return "; ".join("%s in %s" % (k, tuple(v)) for k, v in self.assume.items())

    def ann_type(self, a):
        if a is None:
            return TVar()
        d = dotted(a)
        if d in self.opaque:
            return TObj(d)
        if isinstance(a, ast.Subscript) and (dotted(a.value) or "").split(".")[-1] == "Optional":
            return TOpt(self.ann_type(a.slice))
        if d in self.records:
            return TObj(d)
        if d in self.objects:
            return TObj(self.objects[d]["lean_type"])
        if d in getattr(self, "ext_classes", {}):
            return TObj("PyRt." + d)
        if d in ("int",):
            return TInt
        if d in ("bool",):
            return TBool
        if d in ("float",):
            return TRat
        if isinstance(a, ast.Subscript):
            h = (dotted(a.value) or "").split(".")[-1]
            args = list(a.slice.elts) if isinstance(a.slice, ast.Tuple) else [a.slice]
            if h in ("List", "Sequence", "list", "Iterable"):
                return TList(self.ann_type(args[0]))
            if h in ("Set", "set"):
                return TSet(self.ann_type(args[0]))
            if h in ("Tuple", "tuple"):
                if len(args) == 2 and isinstance(args[1], ast.Constant) and args[1].value is Ellipsis:
                    return TList(self.ann_type(args[0]))
                return TProd([self.ann_type(x) for x in args])
            if h in ("Dict", "dict") and len(args) == 2:
                return TDict(self.ann_type(args[0]), self.ann_type(args[1]))
        return TVar()

    # ------------------------------------------------------------------ one function
    def signature(self, fn):
        a = fn.node.args
        if a.vararg or a.kwarg or a.kwonlyargs or a.posonlyargs:
            raise Unsupported("unsupported parameter kinds in %s" % fn.name, fn.node)
        args = list(a.args)
        if fn.is_method:
            if not args or args[0].arg != "self":
                raise Unsupported("method %s without self" % fn.name, fn.node)
            args = args[1:]
        defaults = [None] * (len(args) - len(a.defaults)) + list(a.defaults)
        for p, d in zip(args, defaults):
            ds = None
            if d is not None:
                if isinstance(d, ast.Constant) and d.value in (True, False) and isinstance(d.value, bool):
                    ds = "true" if d.value else "false"
                elif isinstance(d, ast.Constant) and isinstance(d.value, int):
                    ds = int_lit(d.value)
                elif isinstance(d, ast.Constant) and d.value is None and "Optional" in (self.spec.get("signatures", {}).get(fn.name, {}).get(p.arg) or ""):
                    ds = "none"
                elif isinstance(d, ast.Constant) and d.value is None and self.spec.get("signatures", {}).get(fn.name, {}).get(p.arg):
                    ds = None        # `= None` default of a parameter whose type the spec declares: the argument must be given
                else:
                    q = const_fraction(d)
                    if q is None:
                        raise Unsupported("unsupported default value of parameter %s of %s" % (p.arg, fn.name), d)
                    ds = int_lit(q.numerator) if q.denominator == 1 and not any(isinstance(n, ast.Constant) and isinstance(n.value, float) for n in ast.walk(d)) and "**" not in ast.unparse(d) \
                        else "(((%d : Int) : Rat) / ((%d : Int) : Rat))" % (q.numerator, q.denominator)
            decl = self.spec.get("signatures", {}).get(fn.name, {}).get(p.arg)
            fn.params.append((p.arg, self.type_of_text(decl) if decl else self.ann_type(p.annotation), ds))

    def find_measure(self, fn):
        """a parameter that every recursive call passes as `p - <positive literal>`"""
        names = [p[0] for p in fn.params]
        calls = [n for n in ast.walk(fn.node) if isinstance(n, ast.Call) and self.callee(fn, n) is fn]
        for i, (pn, pt, _) in enumerate(fn.params):
            ok = kind(pt) == "int"
            for c in calls:
                arg = c.args[i] if i < len(c.args) else next((k.value for k in c.keywords if k.arg == pn), None)
                if not (isinstance(arg, ast.BinOp) and isinstance(arg.op, ast.Sub) and isinstance(arg.left, ast.Name) and arg.left.id == pn
                        and isinstance(arg.right, ast.Constant) and isinstance(arg.right.value, int) and arg.right.value >= 1):
                    ok = False
            reassigned = any(isinstance(n, ast.Name) and n.id == pn and isinstance(n.ctx, ast.Store) for n in ast.walk(fn.node))
            if ok and not reassigned:
                return pn
        raise Unsupported("no decreasing integer parameter found for the recursive function %s" % fn.name, fn.node)

    def ghost_of(self, fn):
        """ghost parameters (e.g. the fuel of a loop without a natural bound) of fn and of everything it calls"""
        out = dict(self.ghost.get(fn.name, {}))
        for c in fn.calls:
            if c is not fn:
                out.update(self.ghost_of(c))
        return out

    def translate_fn(self, fn):
        self.cur_scope = fn.scope
        for _attempt in range(12):
            log0 = len(self.records_log)
            cx = FnCtx(self, fn)
            for pn, pt, _ in fn.params:
                cx.set_var(pn, pt, fn.node, borrowed=True)
            for gname, gtype in self.ghost_of(fn).items():
                cx.set_var(gname, self.type_of_text(gtype), fn.node, borrowed=True)
            pre = []
            if fn.is_ctor:
                pre = ["let self : %s := default" % self.cls_name]
            if fn.recursive:
                fn.measure = self.find_measure(fn)
                cx.fuel_name = cx.fresh("fuel")
            fn.pruned = False
            try:
                body = pre + cx.block(list(fn.node.body), FnFin(cx))
                break
            except Widen:                                  # a loop-carried int variable receives a float: start again with it as a float
                del self.records_log[log0:]
        else:
            raise Unsupported("numeric widening of loop-carried variables did not settle in %s" % fn.name, fn.node)
        if fn.pruned:                                      # the slice is only meaningful under the assumption: make it explicit
            guards = []
            for key, dom in self.assume.items():
                ks, kt = cx.ex(ast.parse(key, mode="eval").body)
                guards.append("(List.contains [%s] %s)" % (", ".join(int_lit(v) for v in dom), ks))
            body = ["if !(%s) then default else" % " && ".join(guards)] + body
        asserts = [r["text"] for r in self.records_log if r["kind"] == "assert" and r["function"] == fn.name and r["file"] == fn.relfile]
        doc = "`%s%s` of `%s`" % ((self.cls_name + ".") if fn.cls else "", fn.name, fn.relfile)
        if fn.owner is not None:
            doc = "`%s.%s` of `%s` (class of the family)" % (fn.owner, fn.node.name, fn.relfile)
        elif fn.cls and fn.name in getattr(self, "inherited", {}):
            doc = "`%s.%s` of `%s`, inherited by `%s`" % (self.inherited[fn.name], fn.name, fn.relfile, self.cls_name)
        if fn.variant is not None:
            doc = "`%s.%s` of `%s` read with %s%s" % (self.cls_name, fn.variant["function"], fn.relfile,
                   ", ".join("%s : %s" % kv for kv in fn.variant.get("signature", {}).items()),
                   ("; assumed: " + ", ".join("`%s` is %s" % kv for kv in fn.variant.get("assume_exprs", {}).items())) if fn.variant.get("assume_exprs") else "")
        if fn.name in self.prefix:
            doc += "; PREFIX of the function: the statements before `%s`, result = (changed parameters, %s)" % (
                self.prefix[fn.name]["until"], ", ".join(self.prefix[fn.name]["observe"]))
        if fn.pruned:
            doc += "; SLICE under the assumption %s (branches that are dead under it are not translated; outside it the result is `default`)" % self.assume_text()
        if asserts:
            doc += "; asserts of the source (hypotheses, not executed): " + "; ".join("`%s`" % a for a in asserts)
        binders = []
        if fn.uses_abstract:
            binders.append(("F", " ".join(["Abstract"] + self.opaque), None))
        if fn.is_method and not fn.is_ctor:
            binders.append(("self", self.tref(self.cls_type), None))
        for pn, pt, ds in fn.params:
            binders.append((ident(pn), self.tref(pt), ds))
        for gname, gtype in self.ghost_of(fn).items():
            binders.append((ident(gname), self.tref(self.type_of_text(gtype)), None))
        rtype = self.tref(fn.full_type(self))
        out = ["/-- %s -/" % doc]
        if not fn.recursive:
            sig = " ".join("(%s : %s%s)" % (n, t, " := " + d if d else "") for n, t, d in binders)
            out.append("def %s %s: %s :=" % (fn.lean_name, sig + " " if sig else "", rtype))
            out += indent(body)
            if fn.name in self.spec.get("freshness", []):
                out += ["", "/-- aliasing certificate of `%s` (ownership analysis of the translator): every returned container is a fresh object, "
                        "i.e. shares no memory with the attributes of `self` or with the arguments -/" % fn.name,
                        "def %s.result_is_fresh : Bool := %s" % (fn.lean_name, "true" if all(fn.fresh_returns) else "false")]
        else:
            doc2 = ("recursion of `%s` with an explicit fuel argument (structural); fuel exhausted = the Python recursion does not "
                    "terminate, result `default`" % fn.name)
            out = ["/-- %s -/" % doc2]
            out.append("def %s.fuel : Nat → %s → %s" % (fn.lean_name, " → ".join(t for _, t, _ in binders), rtype))
            out.append("  | 0, %s => default" % ", ".join("_" for _ in binders))
            out.append("  | %s + 1, %s =>" % (cx.fuel_name, ", ".join(n for n, _, _ in binders)))
            out += indent(body, 4)
            out.append("")
            out.append("/-- %s; fuel from the parameter `%s`, which every recursive call decreases -/" % (doc, fn.measure))
            sig = " ".join("(%s : %s%s)" % (n, t, " := " + d if d else "") for n, t, d in binders)
            out.append("def %s %s : %s :=" % (fn.lean_name, sig, rtype))
            out.append("  %s.fuel (Int.toNat %s + 1) %s" % (fn.lean_name, ident(fn.measure), " ".join(n for n, _, _ in binders)))
        return out

    def translate(self):
        for fn in self.order:
            self.signature(fn)
        chunks = []
        for fn in self.order:
            chunks.append(self.translate_fn(fn))
        for f, (where, node) in self.mutated_attrs.items():
            if f in self.shared_attrs or "*" in self.shared_attrs:
                raise Unsupported("self.%s is changed in place (in %s) but is bound without copy to another name/attribute (in %s): "
                                  "value semantics would be unsound" % (f, where, self.shared_attrs.get(f, self.shared_attrs.get("*"))), node)
        head = ["/-",
                "GENERATED by tools/py2lean from %s (class %s) -- do not edit." % (self.relfile, self.cls_name),
                "One definition per Python function; `self.x` attributes are the fields of the state record, state-changing",
                "methods return the new state (paired with their result).  Helper semantics: Model/PyRt.lean.",
                "-/",
                "import SparseSpace.Model.PyRt"] + ["import %s" % o["import"] for o in self.objects.values()] + [
                "set_option linter.unusedVariables false",
                "namespace %s" % self.namespace,
                "open SparseSpace", ""]
        st = []
        for name, r in self.records.items():
            st += ["/-- declared interface of class `%s` (fields and argument-free observers that the translated functions read) -/" % name,
                   "structure %s where" % name]
            st += ["  %s : %s" % (ident(f), self.tref(t)) for f, t in r["fields"]]
            st += ["  %s : %s" % (ident(m), self.tref(t)) for m, t in r["getters"].items()]
            st += ["deriving Repr, Inhabited", ""]
        tp = (" (" + " ".join(self.opaque) + " : Type)") if self.opaque else ""
        if self.effects or self.reads or self.read_attrs:
            st += ["/-- the part of the object that is NOT translated, as an abstract parameter: an opaque state `W` (`self.world`) with the",
                   "state-changing operations (`W → … → W × result`) and the pure observations (`W → … → result`) the translated functions use -/",
                   "structure Abstract%s where" % tp]
            for k, v in self.effects.items():
                ts = ["W"] + ["(%s)" % self.tref(a) for a in v["args"]] + [("W × (%s)" % self.tref(v["ret"])) if v["ret"] is not None else "W"]
                st.append("  %s : %s    -- `%s(..)`" % (ident(v["name"]), " → ".join(ts), k))
            for k, v in list(self.reads.items()) + list(self.read_attrs.items()):
                ts = ["W"] + ["(%s)" % self.tref(a) for a in v["args"]] + ["(%s)" % self.tref(v["ret"])]
                st.append("  %s : %s    -- `%s`" % (ident(v["name"]), " → ".join(ts), k))
            st.append("")
        if self.abstract:
            st += ["/-- the abstract methods of class `%s` that the translated functions call: parameters of the translation (assumed to be pure) -/" % self.cls_name,
                   "structure Abstract where"]
            for m, sig in self.abstract.items():
                ts = [self.tref(a) for a in sig["args"]] + [self.tref(sig["ret"])]
                st.append("  %s : %s" % (ident(m), " → ".join(("(%s)" % t) for t in ts) if len(ts) > 1 else "Unit → (%s)" % ts[0]))
            st.append("")
        st += ["/-- attributes assigned through `self.` anywhere in class `%s` (an attribute that was never assigned reads as `default`) -/" % self.cls_name
               if "fields" not in self.spec else
               "/-- the attributes of class `%s` that the translated functions use (declared in the spec) -/" % self.cls_name,
               "structure %s%s where" % (self.state_name, tp)]
        for f, t in self.fields.items():
            st.append("  %s : %s" % (ident(f), self.tref(t)))
        st += ["deriving Repr, Inhabited" if not self.opaque else "deriving Inhabited", ""]
        if self.opaque:
            head = head[:-1] + ["variable {%s : Type}" % " ".join(self.opaque), ""]
        fam = self.family_block() if self.family else []
        text = "\n".join(head + st + [l for c in chunks for l in c + [""]] + fam + ["end %s" % self.namespace, ""])
        def ground(t):           # a type nothing constrains (an unused `x = None`, an unused `[]`): any type will do
            t = t.find()
            if t.kind == "var":
                t.ref = TUnit
            for a in t.args:
                ground(a)
        for t in self.trefs.values():
            ground(t)
        text = re.sub(r"⟪(\d+)⟫", lambda m: lean_type(self.trefs[int(m.group(1))]), text)
        return text

    def family_block(self):
        """class tag, object record and one dispatching definition per declared method of the family"""
        tname, tag = self.family.get("type", "Obj"), self.family.get("tag", "Cls")
        if self.opaque or self.abstract or self.effects or self.reads:
            raise Unsupported("family of classes together with abstract operations / opaque types")
        out = ["/-- the concrete classes of the family (subclasses of `%s` that add no attributes: their constructors only forward to the" % self.cls_name,
               "base constructor) -/", "inductive %s where" % tag]
        out += ["  | %s" % ident(c) for c in self.family["classes"]]
        out += ["deriving Repr, DecidableEq, Inhabited", "",
                "/-- an object of one of these classes: its class and its attributes -/",
                "structure %s where" % tname, "  cls : %s" % tag, "  st : %s" % self.state_name, "deriving Repr, Inhabited", ""]
        for m in self.family["methods"]:
            res = [(c, self.funcs[(c + "_" + m) if m in self.family_defs[c] else m]) for c in self.family["classes"]]
            f0 = res[0][1]
            for c, fn in res:
                if fn.is_static or fn.mutates or fn.ret_mode != "value" or fn.out_params or self.ghost_of(fn) or fn.uses_abstract \
                        or len(fn.params) != len(f0.params) or [p[0] for p in fn.params] != [p[0] for p in f0.params]:
                    raise Unsupported("method %s of the family: only pure value-returning instance methods with the same parameters in every class" % m, fn.node)
                for (_, t, _), (_, t0, _) in zip(fn.params, f0.params):
                    unify(t, t0, fn.node, "parameter of the family method %s" % m)
                unify(fn.ret, f0.ret, fn.node, "result of the family method %s" % m)
            sig = " ".join("(%s : %s)" % (ident(pn), self.tref(pt)) for pn, pt, _ in f0.params)
            args = " ".join(ident(pn) for pn, _, _ in f0.params)
            out += ["/-- `obj.%s(..)` on an object of the family: Python's dynamic dispatch on the class of the object (the nearest definition" % m,
                    "along the chain of base classes) -/",
                    "def %s.%s (o : %s) %s: %s :=" % (tname, ident(m), tname, sig + " " if sig else "", self.tref(f0.full_type(self))),
                    "  match o.cls with"]
            out += ["  | .%s => %s.%s o.st %s" % (ident(c), self.namespace, fn.lean_name, args) for c, fn in res]
            out.append("")
        return out

    def side_info(self):
        return {"source": self.relfile, "class": self.cls_name,
                "functions": [{"python": fn.name, "lean": self.namespace + "." + fn.name, "file": fn.relfile, "line": fn.node.lineno,
                               "state_changing": fn.mutates, "result": fn.ret_mode, "static": fn.is_static,
                               "recursive_fuel_from": fn.measure} for fn in self.order],
                "fields": {f: lean_type(t, strict=False) for f, t in self.fields.items()},
                "asserts": [r for r in self.records_log if r["kind"] == "assert"],
                "dropped": [r for r in self.records_log if r["kind"] == "dropped"],
                "pruned": [r for r in self.records_log if r["kind"] == "pruned"],
                "prefix": [r for r in self.records_log if r["kind"] == "prefix"],
                "assumed": [r for r in self.records_log if r["kind"] == "assumed"],
                "fuel": [r for r in self.records_log if r["kind"] == "fuel"],
                "assume": self.assume,
                "inherited": getattr(self, "inherited", {}) and {k: v for k, v in self.inherited.items() if k in self.funcs},
                "family": self.family and {"classes": self.family["classes"], "methods": self.family["methods"],
                                           "defined_in_subclass": {c: sorted(d) for c, d in self.family_defs.items()}},
                "library_bindings": sorted(list(BUILTINS) + ["math.factorial", "numpy.array", "numpy.ones", "numpy.full", "itertools.product"] + list(self.ext_classes))}


def main():
    ap = argparse.ArgumentParser()
    ap.add_argument("--repo", default=os.environ.get("VERIF_REPO", "/repo"))
    ap.add_argument("--file", default="sparseSpACE/combiScheme.py")
    ap.add_argument("--class", dest="cls", default="CombiScheme")
    ap.add_argument("--out", default="-")
    ap.add_argument("--json", default=None)
    ap.add_argument("--spec", default=None, help="JSON description of a slice of a class (functions, state fields, record interfaces, assumptions, fuel)")
    a = ap.parse_args()
    try:
        spec = json.load(open(a.spec)) if a.spec else None
        if spec:
            a.file, a.cls = spec.get("file", a.file), spec.get("class", a.cls)
        mod = Module(a.repo, a.file, a.cls, spec)
        text = mod.translate()
    except Unsupported as e:
        node = e.node
        where = ""
        if node is not None and hasattr(node, "lineno"):
            where = " at line %d col %d (%s)" % (node.lineno, getattr(node, "col_offset", 0), type(node).__name__)
            try:
                where += ": " + ast.unparse(node).split("\n")[0][:120]
            except Exception:
                pass
        sys.stderr.write("py2lean: unsupported%s: %s\n" % (where, e))
        sys.exit(2)
    except SyntaxError as e:
        sys.stderr.write("py2lean: the source does not parse: %s\n" % e)
        sys.exit(2)
    if a.out == "-":
        sys.stdout.write(text)
    else:
        open(a.out, "w", encoding="utf-8").write(text)
    if a.json:
        json.dump(mod.side_info(), open(a.json, "w"), indent=1)


if __name__ == "__main__":
    main()
