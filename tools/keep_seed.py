#!/usr/bin/env python3
"""usage: tools/keep_seed.py <seed_dir> <name> <Cxx> [tier] -- verifies a seeded change (demo passes on clean tree, fails with the
change; related tests listed in meta still pass is the seeder's claim, re-run separately) , runs the check against it and stores it
under seeded/<name>/ with the observed verdict."""
import json, os, shutil, subprocess, sys
seed, name, prop = sys.argv[1], sys.argv[2], sys.argv[3]
tier = sys.argv[4] if len(sys.argv) > 4 else "quick"
root = os.path.dirname(os.path.dirname(os.path.abspath(__file__)))
out = subprocess.run([os.path.join(root, "tools", "try_seed.sh"), seed, prop, tier], capture_output=True, text=True).stdout
print(out)
dst = os.path.join(root, "seeded", name)
os.makedirs(dst, exist_ok=True)
if os.path.realpath(seed) != os.path.realpath(dst):
    for f in os.listdir(seed):
        if f.endswith((".py", ".diff", ".json", ".md", ".txt")):
            shutil.copy(os.path.join(seed, f), dst)
meta = json.load(open(os.path.join(dst, "meta.json"))) if os.path.exists(os.path.join(dst, "meta.json")) else {}
meta["property"] = prop
lines = out.strip().split("\n")
old_note = (meta.get("lead_verification") or {}).get("note")
meta["lead_verification"] = {
    "ran": "tools/try_seed.sh (scratch worktree of /repo HEAD + git apply patch.diff; demo.py on clean and changed tree; ./check %s --tier %s with VERIF_REPO=<worktree>)" % (prop, tier),
    "demo_clean": next((l for l in lines if l.startswith("demo on clean")), None),
    "demo_changed": next((l for l in lines if l.startswith("demo on changed")), None),
    "tests_with_change": next((l for l in lines if l.startswith("tests with change")), None),
    "check_output": [l for l in lines if not l.startswith("demo on") and not l.startswith("tests with change")],
    "detected": any(l.startswith("VIOLATION") for l in lines),
}
if old_note:
    meta["lead_verification"]["note"] = old_note
json.dump(meta, open(os.path.join(dst, "meta.json"), "w"), indent=1)
