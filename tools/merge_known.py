#!/usr/bin/env python3
"""usage: tools/merge_known.py <file.json>... -- merge proposed known-finding entries (list or {"findings": [...]}) into known_findings.json"""
import json, sys, os
root = os.path.dirname(os.path.dirname(os.path.abspath(__file__)))
kp = os.path.join(root, "known_findings.json")
k = json.load(open(kp))
ids = {f["id"] for f in k["findings"]}
for fn in sys.argv[1:]:
    d = json.load(open(fn))
    ents = d["findings"] if isinstance(d, dict) else d
    for e in ents:
        if e["id"] in ids:
            k["findings"] = [e if f["id"] == e["id"] else f for f in k["findings"]]
        else:
            k["findings"].append(e); ids.add(e["id"])
        print("merged", e["id"])
k["findings"].sort(key=lambda f: f["id"])
json.dump(k, open(kp, "w"), indent=1)
