#!/usr/bin/env python3
"""Prints the prompt given to an independent sub-agent that seeds bugs for one property (property text + scratch worktree only)."""
import json, sys, os
props = {json.loads(l)['id']: json.loads(l) for l in open('/verif/properties.jsonl')}
TMPL = '''You are given a git worktree of the Python library obersteiner/sparseSpACE at WT (package `sparseSpACE/`, tests in `test/`, run with `/venv/bin/python -m pytest -q -p no:cacheprovider test/<file>.py` from the worktree root; to import the worktree's code in your own scripts run them from the worktree root with `PYTHONPATH=WT /venv/bin/python script.py` and verify `sparseSpACE.__file__` points into WT). Work ONLY inside WT; do not read or write /verif or /repo. No network.

A semantic property that the library is supposed to satisfy:

TITLE: @title
STATEMENT: @statement
QUANTIFIED OVER: @quant
ANCHORED IN: @files

Your task: produce @n DIFFERENT, INDEPENDENT small source changes ("seeded bugs") to the library, each of which BREAKS this property, still imports/compiles, and still passes the existing test suite (at least every test file related to the touched modules - run them; the full suite takes 15 min, so run the related files only; note that test_Regression.py::test_Opticom_sum_always_1*, test_UncertaintyQuantification.py::test_pce and test_ExtrapolationInterpolatingGrid.py::test_full_grid_interpolation fail on the UNMODIFIED code already and do not count), and for each a DEMONSTRATION: a small standalone Python script `demo.py` that exits 0 on the unmodified code and exits non-zero (printing the violated clause) on the modified code.
Requirements for the changes:
* Realistic: the kind of slip a maintainer could make in a refactoring or optimisation (off-by-one in a level/loop bound, a dropped special case, wrong comparison strictness, a stale cache, a skipped reset, swapped arguments, wrong sign in a rarely used branch, ...). 1-10 changed lines.
* SUBTLE: it must need something specific to manifest - an unusual input or configuration (higher dimension, lmin >= 2, non-unit box, boundary off, a particular option/version flag, ties, empty/degenerate input), a multi-step sequence of operations, a particular refinement history, or two cooperating sites that each look fine alone. It must NOT be exposed at once by ordinary use or by the existing tests.
* Each of the @n changes should attack a different clause of the statement / a different code site.
Deliver for each change k=1..@n a directory WT/seed_<k>/ containing: `patch.diff` (output of `git diff` relative to HEAD with ONLY that change applied; make sure `git apply` works on a clean checkout), `demo.py`, and `meta.json` with keys: "property" ("@pid"), "clause" (which clause it breaks), "needs" (what is needed to manifest), "files" (touched files), "tests_run" (test files you ran and their result with the change), "demo_unmodified_exit" (0), "demo_modified_exit" (non-zero). After writing the seed directories, restore the worktree to a clean state (`git checkout -- .`), leaving only the seed_<k> directories untracked. Final answer: for each change one paragraph (what, where, why subtle, how the demo shows it).'''
pid = sys.argv[1]; n = sys.argv[2] if len(sys.argv) > 2 else "2"
import glob, os
used = []
for f in sorted(glob.glob('/verif/seeded/%s-*/meta.json' % pid)):
    m = json.load(open(f))
    used.append("- %s: %s" % (", ".join(m.get("files", [])) if isinstance(m.get("files"), list) else m.get("files", ""), str(m.get("clause", ""))[:300].replace("\n", " ")))
extra = ""
if used:
    extra = "\n\nIdeas ALREADY USED in an earlier round (do not repeat them or close variants; attack other clauses / other code sites / other configurations):\n" + "\n".join(used)
extra += "\n\nIMPORTANT: never use `git stash` (the stash is shared between all worktrees of this repository and other people use sibling worktrees concurrently); to switch between clean and modified code use `git diff > /tmp/<yourname>.patch; git checkout -- .` and `git apply`. Before writing patch.diff check `git status` / `git diff` for stray hunks that are not yours. Several `fix:` commits were made recently; your worktree is at the current HEAD."

if os.environ.get('MUT_FLAVOUR') == 'glue':
    extra += ("\n\nFLAVOUR OF THIS ROUND: prefer change sites in the GLUE around the anchored code rather than in its core formulas: "
              "shared helper modules and base classes the anchored code relies on (Utils.py, ComponentGridInfo.py, base-class methods, "
              "RefinementObject/RefinementContainer helpers, Grid base class), default arguments and option handling (a default that "
              "changed, an option that is no longer forwarded to a sub-object, `is`/`==`/truthiness of flags, None handling), type "
              "conversions (int/float/numpy scalars, list vs tuple vs ndarray, copies vs views/aliasing, in-place modification of a "
              "caller's argument), iteration-order or dict/set semantics, state carried between two calls on one object or shared "
              "between two objects (class-level attributes, mutable default arguments), and rarely used public entry points that reach "
              "the same code by another route. The change must still break THIS property for some input/history within its quantifier.")
p = props[pid]
s = (TMPL.replace('WT', '/tmp/wt/' + os.environ.get('WT_PREFIX', 'm_') + pid.lower()).replace('@title', p['title']).replace('@statement', p['statement'])
     .replace('@quant', p['quantifier']['text']).replace('@files', ', '.join(p['anchors']['files'])).replace('@n', n).replace('@pid', pid))
print(s + extra)
