#!/bin/bash
# usage: tools/process_rn.sh <round: 2|3> Cxx  -- evaluates the round-n seeds of a property (worktree /tmp/wt/r<n>_cxx) and keeps them
n="$1"; p="$2"; lc=$(echo $p | tr 'C' 'c')
for k in 1 2 3; do
  d=/tmp/wt/r${n}_$lc/seed_$k; [ -d "$d" ] || continue
  python3 /verif/tools/keep_seed.py $d $p-r${n}seed$k $p 2>&1 | grep -E "\-> exit" | sed "s/^/$p r$n seed_$k ($(grep -c '^diff --git' $d/patch.diff) file) :: /" | cut -c1-230
done
