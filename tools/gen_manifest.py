#!/usr/bin/env python3
"""Regenerates MANIFEST.json from tools/checks.json (one entry per claimed property) -- keeps it schema-valid."""
import json, os
ROOT = os.path.dirname(os.path.dirname(os.path.abspath(__file__)))
tbl = json.load(open(os.path.join(ROOT, "tools", "checks.json")))
props = [json.loads(l)["id"] for l in open(os.path.join(ROOT, "properties.jsonl"))]
checks = []
for pid in props:
    c = tbl["checks"].get(pid)
    if not c:
        continue
    checks.append({
        "property_id": pid,
        "quick_cmd": "./check %s --tier quick" % pid,
        "thorough_cmd": "./check %s --tier thorough" % pid,
        "evidence_file": "evidence/%s.json" % pid,
        "replay_cmd_template": "./check %s --replay {path}" % pid,
        "engine": "lean4-model+correspondence",
        "level_claimed": {"category": "proof", "text": c["text"], "design_ref": c.get("design_ref", "DESIGN.md §4 " + pid)},
        "level_note": c["note"],
        "technique": c.get("technique", "Lean 4 theorems about a hand-written executable model; model tied to /repo by a differential correspondence check on every run; oracle search for a failing input"),
    })
na = [{"property_id": p, "reason": tbl["not_applicable"].get(p, "check not built yet in this round (planned, see DESIGN.md §4); not claimed")}
      for p in props if p not in tbl["checks"]]
m = {
    "version": 1,
    "setup_cmd": "cd lean && lake build",
    "hooks": {
        "guard": "SPARSESPACE_VERIF",
        "enable": "no source hooks are needed: checks import /repo's working tree in-process and observe through public APIs and subclasses",
        "baseline_off_cmd": "cd /repo && /venv/bin/python -m pytest -ra -q -p no:cacheprovider --timeout=900 --continue-on-collection-errors",
        "source_commits": tbl.get("source_commits", []),
        "add_only": True,
    },
    "engines": [{"name": "lean4-model+correspondence", "path": "lean/ harness/ check",
                 "serves_properties": [c["property_id"] for c in checks],
                 "kind_free_text": "Lean 4 (kernel-checked theorems about executable models) + Python differential harness against the real code"}],
    "checks": checks,
    "notes": tbl.get("notes", ""),
    "not_applicable": na,
}
json.dump(m, open(os.path.join(ROOT, "MANIFEST.json"), "w"), indent=1)
print("MANIFEST.json: %d checks, %d not claimed" % (len(checks), len(na)))
