#!/usr/bin/env python3
"""Re-verifies every kept seed against the CURRENT /repo HEAD: rebases patch.diff if later fix: commits moved its context
(original kept as patch_original_base.diff), re-runs demo + check, updates meta.json.  usage: tools/reverify_seeds.py [Cxx ...]"""
import glob, json, os, subprocess, sys, shutil
from concurrent.futures import ThreadPoolExecutor
root = os.path.dirname(os.path.dirname(os.path.abspath(__file__)))
sel = sys.argv[1:]
dirs = sorted(glob.glob(os.path.join(root, "seeded", "*")))
byprop = {}
for d in dirs:
    pid = os.path.basename(d).split("-")[0]
    if sel and pid not in sel:
        continue
    byprop.setdefault(pid, []).append(d)

def rebase(d):
    wt = "/tmp/wt/rb_%d_%s" % (os.getpid(), os.path.basename(d))
    subprocess.run(["git", "-C", "/repo", "worktree", "add", "-q", "--detach", wt, "HEAD"], check=True)
    try:
        p = os.path.join(d, "patch.diff")
        if subprocess.run(["git", "-C", wt, "apply", "--check", p], capture_output=True).returncode == 0:
            return "applies"
        r = subprocess.run("patch -p1 --fuzz=3 --no-backup-if-mismatch < %s" % p, shell=True, cwd=wt, capture_output=True, text=True)
        if r.returncode != 0:
            return "REBASE FAILED: " + r.stdout[-300:]
        new = subprocess.run(["git", "-C", wt, "diff"], capture_output=True, text=True).stdout
        if not os.path.exists(os.path.join(d, "patch_original_base.diff")):
            shutil.copy(p, os.path.join(d, "patch_original_base.diff"))
        open(p, "w").write(new)
        return "rebased"
    finally:
        subprocess.run(["git", "-C", "/repo", "worktree", "remove", "--force", wt], capture_output=True)

def run_prop(pid):
    out = []
    for d in byprop[pid]:
        st = rebase(d)
        r = subprocess.run([sys.executable, os.path.join(root, "tools", "keep_seed.py"), d, os.path.basename(d), pid], capture_output=True, text=True)
        m = json.load(open(os.path.join(d, "meta.json")))
        m["lead_verification"]["patch_vs_head"] = st
        json.dump(m, open(os.path.join(d, "meta.json"), "w"), indent=1)
        out.append("%s %s detected=%s %s" % (os.path.basename(d), st, m["lead_verification"]["detected"], m["lead_verification"].get("demo_changed")))
    return out

with ThreadPoolExecutor(max_workers=10) as ex:
    for res in ex.map(run_prop, sorted(byprop)):
        for l in res:
            print(l)
