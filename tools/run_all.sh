#!/bin/bash
# usage: tools/run_all.sh [tier] [parallelism]  -- runs every claimed check on the unchanged tree, prints the summary lines
tier="${1:-quick}"; par="${2:-4}"
cd "$(dirname "$(dirname "$(realpath "$0")")")"
props=$(python3 -c "import json; print(' '.join(c['property_id'] for c in json.load(open('MANIFEST.json'))['checks']))")
mkdir -p /tmp/runall_$tier
echo $props | tr ' ' '\n' | xargs -P $par -I{} bash -c "./check {} --tier $tier > /tmp/runall_$tier/{}.log 2>&1; echo \"{} rc=\$?\""
for p in $props; do tail -1 /tmp/runall_$tier/$p.log; grep -c "^VIOLATION" /tmp/runall_$tier/$p.log | sed "s/^/  violations lines: /" | grep -v ": 0" ; done
