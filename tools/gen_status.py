#!/usr/bin/env python3
"""Rewrites the generated block of DESIGN.md (between <!-- STATUS:BEGIN --> and <!-- STATUS:END -->) from the committed
state: obligations per property (Audit files), known findings, fixed entries, seeded changes and their verdicts."""
import json, re, glob, os
root = os.path.dirname(os.path.dirname(os.path.abspath(__file__)))
k = json.load(open(os.path.join(root, "known_findings.json")))
props = [json.loads(l) for l in open(os.path.join(root, "properties.jsonl"))]
out = []
out.append("| prop | theorems (obligations) | known findings (id) | repaired by `fix:` commits | seeded changes: detected / kept |")
out.append("|---|---|---|---|---|")
tot = 0
for p in props:
    pid = p["id"]
    a = os.path.join(root, "lean/SparseSpace/Audit/%s.lean" % pid)
    n = len(re.findall(r"^#print axioms", open(a).read(), re.M)) if os.path.exists(a) else 0
    tot += n
    kf = [f["id"].replace(pid + "-", "") for f in k["findings"] if f["property"] == pid]
    fx = [f["commit"] for f in k["fixed"] if f["property"] == pid]
    metas = [json.load(open(f)) for f in sorted(glob.glob(os.path.join(root, "seeded/%s-*/meta.json" % pid)))]
    det = sum(1 for m in metas if m["lead_verification"]["detected"])
    out.append("| %s | %d | %s | %s | %d / %d |" % (pid, n, ", ".join(kf) or "–", ", ".join(fx) or "–", det, len(metas)))
out.append("")
out.append("Total: %d audited property theorems; %d known findings; %d `fix:` commits." % (tot, len(k["findings"]), len(k["fixed"])))
out.append("")
out.append("Seeded changes (independent sub-agents, property text + scratch worktree only; `seeded/<id>/`):")
out.append("")
out.append("| seed | what it needs to manifest | verdict of `./check` (quick, seed 0) |")
out.append("|---|---|---|")
for f in sorted(glob.glob(os.path.join(root, "seeded/*/meta.json"))):
    m = json.load(open(f)); lv = m["lead_verification"]
    verdict = next((l for l in lv["check_output"] if l.startswith("VIOLATION")), "not detected")
    verdict = "detected, failing input replayed" if verdict.startswith("VIOLATION") and "no-failing-input-found" not in verdict else \
              ("detected (proof/correspondence broke, no-failing-input-found)" if verdict.startswith("VIOLATION") else "NOT detected")
    if lv.get("note"):
        verdict += " — " + lv["note"]
    needs = str(m.get("needs", m.get("clause", "")))
    needs = re.sub(r"\s+", " ", needs)[:260]
    out.append("| %s | %s | %s |" % (os.path.basename(os.path.dirname(f)), needs.replace("|", "/"), verdict))
block = "\n".join(out)
dp = os.path.join(root, "DESIGN.md")
s = open(dp).read()
b, e = "<!-- STATUS:BEGIN -->", "<!-- STATUS:END -->"
if b in s:
    s = s[:s.index(b) + len(b)] + "\n" + block + "\n" + s[s.index(e):]
    open(dp, "w").write(s)
    print("DESIGN.md status block rewritten (%d lines)" % len(out))
else:
    print(block)
