#!/bin/bash
# usage: tools/try_seed.sh <seed_dir> <Cxx> [tier]   -- applies the seeded change in a scratch worktree and runs the check against it
set -u
seed="$(realpath "$1")"; prop="$2"; tier="${3:-quick}"
wt="/tmp/wt/try_$$"
git -C /repo worktree add -q --detach "$wt" HEAD || exit 3
trap 'git -C /repo worktree remove --force "$wt" >/dev/null 2>&1' EXIT
mkdir -p "$wt/seed_x"; cp "$seed"/*.py "$wt/seed_x/"; ( cd "$wt" && PYTHONPATH="$wt" timeout -k 5 900 /venv/bin/python -W ignore seed_x/demo.py >/dev/null 2>&1; echo "demo on clean tree: exit $?" )
git -C "$wt" apply "$seed/patch.diff" || { echo "patch does not apply"; exit 3; }
( cd "$wt" && PYTHONPATH="$wt" timeout -k 5 900 /venv/bin/python -W ignore seed_x/demo.py >/dev/null 2>&1; echo "demo on changed tree: exit $?" )
if [ -n "${TESTS:-}" ]; then ( cd "$wt" && timeout 1500 /venv/bin/python -W ignore -m pytest -q -p no:cacheprovider --timeout=900 $TESTS 2>&1 | tail -1 | sed "s|^|tests with change: |" ); fi
cd /verif && VERIF_REPO="$wt" VERIF_SEED="${VERIF_SEED:-0}" ./check "$prop" --tier "$tier" 2>&1 | grep -E "VIOLATION|KNOWN-FINDING|exit [0-9]" 
