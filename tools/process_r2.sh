#!/bin/bash
# usage: tools/process_r2.sh Cxx  -- evaluates the round-2 seeds of a property (worktree /tmp/wt/r2_cxx) and keeps them
p="$1"; lc=$(echo $p | tr 'C' 'c')
for k in 1 2 3; do
  d=/tmp/wt/r2_$lc/seed_$k; [ -d "$d" ] || continue
  echo "== $p r2 seed_$k ($(grep -c '^diff --git' $d/patch.diff) file(s))"
  python3 /verif/tools/keep_seed.py $d $p-r2seed$k $p 2>&1 | grep -v "^KNOWN" | grep -v "^$" | cut -c1-220
done
