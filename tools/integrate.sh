#!/bin/bash
# usage: tools/integrate.sh Cxx [known.json ...]  -- merge known findings, regenerate lakefile, build, run three seeds
p="$1"; shift
cd /verif
[ $# -gt 0 ] && python3 tools/merge_known.py "$@" | wc -l
python3 tools/gen_lakefile.py
(cd lean && lake build 2>&1 | grep -E "error|Build completed|failed" | head -5)
for s in 0 1 2; do VERIF_SEED=$s ./check $p | grep -v "^KNOWN-FINDING" | tail -3; done
