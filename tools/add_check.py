#!/usr/bin/env python3
"""usage: tools/add_check.py Cxx <<< '{"text": "...", "note": "..."}'"""
import json, sys, os
root = os.path.dirname(os.path.dirname(os.path.abspath(__file__)))
p = os.path.join(root, "tools", "checks.json")
t = json.load(open(p)); t["checks"][sys.argv[1]] = json.load(sys.stdin)
t["checks"] = dict(sorted(t["checks"].items()))
json.dump(t, open(p, "w"), indent=1)
os.system("python3 %s/tools/gen_manifest.py" % root)
