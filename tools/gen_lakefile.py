#!/usr/bin/env python3
"""Regenerates lean/lakefile.toml (one lean_exe per Drive/Cxx.lean) and lean/SparseSpace.lean (root imports)."""
import os, re
ROOT = os.path.dirname(os.path.dirname(os.path.abspath(__file__)))
L = os.path.join(ROOT, "lean")
drv = sorted(f[:-5] for f in os.listdir(os.path.join(L, "SparseSpace", "Drive")) if re.fullmatch(r"C\d+[a-z]?\.lean", f))
exes = ["drv_" + d.lower() for d in drv]
out = ['name = "SparseSpace"', 'version = "0.1.0"',
       "defaultTargets = [" + ", ".join('"%s"' % t for t in ["SparseSpace"] + exes) + "]", "",
       "[[lean_lib]]", 'name = "SparseSpace"', 'globs = ["SparseSpace.Generated.+", "SparseSpace.Model.+", "SparseSpace.Lemmas.+", "SparseSpace.Properties.+", "SparseSpace.Drive.+"]', ""]
for d, e in zip(drv, exes):
    out += ["[[lean_exe]]", 'name = "%s"' % e, 'root = "SparseSpace.Drive.%s"' % d, ""]
open(os.path.join(L, "lakefile.toml"), "w").write("\n".join(out))
print("lakefile: %d drivers" % len(exes))
