#!/usr/bin/env python3
"""usage: tools/apply_postfix.py Cxx id1 id2 ...   -- applies handoff/postfix/Cxx/fix-*.diff to /repo as separate fix: commits,
copies the staged post-fix files into /verif, deletes the given known-finding ids and records the commits under "fixed"."""
import json, os, subprocess, sys, glob, shutil
root = os.path.dirname(os.path.dirname(os.path.abspath(__file__)))
pid, ids = sys.argv[1], sys.argv[2:]
d = os.path.join(root, "handoff", "postfix", pid)
kp = os.path.join(root, "known_findings.json"); k = json.load(open(kp))
for diff in sorted(glob.glob(os.path.join(d, "fix-*.diff"))):
    msg = diff[:-5] + ".msg"
    r = subprocess.run(["git", "-C", "/repo", "apply", diff], capture_output=True, text=True)
    if r.returncode:
        print("APPLY FAILED", diff, r.stderr); sys.exit(1)
    subprocess.run(["git", "-C", "/repo", "commit", "-qa", "-F", msg], check=True)
    h = subprocess.run(["git", "-C", "/repo", "log", "--format=%h %s", "-1"], capture_output=True, text=True).stdout.strip()
    print("committed", h)
    hh, s = h.split(" ", 1)
    k["fixed"].append({"property": pid, "commit": hh, "line": "fixed: property=%s %s %s" % (pid, hh, s.replace("fix: ", ""))})
fd = os.path.join(d, "files")
for dp, _, fs in os.walk(fd):
    for f in fs:
        src = os.path.join(dp, f); dst = os.path.join(root, os.path.relpath(src, fd))
        os.makedirs(os.path.dirname(dst), exist_ok=True); shutil.copy(src, dst); print("copied", os.path.relpath(dst, root))
before = len(k["findings"])
k["findings"] = [f for f in k["findings"] if f["id"] not in ids]
print("known findings: %d -> %d" % (before, len(k["findings"])))
json.dump(k, open(kp, "w"), indent=1)
