/-!
# Model of the global adaptive 1-D trapezoidal rule (`sparseSpACE/Grid.py`)

`GlobalTrapezoidalGrid.compute_weights` (lines 1036-1089), `compute_1D_quad_weights` (1091-1095) and
`GlobalGrid.set_grid` (950-988) for ONE dimension, over exact rationals.  Import-free, executable.

The weight loop is mirrored branch by branch (`cwLoop`): one pass over the sorted point list that carries
the index `i`, `len(grid_1D)` and the two previous points, with the code's special cases `i == 1`, `i == 2`,
`i == len-3`, `i == len-2` of the modified basis.  Python exceptions become `Except` values.

The *specification* functions `plIntegral` / `plIntegralExtrap` (integral of the piecewise-linear interpolant,
cell by cell) are defined independently of the weight formulas; the theorems of `Properties/C09` relate both.
-/
namespace SparseSpace.GlobalQuad

/-- error kinds of `compute_weights` / `set_grid` (Python exception classes) -/
inductive GQErr where
  | index     -- IndexError
  | assert    -- AssertionError
  | zerodiv   -- ZeroDivisionError (Python floats)
deriving DecidableEq, Repr

/-- first element (`grid_1D[i+1]` seen from index `i`); the fallback `0` is never read when
`len(grid_1D) ≥ 5` or when `modified_basis` is off (every use is guarded by an index test) -/
def hd1 : List Rat → Rat
  | [] => 0
  | y :: _ => y

/-- second element (`grid_1D[i+2]` seen from index `i`) -/
def hd2 : List Rat → Rat
  | _ :: z :: _ => z
  | _ => 0

/-- the `else:` branch of `compute_weights`: `for i in range(0, len(grid_1D))` with both `if i > 0` /
`if i < len(grid_1D) - 1` blocks.  `cwLoop md n i pp p (x :: rest)`: `x = grid_1D[i]`, `p = grid_1D[i-1]`,
`pp = grid_1D[i-2]`, `rest = grid_1D[i+1:]`, `n = len(grid_1D)`; `i == len - 2` is written `i + 2 == n`
(Python compares integers, `len - 2` may be negative). -/
def cwLoop (md : Bool) (n : Nat) : Nat → Rat → Rat → List Rat → List Rat
  | _, _, _, [] => []
  | i, pp, p, x :: rest =>
    let left : Rat :=
      if i = 0 then 0
      else if md && i == 1 then
        (hd1 rest - p) * (hd1 rest - p) / (2 * (hd1 rest - x))          -- h_b ** 2 / (2 * h_a)
      else if md && i == 2 then
        (x - pp) - (x - pp) * (x - pp) / (2 * (x - p))                  -- h_b - h_b ** 2 / (2 * h_a)
      else if !(md && i + 2 == n) then (x - p) / 2
      else 0
    let right : Rat :=
      if i + 1 < n then
        if md && i + 2 == n then
          (if i > 1 then (hd1 rest - p) * (hd1 rest - p) / (2 * (x - p)) else 0)
        else if md && i + 3 == n then
          (if i > 1 then (hd2 rest - x) - (hd2 rest - x) * (hd2 rest - x) / (2 * (hd1 rest - x)) else 0)
        else if !(md && i == 1) then (hd1 rest - x) / 2
        else 0
      else 0
    (left + right) :: cwLoop md n (i + 1) p x rest

/-- Python slice `[1:-1]` -/
def dropEnds (l : List Rat) : List Rat := (l.drop 1).dropLast

/-- `weights[0] = 0.0; weights[-1] = 0.0` (for `len ≥ 2`) -/
def zeroEnds (l : List Rat) : List Rat := 0 :: (dropEnds l ++ [0])

def sumR (l : List Rat) : Rat := l.foldr (· + ·) 0

/-- `10 ** -12` -/
def tol12 : Rat := 1 / 1000000000000

/-- Python `abs` -/
def absR (x : Rat) : Rat := if x < 0 then -x else x

/-- `sum(abs(weights))` -/
def sumAbs (l : List Rat) : Rat := sumR (l.map absR)

/-- Python `max(x, y)` -/
def maxR (x y : Rat) : Rat := if x < y then y else x

/-- the self-check at the end of `compute_weights`:
`abs(sum(weights[1:-1]) - (b - a)) <= 10 ** -12 * max(b - a, sum(abs(weights)))` (tolerance relative to the size of the
weights, which are huge and sign-changing on strongly graded grids) -/
def sumAssertOk (a b : Rat) (ws : List Rat) : Bool :=
  decide (absR (sumR (dropEnds ws) - (b - a)) ≤ tol12 * maxR (b - a) (sumAbs ws))

/-- `compute_weights(grid_1D, a, b, modified_basis=True)`: the 3-point and 4-point special cases, the loop for
the other lengths, the overwriting of the two end weights and the final self-assert -/
def computeWeightsMod (g : List Rat) (a b : Rat) : Except GQErr (List Rat) :=
  match g with
  | [] => .error .index                       -- `weights[0] = 0.0` on an empty array
  | [_] => if sumAssertOk a b [0] then .ok [0] else .error .assert
  | [_, _] => .error .index                   -- `grid_1D[i + 1]` at `i == 1`
  | [_, _, _] => if sumAssertOk a b [0, b - a, 0] then .ok [0, b - a, 0] else .error .assert
  | [_, x1, x2, _] =>
      if x2 - x1 = 0 then .error .zerodiv else
      if sumAssertOk a b [0, -1 * ((b - a) * ((a + b) / 2 - x1) / (x2 - x1)) + b - a,
                          (b - a) * ((a + b) / 2 - x1) / (x2 - x1), 0]
      then .ok [0, -1 * ((b - a) * ((a + b) / 2 - x1) / (x2 - x1)) + b - a,
                (b - a) * ((a + b) / 2 - x1) / (x2 - x1), 0]
      else .error .assert
  | _ :: x1 :: x2 :: _ =>
      -- denominators of the loop: `grid[2]-grid[1]` and `grid[n-2]-grid[n-3]`
      if x2 - x1 = 0 then .error .zerodiv
      else if hd1 (g.reverse.drop 1) - hd2 (g.reverse.drop 1) = 0 then .error .zerodiv
      else if sumAssertOk a b (zeroEnds (cwLoop true g.length 0 0 0 g))
      then .ok (zeroEnds (cwLoop true g.length 0 0 0 g))
      else .error .assert

/-- `GlobalTrapezoidalGrid.compute_weights(grid_1D, a, b, modified_basis)` -/
def computeWeights (g : List Rat) (a b : Rat) (md : Bool) : Except GQErr (List Rat) :=
  if md then computeWeightsMod g a b else .ok (cwLoop false g.length 0 0 0 g)

/-- `all(grid_points[d][i] <= grid_points[d][i + 1] ...)` -/
def sortedLe : List Rat → Bool
  | x :: y :: rest => decide (x ≤ y) && sortedLe (y :: rest)
  | _ => true

/-- result of `set_grid` for one dimension: `coordinate_array[d]`, `weights[d]`, `levels[d]` -/
structure Grid1 where
  coords : List Rat
  weights : List Rat
  levels : List Int
deriving Repr

/-- `GlobalTrapezoidalGrid(a, b, boundary, modified_basis).set_grid([g], [levels])`, one dimension.
The constructor's `assert not(modified_basis) or not(boundary)` comes first. -/
def setGrid (boundary md : Bool) (a b : Rat) (g : List Rat) (levels : List Int) : Except GQErr Grid1 :=
  if md && boundary then .error .assert
  else if levels.length ≠ g.length then .error .assert
  else if !sortedLe g then .error .assert
  else
    match computeWeights g a b md with
    | .error e => .error e
    | .ok ws =>
      if boundary then .ok ⟨g, ws, levels⟩
      else .ok ⟨(g.drop 1).dropLast, dropEnds ws, (levels.drop 1).dropLast⟩

/-- `Σ_i w_i f_i` (`np.inner(f_values.T, weights)` of `IntegratorArbitraryGridScalarProduct`) -/
def dot : List Rat → List Rat → Rat
  | w :: ws, f :: fs => w * f + dot ws fs
  | _, _ => 0

/-- `Grid.get_weights()` for two dimensions: `np.prod(get_cross_product_list(self.weights), axis=1)`, first
dimension outermost (`itertools.product` order); also the order of `getPoints()` -/
def tensor (ws vs : List Rat) : List Rat := ws.flatMap fun w => vs.map fun v => w * v

/-! ## Specification: integral of the piecewise-linear interpolant, cell by cell -/

/-- `Σ_cells (x_{i+1} - x_i) (f_i + f_{i+1}) / 2` — the exact integral over `[x_0, x_{n-1}]` of the continuous
piecewise-linear function through `(x_i, f_i)` -/
def plIntegral : List Rat → List Rat → Rat
  | x0 :: x1 :: xs, f0 :: f1 :: fs => (x1 - x0) * (f0 + f1) / 2 + plIntegral (x1 :: xs) (f1 :: fs)
  | _, _ => 0

/-- value at `x0` of the straight line through the two nearest interior points `(x1,f1)`, `(x2,f2)`;
with a single interior point the extrapolation is constant -/
def extrapLeft : List Rat → List Rat → Rat
  | x0 :: x1 :: x2 :: _, f1 :: f2 :: _ => f1 + (f2 - f1) / (x2 - x1) * (x0 - x1)
  | _, f1 :: _ => f1
  | _, [] => 0

/-- the same at the right end (mirror image) -/
def extrapRight (pts ivals : List Rat) : Rat := extrapLeft pts.reverse ivals.reverse

/-- integral of the piecewise-linear interpolant of the INTERIOR values `ivals` (at `pts[1:-1]`), continued
into the two boundary cells by linear extrapolation (modified basis) -/
def plIntegralExtrap (pts ivals : List Rat) : Rat :=
  plIntegral pts (extrapLeft pts ivals :: (ivals ++ [extrapRight pts ivals]))

/-- the same with zero boundary values (boundary points off, no modified basis) -/
def plIntegralZero (pts ivals : List Rat) : Rat :=
  plIntegral pts (0 :: (ivals ++ [0]))

end SparseSpace.GlobalQuad
