import SparseSpace.Lemmas.GlobalQuad
import Mathlib.Tactic.NormNum
/-! Helper lemmas for C09: the modified-basis branch of `compute_weights` (≥ 5 points). -/
namespace SparseSpace.GlobalQuad

theorem plIntegral_cons_hd (x f : Rat) (ys gs : List Rat) (h : ys.length = gs.length) (hne : ys ≠ []) :
    plIntegral (x :: ys) (f :: gs) = (hd1 ys - x) * (f + hd1 gs) / 2 + plIntegral ys gs := by
  cases ys with
  | nil => exact absurd rfl hne
  | cons y r =>
    cases gs with
    | nil => simp at h
    | cons g r' => simp [plIntegral, hd1]

theorem plIntegral_snoc2 : ∀ (xs fs : List Rat) (u v w fu fv fw : Rat), xs.length = fs.length →
    plIntegral (xs ++ [u, v, w]) (fs ++ [fu, fv, fw]) =
      plIntegral (xs ++ [u]) (fs ++ [fu]) + (v - u) * (fu + fv) / 2 + (w - v) * (fv + fw) / 2 := by
  intro xs
  induction xs with
  | nil =>
    intro fs u v w fu fv fw h
    cases fs with
    | nil => simp [plIntegral]
    | cons _ _ => simp at h
  | cons x xs' ih =>
    intro fs u v w fu fv fw h
    cases fs with
    | nil => simp at h
    | cons f fs' =>
      have h' : xs'.length = fs'.length := by simpa using h
      have := ih fs' u v w fu fv fw h'
      cases xs' with
      | nil =>
        cases fs' with
        | nil => simp [plIntegral]; ring
        | cons _ _ => simp at h'
      | cons y r =>
        cases fs' with
        | nil => simp at h'
        | cons g r' =>
          simp only [List.cons_append, plIntegral] at this ⊢
          rw [this]; ring

theorem hd1_append_cons (c : List Rat) (u : Rat) (t : List Rat) : hd1 (c ++ u :: t) = hd1 (c ++ [u]) := by
  cases c <;> simp [hd1]

/-- generic part of the modified loop: from index `i ≥ 3` to the end, the last three points being `u,v,w` -/
theorem cwLoop_true_tail (n : Nat) : ∀ (c g : List Rat) (i : Nat) (pp p u v w fu fv fw : Rat),
    c.length = g.length → 3 ≤ i → i + c.length + 3 = n →
    dot (cwLoop true n i pp p (c ++ [u, v, w])) (g ++ [fu, fv, fw]) =
      (hd1 (c ++ [u]) - p) / 2 * hd1 (g ++ [fu]) + plIntegral (c ++ [u]) (g ++ [fu])
        + fu * ((w - u) - (w - u) * (w - u) / (2 * (v - u)))
        + fv * ((w - u) * (w - u) / (2 * (v - u)))
        + fw * ((w - v) / 2) := by
  intro c
  induction c with
  | nil =>
    intro g i pp p u v w fu fv fw h hi hn
    cases g with
    | cons _ _ => simp at h
    | nil =>
      obtain ⟨k, rfl⟩ : ∃ k, i = k + 3 := ⟨i - 3, by omega⟩
      have : n = k + 6 := by simp at hn; omega
      subst this
      simp [cwLoop, dot, plIntegral, hd1, hd2]
      ring
  | cons x c' ih =>
    intro g i pp p u v w fu fv fw h hi hn
    cases g with
    | nil => simp at h
    | cons f g' =>
      have h' : c'.length = g'.length := by simpa using h
      obtain ⟨k, rfl⟩ : ∃ k, i = k + 3 := ⟨i - 3, by omega⟩
      obtain ⟨m, rfl⟩ : ∃ m, n = k + m + 7 := ⟨c'.length, by simp at hn; omega⟩
      have hlen : c'.length = m := by simp at hn; omega
      have ih' := ih g' (k + 3 + 1) p x u v w fu fv fw h' (by omega) (by omega)
      simp only [List.cons_append, cwLoop, dot]
      rw [ih']
      have e1 : hd1 (c' ++ [u, v, w]) = hd1 (c' ++ [u]) := hd1_append_cons c' u [v, w]
      rw [e1]
      have e2 : plIntegral (x :: (c' ++ [u])) (f :: (g' ++ [fu]))
          = (hd1 (c' ++ [u]) - x) * (f + hd1 (g' ++ [fu])) / 2 + plIntegral (c' ++ [u]) (g' ++ [fu]) :=
        plIntegral_cons_hd x f _ _ (by simp [h']) (by simp)
      rw [e2]
      have c1 : (k + 3 = 0) = False := by simp
      have c2 : (k + 3 + 2 == k + m + 7) = false := by simp; omega
      have c3 : (k + 3 + 3 == k + m + 7) = false := by simp; omega
      have c4 : (k + 3 + 1 < k + m + 7) := by omega
      simp [c2, c3, c4, hd1]
      ring

/-- value of the line through `(x1,f1)`, `(x2,f2)` at `x0` -/
def lineAt (x1 f1 x2 f2 x0 : Rat) : Rat := f1 + (f2 - f1) / (x2 - x1) * (x0 - x1)

/-- ≥ 6 points, structured: `x0,x1,x2, c…, u,v,w` with interior values `f1,f2, g…, fu,fv`; the two end weights
(which the code overwrites with 0 and `set_grid` slices away) are paired with 0 -/
theorem cwLoop_true_six (x0 x1 x2 u v w f1 f2 fu fv : Rat) (c g : List Rat) (h : c.length = g.length)
    (h12 : x2 - x1 ≠ 0) (huv : v - u ≠ 0) :
    dot (cwLoop true (c.length + 6) 0 0 0 (x0 :: x1 :: x2 :: (c ++ [u, v, w]))) (0 :: f1 :: f2 :: (g ++ [fu, fv, 0])) =
      plIntegral (x0 :: x1 :: x2 :: (c ++ [u, v, w]))
        (lineAt x1 f1 x2 f2 x0 :: f1 :: f2 :: (g ++ [fu, fv, lineAt v fv u fu w])) := by
  have tail := cwLoop_true_tail (c.length + 6) c g 3 x1 x2 u v w fu fv 0 h (by omega) (by omega)
  have c1 : (2 == c.length + 6) = false := by simp
  have c2 : (3 == c.length + 6) = false := by simp
  have c3 : (4 == c.length + 6) = false := by simp
  have c4 : (5 == c.length + 6) = false := by simp
  simp only [cwLoop, dot]
  rw [tail]
  have e2 : plIntegral (x2 :: (c ++ [u])) (f2 :: (g ++ [fu]))
      = (hd1 (c ++ [u]) - x2) * (f2 + hd1 (g ++ [fu])) / 2 + plIntegral (c ++ [u]) (g ++ [fu]) :=
    plIntegral_cons_hd x2 f2 _ _ (by simp [h]) (by simp)
  have e3 := plIntegral_snoc2 (x2 :: c) (f2 :: g) u v w fu fv (lineAt v fv u fu w) (by simp [h])
  simp only [List.cons_append] at e3
  simp only [plIntegral]
  rw [e3, e2, hd1_append_cons c u [v, w]]
  have huv' : u - v ≠ 0 := by intro hh; apply huv; linarith
  simp [c1, c2, c3, c4, hd1, lineAt]
  field_simp
  ring

/-- exactly 5 points (`i == 2` is at the same time `i == len - 3`) -/
theorem cwLoop_true_five (x0 x1 x2 x3 x4 f1 f2 f3 : Rat) (h12 : x2 - x1 ≠ 0) (h23 : x3 - x2 ≠ 0) :
    dot (cwLoop true 5 0 0 0 [x0, x1, x2, x3, x4]) [0, f1, f2, f3, 0] =
      plIntegral [x0, x1, x2, x3, x4] [lineAt x1 f1 x2 f2 x0, f1, f2, f3, lineAt x3 f3 x2 f2 x4] := by
  have h23' : x2 - x3 ≠ 0 := by intro hh; apply h23; linarith
  simp [cwLoop, dot, plIntegral, hd1, hd2, lineAt]
  field_simp
  ring

theorem decomp3 (l : List Rat) (h : 3 ≤ l.length) : ∃ c u v w, l = c ++ [u, v, w] := by
  rcases List.eq_nil_or_concat l with rfl | ⟨l1, w, rfl⟩
  · simp at h
  rcases List.eq_nil_or_concat l1 with rfl | ⟨l2, v, rfl⟩
  · simp at h
  rcases List.eq_nil_or_concat l2 with rfl | ⟨l3, u, rfl⟩
  · simp at h
  exact ⟨l3, u, v, w, by simp⟩

theorem decomp2 (l : List Rat) (h : 2 ≤ l.length) : ∃ c u v, l = c ++ [u, v] := by
  rcases List.eq_nil_or_concat l with rfl | ⟨l1, w, rfl⟩
  · simp at h
  rcases List.eq_nil_or_concat l1 with rfl | ⟨l2, v, rfl⟩
  · simp at h
  exact ⟨l2, v, w, by simp⟩

theorem dropEnds_six (x0 x1 x2 u v w : Rat) (c : List Rat) :
    dropEnds (x0 :: x1 :: x2 :: (c ++ [u, v, w])) = x1 :: x2 :: (c ++ [u, v]) := by
  have : c ++ [u, v, w] = (c ++ [u, v]) ++ [w] := by simp
  simp only [dropEnds, List.drop_one, List.tail_cons]
  rw [this, ← List.cons_append, ← List.cons_append, List.dropLast_concat]

theorem cwLoop_length (md : Bool) (n : Nat) : ∀ (xs : List Rat) (i : Nat) (pp p : Rat),
    (cwLoop md n i pp p xs).length = xs.length := by
  intro xs; induction xs with
  | nil => intro i pp p; simp [cwLoop]
  | cons x r ih => intro i pp p; simp [cwLoop, ih]

theorem dropEnds_length (l : List Rat) : (dropEnds l).length = l.length - 2 := by
  simp [dropEnds]; omega

/-- the modified weights of ≥ 5 points, as the code returns them when it returns -/
theorem computeWeights_mod_ge5 (pts ws : List Rat) (a b : Rat) (h5 : 5 ≤ pts.length)
    (hw : computeWeights pts a b true = .ok ws) : ws = zeroEnds (cwLoop true pts.length 0 0 0 pts) := by
  match pts, h5 with
  | x0 :: x1 :: x2 :: x3 :: x4 :: rest, _ =>
    simp only [computeWeights, if_true, computeWeightsMod] at hw
    split_ifs at hw
    injection hw with hw; exact hw.symm

/-- **modified basis, ≥ 5 points**: the interior weights pair with the interior values to the integral of the
interpolant continued linearly into both boundary cells -/
theorem mod_integral_ge5 (pts ivals : List Rat) (h5 : 5 ≤ pts.length) (hl : ivals.length + 2 = pts.length)
    (hs : pts.Pairwise (· < ·)) :
    dot (dropEnds (cwLoop true pts.length 0 0 0 pts)) ivals = plIntegralExtrap pts ivals := by
  rw [← dot_zeroPad _ _ (by rw [cwLoop_length]; omega)]
  match pts, h5 with
  | [x0, x1, x2, x3, x4], _ =>
    match ivals, hl with
    | [f1, f2, f3], _ =>
      have h12 : x2 - x1 ≠ 0 := by
        have : x1 < x2 := by simp [List.pairwise_cons] at hs; exact hs.2.1.1
        intro h; linarith
      have h23 : x3 - x2 ≠ 0 := by
        have : x2 < x3 := by simp [List.pairwise_cons] at hs; exact hs.2.2.1.1
        intro h; linarith
      have := cwLoop_true_five x0 x1 x2 x3 x4 f1 f2 f3 h12 h23
      simpa [plIntegralExtrap, extrapLeft, extrapRight, lineAt] using this
  | x0 :: x1 :: x2 :: x3 :: x4 :: x5 :: rest, _ =>
    obtain ⟨c, u, v, w, hc⟩ := decomp3 (x3 :: x4 :: x5 :: rest) (by simp)
    rw [hc] at hl hs ⊢
    match ivals, hl with
    | [], hl => simp at hl
    | [_], hl => simp at hl
    | f1 :: f2 :: irest, hl =>
      obtain ⟨g, fu, fv, hg⟩ := decomp2 irest (by simp at hl; omega)
      subst hg
      have hlen : c.length = g.length := by simp at hl; omega
      have h12 : x2 - x1 ≠ 0 := by
        have : x1 < x2 := by
          rw [List.pairwise_cons, List.pairwise_cons] at hs
          exact hs.2.1 x2 (by simp)
        intro h; linarith
      have huv : v - u ≠ 0 := by
        have : u < v := by
          rw [List.pairwise_cons, List.pairwise_cons, List.pairwise_cons, List.pairwise_append] at hs
          have h3 := hs.2.2.2.2.1
          rw [List.pairwise_cons] at h3
          exact h3.1 v (by simp)
        intro h; linarith
      have hn : (x0 :: x1 :: x2 :: (c ++ [u, v, w])).length = c.length + 6 := by simp
      rw [hn]
      have key := cwLoop_true_six x0 x1 x2 u v w f1 f2 fu fv c g hlen h12 huv
      have e : (0 : Rat) :: ((f1 :: f2 :: (g ++ [fu, fv])) ++ [0]) = 0 :: f1 :: f2 :: (g ++ [fu, fv, 0]) := by simp
      rw [e, key]
      simp [plIntegralExtrap, extrapLeft, extrapRight, lineAt]

/-! ### linear functions under the modified basis -/

/-- linear extrapolation reproduces a linear function: with ≥ 4 strictly increasing points the extrapolated
interpolant of the interior samples of `t ↦ α t + β` is the interpolant of all its samples -/
theorem plIntegralExtrap_linear (α β : Rat) (pts : List Rat) (h4 : 4 ≤ pts.length) (hs : pts.Pairwise (· < ·)) :
    plIntegralExtrap pts ((dropEnds pts).map fun t => α * t + β) = plIntegral pts (pts.map fun t => α * t + β) := by
  match pts, h4 with
  | [x0, x1, x2, x3], _ =>
    have h12 : x2 - x1 ≠ 0 := by
      have : x1 < x2 := by simp [List.pairwise_cons] at hs; exact hs.2.1.1
      intro h; linarith
    have h21 : x1 - x2 ≠ 0 := by intro h; apply h12; linarith
    have eL : α * x1 + β + (α * x2 - α * x1) / (x2 - x1) * (x0 - x1) = α * x0 + β := by
      field_simp; ring
    have eR : α * x2 + β + (α * x1 - α * x2) / (x1 - x2) * (x3 - x2) = α * x3 + β := by
      field_simp; ring
    simp [plIntegralExtrap, extrapLeft, extrapRight, dropEnds]
    rw [eL, eR]
  | [x0, x1, x2, x3, x4], _ =>
    have h12 : x2 - x1 ≠ 0 := by
      have : x1 < x2 := by simp [List.pairwise_cons] at hs; exact hs.2.1.1
      intro h; linarith
    have h32 : x2 - x3 ≠ 0 := by
      have : x2 < x3 := by simp [List.pairwise_cons] at hs; exact hs.2.2.1.1
      intro h; linarith
    have eL : α * x1 + β + (α * x2 - α * x1) / (x2 - x1) * (x0 - x1) = α * x0 + β := by
      field_simp; ring
    have eR : α * x3 + β + (α * x2 - α * x3) / (x2 - x3) * (x4 - x3) = α * x4 + β := by
      field_simp; ring
    simp [plIntegralExtrap, extrapLeft, extrapRight, dropEnds]
    rw [eL, eR]
  | x0 :: x1 :: x2 :: x3 :: x4 :: x5 :: rest, _ =>
    obtain ⟨c, u, v, w, hc⟩ := decomp3 (x3 :: x4 :: x5 :: rest) (by simp)
    rw [hc] at hs ⊢
    have h12 : x2 - x1 ≠ 0 := by
      have : x1 < x2 := by
        rw [List.pairwise_cons, List.pairwise_cons] at hs
        exact hs.2.1 x2 (by simp)
      intro h; linarith
    have huv : u - v ≠ 0 := by
      have : u < v := by
        rw [List.pairwise_cons, List.pairwise_cons, List.pairwise_cons, List.pairwise_append] at hs
        have h3 := hs.2.2.2.2.1
        rw [List.pairwise_cons] at h3
        exact h3.1 v (by simp)
      intro h; linarith
    have eL : α * x1 + β + (α * x2 - α * x1) / (x2 - x1) * (x0 - x1) = α * x0 + β := by
      field_simp; ring
    have eR : α * v + β + (α * u - α * v) / (u - v) * (w - v) = α * w + β := by
      field_simp; ring
    rw [dropEnds_six]
    simp [plIntegralExtrap, extrapLeft, extrapRight]
    rw [eL, eR]

theorem dot_map_one : ∀ (ws l : List Rat), ws.length = l.length →
    dot ws (l.map fun t => 0 * t + 1) = sumR ws := by
  intro ws
  induction ws with
  | nil => intro l _; cases l <;> simp [dot, sumR]
  | cons w r ih =>
    intro l h
    cases l with
    | nil => simp at h
    | cons x l' =>
      have := ih l' (by simpa using h)
      simp only [List.map_cons, dot, sumR, List.foldr_cons] at this ⊢
      rw [this]; ring

theorem pairwise_head_lt_getLast (x : Rat) (rest : List Rat) (hne : rest ≠ []) (hs : (x :: rest).Pairwise (· < ·)) :
    x < (x :: rest).getLast (by simp) := by
  rw [List.pairwise_cons] at hs
  have : (x :: rest).getLast (by simp) = rest.getLast hne := List.getLast_cons hne
  rw [this]
  exact hs.1 _ (List.getLast_mem hne)

theorem sumAssertOk_of_sum (a b : Rat) (ws : List Rat) (hab : a ≤ b) (h : sumR (dropEnds ws) = b - a) :
    sumAssertOk a b ws = true := by
  have t : (0 : Rat) ≤ tol12 := by unfold tol12; norm_num
  have hm : 0 ≤ maxR (b - a) (sumAbs ws) := by
    unfold maxR
    split_ifs with hlt
    · linarith
    · linarith
  simp only [sumAssertOk, h, sub_self, decide_eq_true_eq]
  have : absR 0 = 0 := by simp [absR]
  rw [this]
  exact mul_nonneg t hm

theorem getLast_of_getLast? (l : List Rat) (h : l ≠ []) (b : Rat) (hb : l.getLast? = some b) : l.getLast h = b := by
  rw [List.getLast?_eq_some_getLast h] at hb; exact Option.some.inj hb

theorem rev_denominator_ne (pts : List Rat) (h3 : 3 ≤ pts.length) (hs : pts.Pairwise (· < ·)) :
    hd1 (pts.reverse.drop 1) - hd2 (pts.reverse.drop 1) ≠ 0 := by
  have hr : pts.reverse.Pairwise (fun a b => b < a) := List.pairwise_reverse.2 (by simpa using hs)
  have hlen : pts.reverse.length = pts.length := List.length_reverse
  match h : pts.reverse with
  | [] => rw [h] at hlen; simp at hlen; omega
  | [_] => rw [h] at hlen; simp at hlen; omega
  | [_, _] => rw [h] at hlen; simp at hlen; omega
  | w :: v :: u :: t =>
    rw [h] at hr
    have : u < v := by
      rw [List.pairwise_cons, List.pairwise_cons] at hr
      exact hr.2.1 u (by simp)
    simp only [List.drop_one, List.tail_cons, hd1, hd2]
    intro hh; linarith

/-- sum of the interior modified weights for ≥ 5 points -/
theorem mod_sum_ge5 (pts : List Rat) (a b : Rat) (h5 : 5 ≤ pts.length) (hs : pts.Pairwise (· < ·))
    (ha : pts.head? = some a) (hb : pts.getLast? = some b) :
    sumR (dropEnds (cwLoop true pts.length 0 0 0 pts)) = b - a := by
  have hlen : (dropEnds (cwLoop true pts.length 0 0 0 pts)).length = (dropEnds pts).length := by
    rw [dropEnds_length, dropEnds_length, cwLoop_length]
  rw [← dot_map_one _ (dropEnds pts) hlen,
    mod_integral_ge5 pts _ h5 (by rw [List.length_map, dropEnds_length]; omega) hs,
    plIntegralExtrap_linear 0 1 pts (by omega) hs]
  match pts, h5 with
  | x :: rest, _ =>
    have hx : x = a := by simpa using ha
    have hl := getLast_of_getLast? (x :: rest) (by simp) b hb
    rw [plIntegral_linear 0 1 rest x, hl, hx]; ring

/-- **core of the modified-basis clause**: on a strictly increasing grid with ≥ 3 points from `a` to `b`
`compute_weights(…, modified_basis=True)` returns (no exception, self-assert satisfied) and its `[1:-1]` slice
pairs with every interior value table to the integral of the linearly extrapolated interpolant -/
theorem mod_core (pts : List Rat) (a b : Rat) (h3 : 3 ≤ pts.length) (hs : pts.Pairwise (· < ·))
    (ha : pts.head? = some a) (hb : pts.getLast? = some b) :
    ∃ ws, computeWeights pts a b true = .ok ws ∧ ws.length = pts.length ∧ sumR (dropEnds ws) = b - a ∧
      ∀ ivals : List Rat, ivals.length + 2 = pts.length → dot (dropEnds ws) ivals = plIntegralExtrap pts ivals := by
  match pts, h3 with
  | [x0, x1, x2], _ =>
    have hx0 : x0 = a := by simpa using ha
    have hx2 : x2 = b := by simpa using hb
    have hab : a ≤ b := by
      have := pairwise_head_lt_getLast x0 [x1, x2] (by simp) hs
      simp at this; rw [hx0, hx2] at this; exact le_of_lt this
    have hsum : sumR (dropEnds [0, b - a, 0]) = b - a := by simp [sumR, dropEnds]
    refine ⟨[0, b - a, 0], ?_, by simp, hsum, ?_⟩
    · simp [computeWeights, computeWeightsMod, sumAssertOk_of_sum a b _ hab hsum]
    · intro ivals hl
      match ivals, hl with
      | [f1], _ =>
        subst hx0; subst hx2
        simp [dropEnds, dot, plIntegralExtrap, extrapLeft, extrapRight, plIntegral]; ring
  | [x0, x1, x2, x3], _ =>
    have hx0 : x0 = a := by simpa using ha
    have hx3 : x3 = b := by simpa using hb
    have hab : a ≤ b := by
      have := pairwise_head_lt_getLast x0 [x1, x2, x3] (by simp) hs
      simp at this; rw [hx0, hx3] at this; exact le_of_lt this
    have h12 : x2 - x1 ≠ 0 := by
      have : x1 < x2 := by simp [List.pairwise_cons] at hs; exact hs.2.1.1
      intro h; linarith
    have h21 : x1 - x2 ≠ 0 := by intro h; apply h12; linarith
    have hsum : sumR (dropEnds [0, -1 * ((b - a) * ((a + b) / 2 - x1) / (x2 - x1)) + b - a,
        (b - a) * ((a + b) / 2 - x1) / (x2 - x1), 0]) = b - a := by
      simp [sumR, dropEnds]; ring
    refine ⟨_, ?_, by simp, hsum, ?_⟩
    · simp only [computeWeights, if_true, computeWeightsMod, if_neg h12, sumAssertOk_of_sum a b _ hab hsum]
    · intro ivals hl
      match ivals, hl with
      | [f1, f2], _ =>
        subst hx0; subst hx3
        simp [dropEnds, dot, plIntegralExtrap, extrapLeft, extrapRight, plIntegral]
        field_simp
        ring
  | x0 :: x1 :: x2 :: x3 :: x4 :: rest, h3' =>
    have h5 : 5 ≤ (x0 :: x1 :: x2 :: x3 :: x4 :: rest).length := by simp
    have hab : a ≤ b := by
      have := pairwise_head_lt_getLast x0 (x1 :: x2 :: x3 :: x4 :: rest) (by simp) hs
      rw [getLast_of_getLast? _ (by simp) b hb] at this
      have hx0 : x0 = a := by simpa using ha
      rw [hx0] at this; exact le_of_lt this
    have h12 : x2 - x1 ≠ 0 := by
      have : x1 < x2 := by
        rw [List.pairwise_cons, List.pairwise_cons] at hs
        exact hs.2.1 x2 (by simp)
      intro h; linarith
    have hrev := rev_denominator_ne _ h3' hs
    have hsum := mod_sum_ge5 _ a b h5 hs ha hb
    have hsum' : sumR (dropEnds (zeroEnds (cwLoop true (x0 :: x1 :: x2 :: x3 :: x4 :: rest).length 0 0 0
        (x0 :: x1 :: x2 :: x3 :: x4 :: rest)))) = b - a := by rw [dropEnds_zeroEnds]; exact hsum
    refine ⟨zeroEnds (cwLoop true (x0 :: x1 :: x2 :: x3 :: x4 :: rest).length 0 0 0 (x0 :: x1 :: x2 :: x3 :: x4 :: rest)),
      ?_, ?_, hsum', ?_⟩
    · simp only [computeWeights, if_true, computeWeightsMod, if_neg h12, if_neg hrev,
        sumAssertOk_of_sum a b _ hab hsum']
    · simp [zeroEnds, dropEnds_length, cwLoop_length]
    · intro ivals hl
      rw [dropEnds_zeroEnds]
      exact mod_integral_ge5 _ ivals h5 hl hs

theorem sortedLe_of_pairwise : ∀ (pts : List Rat), pts.Pairwise (· < ·) → sortedLe pts = true := by
  intro pts
  induction pts with
  | nil => intro _; simp [sortedLe]
  | cons x rest ih =>
    intro hs
    cases rest with
    | nil => simp [sortedLe]
    | cons y r =>
      rw [List.pairwise_cons] at hs
      simp [sortedLe, le_of_lt (hs.1 y (by simp)), ih hs.2]

end SparseSpace.GlobalQuad
