import SparseSpace.Model.Accum
import Mathlib.Algebra.BigOperators.Group.List.Basic
import Mathlib.Algebra.Order.Field.Rat
import Mathlib.Tactic.Abel
import Mathlib.Algebra.Module.NatInt
import Mathlib.Algebra.Group.Prod
import Mathlib.Tactic.NormNum
/-!
# Lemmas about `Model/Accum` in an arbitrary additive commutative group
-/
namespace SparseSpace.Accum

/-- the operations of an additive commutative group (`c • v` is the `ℤ`-multiple) -/
def groupOps (V : Type) [AddCommGroup V] : Ops V := ⟨0, (· + ·), (· - ·), (· • ·)⟩

/-- the driver's exact rational arithmetic IS the group arithmetic of `ℚ` -/
theorem ratOps_eq : ratOps = groupOps ℚ := by
  unfold ratOps groupOps
  congr

variable {V : Type} [AddCommGroup V]

/-- the coefficient-weighted sum `Σ c • q` -/
def comb (contribs : List (Int × V)) : V := (contribs.map fun cp => cp.1 • cp.2).sum

@[simp] theorem comb_nil : comb ([] : List (Int × V)) = 0 := rfl
@[simp] theorem comb_cons (cp : Int × V) (l : List (Int × V)) : comb (cp :: l) = cp.1 • cp.2 + comb l := by
  simp [comb]
theorem comb_append (l₁ l₂ : List (Int × V)) : comb (l₁ ++ l₂) = comb l₁ + comb l₂ := by
  simp [comb]

theorem accumulate_eq (init : V) (cs : List (Int × V)) :
    accumulate (groupOps V) init cs = init + comb cs := by
  induction cs generalizing init with
  | nil => simp [accumulate]
  | cons cp rest ih =>
    have : accumulate (groupOps V) init (cp :: rest) = accumulate (groupOps V) (init + cp.1 • cp.2) rest := rfl
    rw [this, ih, comb_cons]; abel


/-! ### dimension-adaptive dictionary -/

/-- every stored component result is the result of the component -/
def DictOK (Q : LV → V) (dict : List (LV × V)) : Prop := ∀ lv v, dict.lookup lv = some v → v = Q lv

omit [AddCommGroup V] in
theorem lookup_append_single (dict : List (LV × V)) (k lv : LV) (q : V) (h : dict.lookup k = none) :
    (dict ++ [(k, q)]).lookup lv = if lv = k then some q else dict.lookup lv := by
  induction dict with
  | nil =>
    by_cases hk : lv = k
    · subst hk; simp
    · have : (lv == k) = false := by simpa using hk
      simp [List.lookup, this, hk]
  | cons e rest ih =>
    obtain ⟨k', v'⟩ := e
    by_cases hk' : lv = k'
    · subst hk'
      have hne : ¬ lv = k := by
        intro he; subst he; simp [List.lookup] at h
      simp [List.lookup, hne]
    · have hb : (lv == k') = false := by simpa using hk'
      have hrest : rest.lookup k = none := by
        by_cases hkk : k = k'
        · subst hkk; simp [List.lookup] at h
        · have : (k == k') = false := by simpa using hkk
          simpa [List.lookup, this] using h
      simp only [List.cons_append, List.lookup, hb]
      exact ih hrest

omit [AddCommGroup V] in
theorem daLookup_ok (Q : LV → V) (dict : List (LV × V)) (lv : LV) (h : DictOK Q dict) :
    (daLookup Q dict lv).2 = Q lv ∧ DictOK Q (daLookup Q dict lv).1 := by
  unfold daLookup
  cases hl : dict.lookup lv with
  | some v => exact ⟨h lv v hl, h⟩
  | none =>
    refine ⟨rfl, ?_⟩
    intro k v hk
    rw [lookup_append_single dict lv k (Q lv) hl] at hk
    by_cases hkk : k = lv
    · subst hkk; simpa using hk.symm
    · rw [if_neg hkk] at hk; exact h k v hk

theorem daIter_ok (Q : LV → V) (scheme : List (LV × Int)) (dict : List (LV × V)) (acc : V) (h : DictOK Q dict) :
    let r := scheme.foldl (fun st lc => let r := daLookup Q st.1 lc.1; (r.1, (groupOps V).acc st.2 lc.2 r.2)) (dict, acc)
    r.2 = acc + comb (scheme.map fun lc => (lc.2, Q lc.1)) ∧ DictOK Q r.1 := by
  induction scheme generalizing dict acc with
  | nil => simp [h]
  | cons lc rest ih =>
    obtain ⟨hv, hd⟩ := daLookup_ok Q dict lc.1 h
    simp only [List.foldl_cons, List.map_cons, comb_cons]
    have := ih (daLookup Q dict lc.1).1 ((groupOps V).acc acc lc.2 (daLookup Q dict lc.1).2) hd
    obtain ⟨h1, h2⟩ := this
    refine ⟨?_, h2⟩
    rw [h1, hv]
    show acc + lc.2 • Q lc.1 + _ = _
    abel


/-! ### extend–split machine -/

/-- what one component grid adds for the area `id`: `c • Q(component, area)`, nothing if it is not computed -/
def contribution (comp : Comp V) (id : Nat) : V :=
  match comp.part id with
  | none => 0
  | some p => comp.coeff • p

/-- the local combination of an area under a scheme: `Σ_components c • Q(component, area)` -/
def localComb (sch : List (Comp V)) (id : Nat) : V := (sch.map fun comp => contribution comp id).sum

/-- `Σ_{a ∈ areas} g a.id` -/
def idSum (g : Nat → V) (l : List (Area V)) : V := (l.map fun a => g a.id).sum

@[simp] theorem idSum_nil (g : Nat → V) : idSum g ([] : List (Area V)) = 0 := rfl
@[simp] theorem idSum_cons (g : Nat → V) (a : Area V) (l : List (Area V)) : idSum g (a :: l) = g a.id + idSum g l := by
  simp [idSum]
theorem idSum_append (g : Nat → V) (l₁ l₂ : List (Area V)) : idSum g (l₁ ++ l₂) = idSum g l₁ + idSum g l₂ := by
  simp [idSum]
theorem idSum_add (f g : Nat → V) (l : List (Area V)) : idSum (fun i => f i + g i) l = idSum f l + idSum g l := by
  induction l with
  | nil => simp
  | cons a l ih => simp only [idSum_cons, ih]; abel
theorem idSum_congr_ids (g : Nat → V) (l₁ l₂ : List (Area V)) (h : l₁.map (·.id) = l₂.map (·.id)) :
    idSum g l₁ = idSum g l₂ := by
  have e : ∀ l : List (Area V), idSum g l = ((l.map (·.id)).map g).sum := by
    intro l; simp [idSum, List.map_map, Function.comp_def]
  rw [e, e, h]
theorem idSum_congr (f g : Nat → V) (l : List (Area V)) (h : ∀ a ∈ l, f a.id = g a.id) : idSum f l = idSum g l := by
  induction l with
  | nil => simp
  | cons a l ih =>
    simp only [idSum_cons]
    rw [h a (by simp), ih (fun b hb => h b (by simp [hb]))]
theorem idSum_zero (l : List (Area V)) : idSum (fun _ => (0 : V)) l = 0 := by
  induction l with
  | nil => simp
  | cons a l ih => simp [ih]

@[simp] theorem localComb_nil (id : Nat) : localComb ([] : List (Comp V)) id = 0 := rfl
@[simp] theorem localComb_cons (comp : Comp V) (sch : List (Comp V)) (id : Nat) :
    localComb (comp :: sch) id = contribution comp id + localComb sch id := by simp [localComb]

/-- effect of one component grid on one area -/
def bumpArea (comp : Comp V) (a : Area V) : Area V :=
  match comp.part a.id with
  | none => a
  | some p => a.addValue (groupOps V) comp.coeff p

/-- effect of a whole scheme on one area -/
def bumpAll (sch : List (Comp V)) (a : Area V) : Area V := sch.foldl (fun a comp => bumpArea comp a) a

@[simp] theorem bumpArea_id (comp : Comp V) (a : Area V) : (bumpArea comp a).id = a.id := by
  unfold bumpArea; cases comp.part a.id <;> rfl

theorem bumpArea_value (comp : Comp V) (a : Area V) (v : V) (h : a.value = some v) :
    (bumpArea comp a).value = some (v + contribution comp a.id) := by
  unfold bumpArea contribution
  cases hp : comp.part a.id with
  | none => simp [h]
  | some p => simp [Area.addValue, h, groupOps]

@[simp] theorem bumpAll_id (sch : List (Comp V)) (a : Area V) : (bumpAll sch a).id = a.id := by
  induction sch generalizing a with
  | nil => rfl
  | cons c sch ih => simp [bumpAll, List.foldl_cons] at ih ⊢; rw [ih]; simp

theorem bumpAll_value (sch : List (Comp V)) (a : Area V) (v : V) (h : a.value = some v) :
    (bumpAll sch a).value = some (v + localComb sch a.id) := by
  induction sch generalizing a v with
  | nil => simp [bumpAll, h]
  | cons c sch ih =>
    have h1 := bumpArea_value c a v h
    have := ih (bumpArea c a) _ h1
    simp only [bumpAll, List.foldl_cons] at this ⊢
    rw [this, bumpArea_id, localComb_cons, add_assoc]

theorem compStep_eq (comp : Comp V) (areas : List (Area V)) (i cv : V) :
    compStep (groupOps V) comp (i, cv) areas =
      ((i + idSum (contribution comp) areas, cv + idSum (contribution comp) areas), areas.map (bumpArea comp)) := by
  induction areas generalizing i cv with
  | nil => simp [compStep]
  | cons a rest ih =>
    unfold compStep
    cases hp : comp.part a.id with
    | none =>
      simp only [ih, List.map_cons, idSum_cons]
      simp [contribution, bumpArea, hp]
    | some p =>
      simp only [ih, List.map_cons, idSum_cons]
      simp only [contribution, bumpArea, hp, Ops.acc, groupOps]
      refine Prod.ext (Prod.ext ?_ ?_) rfl <;> simp only [] <;> abel

theorem computeSolutions_eq (sch : List (Comp V)) (areas : List (Area V)) (i cv : V) :
    computeSolutions (groupOps V) sch (i, cv) areas =
      ((i + idSum (localComb sch) areas, cv + idSum (localComb sch) areas), areas.map (bumpAll sch)) := by
  induction sch generalizing areas i cv with
  | nil =>
    have : idSum (localComb ([] : List (Comp V))) areas = 0 := by
      rw [show localComb ([] : List (Comp V)) = fun _ => (0 : V) from rfl]; exact idSum_zero areas
    have hb : bumpAll ([] : List (Comp V)) = id := by funext a; rfl
    simp [computeSolutions, this, hb]
  | cons comp rest ih =>
    have step : computeSolutions (groupOps V) (comp :: rest) (i, cv) areas =
        computeSolutions (groupOps V) rest (compStep (groupOps V) comp (i, cv) areas).1
          (compStep (groupOps V) comp (i, cv) areas).2 := rfl
    rw [step, compStep_eq, ih]
    have hids : (areas.map (bumpArea comp)).map (·.id) = areas.map (·.id) := by
      simp [List.map_map, Function.comp_def]
    rw [idSum_congr_ids _ _ _ hids]
    have hsum : idSum (localComb (comp :: rest)) areas = idSum (contribution comp) areas + idSum (localComb rest) areas := by
      rw [← idSum_add]; exact idSum_congr _ _ _ (fun a _ => localComb_cons comp rest a.id)
    rw [hsum]
    refine Prod.ext (Prod.ext ?_ ?_) ?_
    · simp only []; abel
    · simp only []; abel
    · simp [List.map_map, Function.comp_def, bumpAll]


/-- what `evaluate_operation()` does, in closed form, from ANY state -/
theorem evalOp_eq (sch : List (Comp V)) (s : ES V) :
    (evalOp (groupOps V) sch s).integral = s.integral + idSum (localComb sch) (s.areas.drop s.startNew) ∧
    (evalOp (groupOps V) sch s).contValue = s.contValue + idSum (localComb sch) (s.areas.drop s.startNew) ∧
    (evalOp (groupOps V) sch s).areas =
      s.areas.take s.startNew ++ (s.areas.drop s.startNew).map (fun a => ⟨a.id, some (localComb sch a.id)⟩) ∧
    (evalOp (groupOps V) sch s).startNew = s.areas.length ∧ (evalOp (groupOps V) sch s).popArray = s.popArray := by
  unfold evalOp
  simp only [computeSolutions_eq]
  have hids : ((s.areas.drop s.startNew).map fun a => ({ a with value := some (groupOps V).zero } : Area V)).map (·.id)
      = (s.areas.drop s.startNew).map (·.id) := by
    simp [List.map_map, Function.comp_def]
  refine ⟨?_, ?_, ?_, ?_, trivial⟩
  · rw [idSum_congr_ids _ _ _ hids]
  · rw [idSum_congr_ids _ _ _ hids]
  rotate_left
  · simp only [List.length_append, List.length_map, List.length_take, List.length_drop]; omega
  · simp only [List.map_map]
    congr 1
    apply List.map_congr_left
    intro a _
    have hv := bumpAll_value sch ({ a with value := some (groupOps V).zero } : Area V) 0 rfl
    have hi := bumpAll_id sch ({ a with value := some (groupOps V).zero } : Area V)
    simp only [Function.comp_def]
    cases hb : bumpAll sch ({ a with value := some (groupOps V).zero } : Area V) with
    | mk bid bval =>
      rw [hb] at hv hi
      simp only at hv hi
      rw [hv, hi, zero_add]

/-- what `evaluate_final_combi()` does as coded, from ANY state: everything is ADDED to what is already there -/
theorem finalOp_eq (sch : List (Comp V)) (s : ES V) :
    (finalOp (groupOps V) sch s).integral = s.integral + idSum (localComb sch) s.areas ∧
    (finalOp (groupOps V) sch s).contValue = s.contValue + idSum (localComb sch) s.areas ∧
    (finalOp (groupOps V) sch s).areas = s.areas.map (bumpAll sch) := by
  unfold finalOp
  simp only [computeSolutions_eq]
  exact ⟨trivial, trivial, trivial⟩

/-- the repaired `evaluate_final_combi()` recomputes from zero -/
theorem finalOpReset_eq (sch : List (Comp V)) (s : ES V) :
    (finalOpReset (groupOps V) sch s).integral = idSum (localComb sch) s.areas ∧
    (finalOpReset (groupOps V) sch s).contValue = idSum (localComb sch) s.areas := by
  unfold finalOpReset
  simp only [computeSolutions_eq]
  have hids : (s.areas.map fun a => ({ a with value := some (groupOps V).zero } : Area V)).map (·.id)
      = s.areas.map (·.id) := by
    simp [List.map_map, Function.comp_def]
  refine ⟨?_, ?_⟩ <;>
  · rw [idSum_congr_ids _ _ _ hids]; show (0 : V) + _ = _; rw [zero_add]

theorem idSum_eraseIdx (g : Nat → V) (l : List (Area V)) (p : Nat) (a : Area V) (h : l[p]? = some a) :
    idSum g l = idSum g (l.eraseIdx p) + g a.id := by
  induction l generalizing p with
  | nil => simp at h
  | cons b l ih =>
    cases p with
    | zero =>
      simp at h; subst h
      simp only [List.eraseIdx_cons_zero, idSum_cons]; abel
    | succ p =>
      simp at h
      simp only [List.eraseIdx_cons_succ, idSum_cons, ih p h]; abel

theorem removeLoop_spec (spec : Nat → V) (new : List (Area V)) (hnew : ∀ a ∈ new, a.value = none) :
    ∀ (ps : List Nat) (cv : V) (old removed : List (Area V)) (res : (V × List (Area V) × Nat) × List (Area V)),
      (∀ a ∈ old, a.value = some (spec a.id)) →
      removeLoop (groupOps V) ps (cv, old ++ new, old.length) removed = some res →
      ∃ old' rem, res = ((cv - idSum spec rem, old' ++ new, old'.length), removed ++ rem) ∧
        (∀ a ∈ old', a.value = some (spec a.id)) ∧ (∀ a ∈ rem, a.value = some (spec a.id)) ∧
        idSum spec old = idSum spec old' + idSum spec rem := by
  intro ps
  induction ps with
  | nil =>
    intro cv old removed res hold h
    simp only [removeLoop, Option.some.injEq] at h
    exact ⟨old, [], by simp [← h], hold, by simp, by simp⟩
  | cons p ps ih =>
    intro cv old removed res hold h
    unfold removeLoop at h
    cases hget : (old ++ new)[p]? with
    | none => simp [hget] at h
    | some a =>
      cases hval : a.value with
      | none => simp [hget, hval] at h
      | some v =>
        simp only [hget, hval] at h
        have hp : p < old.length := by
          by_contra hge
          have hge : old.length ≤ p := Nat.le_of_not_lt hge
          rw [List.getElem?_append_right hge] at hget
          have hmem : a ∈ new := List.mem_of_getElem? hget
          rw [hnew a hmem] at hval; cases hval
        have hget' : old[p]? = some a := by
          rwa [List.getElem?_append_left hp] at hget
        have hmem : a ∈ old := List.mem_of_getElem? hget'
        have hv : v = spec a.id := by
          have := hold a hmem; rw [hval] at this; exact Option.some.inj this
        have hne : (old.length != 0) = true := by
          simp only [bne_iff_ne, ne_eq]; omega
        have hlen : old.length - 1 = (old.eraseIdx p).length := by
          rw [List.length_eraseIdx]; simp [hp]
        rw [List.eraseIdx_append_of_lt_length hp, if_pos hne, hlen] at h
        have hold' : ∀ b ∈ old.eraseIdx p, b.value = some (spec b.id) :=
          fun b hb => hold b (List.mem_of_mem_eraseIdx hb)
        obtain ⟨old', rem, hres, h1, h2, h3⟩ := ih _ _ _ res hold' h
        refine ⟨old', a :: rem, ?_, h1, ?_, ?_⟩
        · rw [hres]
          simp only [idSum_cons, List.append_assoc, List.singleton_append, groupOps, hv]
          refine Prod.ext (Prod.ext ?_ rfl) rfl
          simp only []; abel
        · intro b hb
          rcases List.mem_cons.mp hb with rfl | hb
          · exact hold _ hmem
          · exact h2 b hb
        · rw [idSum_eraseIdx spec old p a hget', h3, idSum_cons]; abel

theorem processRemoved_spec (spec : Nat → V) (rem : List (Area V)) (integral : V)
    (h : ∀ a ∈ rem, a.value = some (spec a.id)) :
    processRemoved (groupOps V) integral rem = integral - idSum spec rem := by
  induction rem generalizing integral with
  | nil => simp [processRemoved]
  | cons a rem ih =>
    unfold processRemoved
    rw [h a (by simp)]
    simp only []
    rw [ih _ (fun b hb => h b (by simp [hb]))]
    simp only [idSum_cons, groupOps]; abel

/-- state at a stop (after an evaluation): every area carries its local combination and both running totals are the
sum of them -/
structure Good (spec : Nat → V) (s : ES V) : Prop where
  integral : s.integral = idSum spec s.areas
  contValue : s.contValue = idSum spec s.areas
  values : ∀ a ∈ s.areas, a.value = some (spec a.id)
  pops : s.popArray = []

/-- state between `refine()` and the next evaluation -/
structure Mid (spec : Nat → V) (s : ES V) : Prop where
  split : ∃ old new, s.areas = old ++ new ∧ s.startNew = old.length ∧ (∀ a ∈ old, a.value = some (spec a.id)) ∧
    (∀ a ∈ new, a.value = none) ∧ s.integral = idSum spec old ∧ s.contValue = idSum spec old
  pops : s.popArray = []

theorem refineOp_good (spec : Nat → V) (s s' : ES V) (r : RefStep) (hs : Good spec s)
    (h : refineOp (groupOps V) s r = some s') : Mid spec s' := by
  unfold refineOp at h
  cases hl : removeLoop (groupOps V)
      (((s.popArray ++ r.pops).mergeSort fun a b => decide (a ≤ b)).reverse)
      (s.contValue, s.areas ++ r.adds.map (⟨·, none⟩), s.areas.length) [] with
  | none => simp [hl] at h
  | some res =>
    have hnew : ∀ a ∈ r.adds.map (fun i => (⟨i, none⟩ : Area V)), a.value = none := by
      intro a ha; obtain ⟨i, _, rfl⟩ := List.mem_map.mp ha; rfl
    obtain ⟨old', rem, hres, h1, h2, h3⟩ := removeLoop_spec spec _ hnew _ _ _ _ res hs.values hl
    simp only [hl, hres, Option.some.injEq, List.nil_append] at h
    subst h
    refine ⟨⟨old', _, rfl, rfl, h1, hnew, ?_, ?_⟩, rfl⟩
    · simp only []
      rw [processRemoved_spec spec rem _ h2, hs.integral, h3]; abel
    · simp only []
      rw [hs.contValue, h3]; abel

theorem evalOp_mid (spec : Nat → V) (sch : List (Comp V)) (s : ES V) (hs : Mid spec s)
    (hok : ∀ a ∈ s.areas.drop s.startNew, localComb sch a.id = spec a.id) : Good spec (evalOp (groupOps V) sch s) := by
  obtain ⟨⟨old, new, hareas, hsn, hold, _, hi, hc⟩, hp⟩ := hs
  obtain ⟨e1, e2, e3, _, e5⟩ := evalOp_eq sch s
  have hdrop : s.areas.drop s.startNew = new := by rw [hareas, hsn]; simp
  have htake : s.areas.take s.startNew = old := by rw [hareas, hsn]; simp
  rw [hdrop] at e1 e2 e3 hok
  rw [htake] at e3
  have hsum : idSum (localComb sch) new = idSum spec new := idSum_congr _ _ _ hok
  have hnewids : idSum spec (new.map fun a => (⟨a.id, some (localComb sch a.id)⟩ : Area V)) = idSum spec new := by
    apply idSum_congr_ids; simp [List.map_map, Function.comp_def]
  refine ⟨?_, ?_, ?_, by rw [e5, hp]⟩
  · rw [e1, e3, idSum_append, hnewids, hi, hsum]
  · rw [e2, e3, idSum_append, hnewids, hc, hsum]
  · rw [e3]
    intro a ha
    rcases List.mem_append.mp ha with ha | ha
    · exact hold a ha
    · obtain ⟨b, hb, rfl⟩ := List.mem_map.mp ha
      simp only []
      rw [hok b hb]

theorem init_mid (spec : Nat → V) (ids : List Nat) : Mid spec (ES.init (groupOps V) ids) := by
  refine ⟨⟨[], ids.map (⟨·, none⟩), by simp [ES.init], rfl, by simp, ?_, rfl, rfl⟩, rfl⟩
  intro a ha; obtain ⟨i, _, rfl⟩ := List.mem_map.mp ha; rfl

/-- the hypothesis tying the per-step inputs `Q` to ONE function `spec`: whenever an area is evaluated (it is new at that
evaluation), the scheme current at that moment combines to `spec` on it.  Defined along the run. -/
def HistOK (spec : Nat → V) : ES V → List (RefStep × List (Comp V)) → Prop
  | _, [] => True
  | s, (r, sch) :: rest =>
    match refineOp (groupOps V) s r with
    | none => True
    | some s' => (∀ a ∈ s'.areas.drop s'.startNew, localComb sch a.id = spec a.id) ∧
        HistOK spec (evalOp (groupOps V) sch s') rest

instance HistOK.dec [DecidableEq V] (spec : Nat → V) :
    (s : ES V) → (hist : List (RefStep × List (Comp V))) → Decidable (HistOK spec s hist)
  | _, [] => isTrue trivial
  | s, (r, sch) :: rest => by
    unfold HistOK
    cases refineOp (groupOps V) s r with
    | none => exact isTrue trivial
    | some s' =>
      have := HistOK.dec spec (evalOp (groupOps V) sch s') rest
      exact inferInstanceAs (Decidable (_ ∧ _))

theorem runLoop_good (spec : Nat → V) (hist : List (RefStep × List (Comp V))) (s s' : ES V) (hs : Good spec s)
    (hok : HistOK spec s hist) (h : runLoop (groupOps V) s hist = some s') : Good spec s' := by
  induction hist generalizing s with
  | nil => simp only [runLoop, Option.some.injEq] at h; subst h; exact hs
  | cons e rest ih =>
    obtain ⟨r, sch⟩ := e
    unfold runLoop at h
    unfold HistOK at hok
    cases hr : refineOp (groupOps V) s r with
    | none => simp [hr] at h
    | some s1 =>
      simp only [hr] at h hok
      exact ih _ (evalOp_mid spec sch s1 (refineOp_good spec s s1 r hs hr) hok.1) hok.2 h


theorem removeLoop_some (new : List (Area V)) :
    ∀ (ps : List Nat) (cv : V) (old removed : List (Area V)),
      ps.Pairwise (fun a b => b < a) → (∀ p ∈ ps, p < old.length) → (∀ a ∈ old, ∃ v, a.value = some v) →
      ∃ res, removeLoop (groupOps V) ps (cv, old ++ new, old.length) removed = some res := by
  intro ps
  induction ps with
  | nil => intro cv old removed _ _ _; exact ⟨_, rfl⟩
  | cons p ps ih =>
    intro cv old removed hpw hlt hval
    have hp : p < old.length := hlt p (by simp)
    have hget : (old ++ new)[p]? = some old[p] := by
      rw [List.getElem?_append_left hp, List.getElem?_eq_getElem hp]
    obtain ⟨v, hv⟩ := hval old[p] (List.getElem_mem hp)
    unfold removeLoop
    simp only [hget, hv]
    have hne : (old.length != 0) = true := by simp only [bne_iff_ne, ne_eq]; omega
    have hlen : old.length - 1 = (old.eraseIdx p).length := by rw [List.length_eraseIdx]; simp [hp]
    rw [List.eraseIdx_append_of_lt_length hp, if_pos hne, hlen]
    apply ih
    · exact (List.pairwise_cons.mp hpw).2
    · intro q hq
      have h1 : q < p := (List.pairwise_cons.mp hpw).1 q hq
      rw [← hlen]; omega
    · intro a ha; exact hval a (List.mem_of_mem_eraseIdx ha)

/-- a refinement round that removes DISTINCT positions of the list as it is at a stop never raises -/
theorem refineOp_some (spec : Nat → V) (s : ES V) (r : RefStep) (hs : Good spec s) (hnd : r.pops.Nodup)
    (hlt : ∀ p ∈ r.pops, p < s.areas.length) : ∃ s', refineOp (groupOps V) s r = some s' := by
  unfold refineOp
  rw [hs.pops, List.nil_append]
  have hperm := List.mergeSort_perm r.pops (fun a b => decide (a ≤ b))
  have hsorted : (r.pops.mergeSort (fun a b => decide (a ≤ b))).Pairwise (fun a b => decide (a ≤ b) = true) :=
    List.pairwise_mergeSort (by intro a b c; simp only [decide_eq_true_eq]; omega)
      (by intro a b; simp only [Bool.or_eq_true, decide_eq_true_eq]; omega) r.pops
  have hnd' : (r.pops.mergeSort (fun a b => decide (a ≤ b))).Nodup := hperm.nodup_iff.mpr hnd
  have hstrict : ((r.pops.mergeSort (fun a b => decide (a ≤ b))).reverse).Pairwise (fun a b => b < a) := by
    rw [List.pairwise_reverse]
    refine (hsorted.and hnd').imp ?_
    intro a b h
    have h1 : a ≤ b := by simpa using h.1
    have h2 : a ≠ b := h.2
    omega
  have hlt' : ∀ p ∈ (r.pops.mergeSort (fun a b => decide (a ≤ b))).reverse, p < s.areas.length := by
    intro p hp
    exact hlt p (hperm.mem_iff.mp (List.mem_reverse.mp hp))
  obtain ⟨res, hres⟩ := removeLoop_some (r.adds.map (fun i => (⟨i, none⟩ : Area V))) _ s.contValue s.areas [] hstrict hlt'
    (fun a ha => ⟨_, hs.values a ha⟩)
  simp only [hres]
  exact ⟨_, rfl⟩

/-- every round of the history removes distinct positions of the container as it is at that moment — what
`get_next_object_for_refinement` produces.  Defined along the run. -/
def HistValid : ES V → List (RefStep × List (Comp V)) → Prop
  | _, [] => True
  | s, (r, sch) :: rest =>
    r.pops.Nodup ∧ (∀ p ∈ r.pops, p < s.areas.length) ∧
    match refineOp (groupOps V) s r with
    | none => True
    | some s' => HistValid (evalOp (groupOps V) sch s') rest

instance HistValid.dec [DecidableEq V] :
    (s : ES V) → (hist : List (RefStep × List (Comp V))) → Decidable (HistValid s hist)
  | _, [] => isTrue trivial
  | s, (r, sch) :: rest => by
    unfold HistValid
    cases refineOp (groupOps V) s r with
    | none => exact inferInstanceAs (Decidable (_ ∧ _ ∧ True))
    | some s' =>
      have := HistValid.dec (evalOp (groupOps V) sch s') rest
      exact inferInstanceAs (Decidable (_ ∧ _ ∧ _))

theorem runLoop_some (spec : Nat → V) (hist : List (RefStep × List (Comp V))) (s : ES V) (hs : Good spec s)
    (hok : HistOK spec s hist) (hv : HistValid s hist) : ∃ s', runLoop (groupOps V) s hist = some s' := by
  induction hist generalizing s with
  | nil => exact ⟨s, rfl⟩
  | cons e rest ih =>
    obtain ⟨r, sch⟩ := e
    unfold HistValid at hv
    unfold HistOK at hok
    unfold runLoop
    obtain ⟨s1, hr⟩ := refineOp_some spec s r hs hv.1 hv.2.1
    simp only [hr] at hok hv ⊢
    exact ih _ (evalOp_mid spec sch s1 (refineOp_good spec s s1 r hs hr) hok.1) hok.2 hv.2.2

/-! ### dimension-wise machine -/

theorem dwEval_eq (s : DW V) (cs : List (Int × V)) :
    (dwEval (groupOps V) s cs).integral = comb cs ∧ (dwEval (groupOps V) s cs).contValue = comb cs := by
  constructor <;> · show accumulate (groupOps V) (0 : V) cs = _; rw [accumulate_eq, zero_add]

theorem dwFinal_eq (s : DW V) (cs : List (Int × V)) :
    (dwFinal (groupOps V) s cs).integral = s.integral + comb cs ∧
    (dwFinal (groupOps V) s cs).contValue = s.contValue + comb cs := by
  constructor <;> · show accumulate (groupOps V) _ cs = _; rw [accumulate_eq]

/-! ### dimension-adaptive loop -/

theorem daRun_ok (Q : LV → V) (schemes : List (List (LV × Int))) (dict : List (LV × V)) (h : DictOK Q dict) :
    (daRun (groupOps V) Q dict schemes).2 = schemes.map (fun sch => comb (sch.map fun lc => (lc.2, Q lc.1))) ∧
    DictOK Q (daRun (groupOps V) Q dict schemes).1 := by
  induction schemes generalizing dict with
  | nil => exact ⟨rfl, h⟩
  | cons sch rest ih =>
    obtain ⟨h1, h2⟩ := daIter_ok Q sch dict (0 : V) h
    have h1' : (daIter (groupOps V) Q dict sch).2 = comb (sch.map fun lc => (lc.2, Q lc.1)) := by
      have := h1; simp only [zero_add] at this; exact this
    have h2' : DictOK Q (daIter (groupOps V) Q dict sch).1 := h2
    obtain ⟨i1, i2⟩ := ih _ h2'
    refine ⟨?_, i2⟩
    show (daIter (groupOps V) Q dict sch).2 :: (daRun (groupOps V) Q (daIter (groupOps V) Q dict sch).1 rest).2 = _
    rw [h1', i1]; rfl

/-! ### combined quadrature rule -/

section rule
variable {R X : Type} [Ring R] [Module R V]

/-- `Σ_i w_i • f(x_i)` -/
def ruleSum (f : X → V) (rule : List (X × R)) : V := (rule.map fun xw => xw.2 • f xw.1).sum

theorem applyRule_eq (f : X → V) (rule : List (X × R)) :
    applyRule (groupOps V) (fun (w : R) (v : V) => w • v) f rule = ruleSum f rule := by
  have gen : ∀ (init : V), rule.foldl (fun a xw => (groupOps V).add a (xw.2 • f xw.1)) init = init + ruleSum f rule := by
    induction rule with
    | nil => intro init; simp [ruleSum]
    | cons xw rest ih =>
      intro init
      rw [List.foldl_cons, ih]
      simp only [ruleSum, List.map_cons, List.sum_cons, groupOps]
      abel
  have := gen 0
  simp only [zero_add] at this
  exact this

theorem ruleSum_scaled (f : X → V) (c : Int) (pw : List (X × R)) :
    ruleSum f (pw.map fun xw => (xw.1, (c : R) * xw.2)) = c • ruleSum f pw := by
  induction pw with
  | nil => simp [ruleSum]
  | cons xw rest ih =>
    simp only [ruleSum, List.map_cons, List.sum_cons] at ih ⊢
    rw [ih, smul_add, mul_smul, Int.cast_smul_eq_zsmul]

theorem ruleSum_combined (f : X → V) (comps : List (Int × List (X × R))) :
    ruleSum f (combinedRule (fun c (w : R) => (c : R) * w) comps) = comb (comps.map fun cp => (cp.1, ruleSum f cp.2)) := by
  induction comps with
  | nil => simp [combinedRule, ruleSum]
  | cons cp rest ih =>
    have happ : combinedRule (fun c (w : R) => (c : R) * w) (cp :: rest) =
        (cp.2.map fun xw => (xw.1, (cp.1 : R) * xw.2)) ++ combinedRule (fun c (w : R) => (c : R) * w) rest := by
      simp [combinedRule]
    have hsplit : ∀ l₁ l₂ : List (X × R), ruleSum f (l₁ ++ l₂) = ruleSum f l₁ + ruleSum f l₂ := by
      intro l₁ l₂; simp [ruleSum]
    rw [happ, hsplit, ih, ruleSum_scaled, List.map_cons, comb_cons]

end rule

end SparseSpace.Accum
