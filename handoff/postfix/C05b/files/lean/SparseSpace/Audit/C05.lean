import SparseSpace.Properties.C05
#print axioms SparseSpace.C05.rat_driver_ops
#print axioms SparseSpace.C05.incremental_eq_spec
#print axioms SparseSpace.C05.well_formed_history_runs
#print axioms SparseSpace.C05.reported_eq_current_scheme
#print axioms SparseSpace.C05.incremental_eq_spec_rat
#print axioms SparseSpace.C05.reevaluate_adds
#print axioms SparseSpace.C05.reevaluate_doubles
#print axioms SparseSpace.C05.dimwise_eq_scratch
#print axioms SparseSpace.C05.reevaluate_unchanged_counterexample
#print axioms SparseSpace.C05.reevaluate_unchanged_partial
#print axioms SparseSpace.C05.reevaluate_unchanged_fixed
#print axioms SparseSpace.C05.resumed_evaluation_idempotent
#print axioms SparseSpace.C05.resumed_stop_reports_same
#print axioms SparseSpace.C05.recalculate_recomputes_everything
#print axioms SparseSpace.C05.dict_cache_transparent
#print axioms SparseSpace.C05.points_weights_reproduce
