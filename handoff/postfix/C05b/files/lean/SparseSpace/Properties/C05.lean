import SparseSpace.Lemmas.Accum
/-!
# C05 — the reported result is the combination of the component results

Theorems about `Model/Accum` (mirror of the accumulation code in `GridOperation.Integration`, `RefinementContainer`,
`spatiallyAdaptiveBase`, `StandardCombi`, `DimAdaptiveCombi`).  `V` is ANY additive commutative group (scalar or
vector-valued results; exact arithmetic — the non-associativity of floating point addition is the stated gap), the
history of refinement steps, the schemes, the partial results `Q(component, area)` are arbitrary.

`groupOps V` are the group operations; the compiled driver runs the SAME definitions with `ratOps`, and
`ratOps = groupOps ℚ` (`rat_driver_ops`).

Notation: `localComb sch i = Σ_{component ∈ sch} c • Q(component, area i)` (components that are not computed on the
area contribute nothing), `idSum g areas = Σ_{a ∈ areas} g a.id`, `comb cs = Σ c • q`.
-/
namespace SparseSpace.C05
open SparseSpace.Accum

variable {V : Type} [AddCommGroup V]

/-- the driver's rational arithmetic is the group arithmetic the theorems are about -/
theorem rat_driver_ops : ratOps = groupOps ℚ := ratOps_eq

/-! ## extend–split: incremental accumulation -/

/-- **Refinement of the incremental bookkeeping to the abstract specification.**
For EVERY initial list of areas, EVERY sequence of refinement rounds (each removing any positions and appending any new
areas) with the scheme current at each evaluation, if the run does not raise (`esRun … = some s`): provided each area,
at the moment it is evaluated, combines to `spec` of that area (`h0`, `hok` — for extend–split `spec a` is the local
standard combination of level `lmax − coarsening(a)` on the box of `a`, which by C07 `v0_local_is_standard` does not
change while `a` lives although `lmax`, the coarsening values and the scheme do), the running result
`operation.integral`, the container value `refinement.value` and the stored `area.value`s satisfy
`integral = refinement.value = Σ_{areas present} spec a`, `area.value = spec a`.  Removed areas have been subtracted,
new ones added, nothing else has leaked. -/
theorem incremental_eq_spec (spec : Nat → V) (ids : List Nat) (sch0 : List (Comp V))
    (hist : List (RefStep × List (Comp V))) (s : ES V)
    (h0 : ∀ i ∈ ids, localComb sch0 i = spec i)
    (hok : HistOK spec (evalOp (groupOps V) sch0 (ES.init (groupOps V) ids)) hist)
    (hrun : esRun (groupOps V) ids sch0 hist = some s) :
    s.integral = idSum spec s.areas ∧ s.contValue = idSum spec s.areas ∧ ∀ a ∈ s.areas, a.value = some (spec a.id) := by
  have hinit : Good spec (evalOp (groupOps V) sch0 (ES.init (groupOps V) ids)) := by
    apply evalOp_mid spec sch0 _ (init_mid spec ids)
    intro a ha
    have : a ∈ (ES.init (groupOps V) ids).areas := List.mem_of_mem_drop ha
    obtain ⟨i, hi, rfl⟩ := List.mem_map.mp this
    exact h0 i hi
  have := runLoop_good spec hist _ s hinit hok hrun
  exact ⟨this.integral, this.contValue, this.values⟩

/-- **Well-formed histories run**: if every round removes distinct positions of the container as it is at that moment
(`HistValid`; this is what `get_next_object_for_refinement` yields) the run never raises, so the hypothesis
`esRun … = some s` of the other theorems is satisfiable for every such history (the model answers `none` only where the
Python container raises: position out of range, or an area that was never evaluated). -/
theorem well_formed_history_runs (spec : Nat → V) (ids : List Nat) (sch0 : List (Comp V))
    (hist : List (RefStep × List (Comp V)))
    (h0 : ∀ i ∈ ids, localComb sch0 i = spec i)
    (hok : HistOK spec (evalOp (groupOps V) sch0 (ES.init (groupOps V) ids)) hist)
    (hv : HistValid (evalOp (groupOps V) sch0 (ES.init (groupOps V) ids)) hist) :
    ∃ s, esRun (groupOps V) ids sch0 hist = some s := by
  have hinit : Good spec (evalOp (groupOps V) sch0 (ES.init (groupOps V) ids)) := by
    apply evalOp_mid spec sch0 _ (init_mid spec ids)
    intro a ha
    have : a ∈ (ES.init (groupOps V) ids).areas := List.mem_of_mem_drop ha
    obtain ⟨i, hi, rfl⟩ := List.mem_map.mp this
    exact h0 i hi
  exact runLoop_some spec hist _ hinit hok hv

/-- **The value reported at a stop** (`reevaluate_at_end = False`) **is the coefficient-weighted sum over the component
grids of the CURRENT scheme, per area, and equals a recomputation from scratch** (a fresh operation and a fresh
container holding the final areas, evaluated once with the current scheme) — under the hypotheses of
`incremental_eq_spec` and `hnow`: the current scheme combines to `spec` on every area that is present. -/
theorem reported_eq_current_scheme (spec : Nat → V) (ids : List Nat) (sch0 schNow : List (Comp V))
    (hist : List (RefStep × List (Comp V))) (s : ES V)
    (h0 : ∀ i ∈ ids, localComb sch0 i = spec i)
    (hok : HistOK spec (evalOp (groupOps V) sch0 (ES.init (groupOps V) ids)) hist)
    (hrun : esRun (groupOps V) ids sch0 hist = some s)
    (hnow : ∀ a ∈ s.areas, localComb schNow a.id = spec a.id) :
    esReturn (groupOps V) false schNow s = idSum (localComb schNow) s.areas ∧
    esReturn (groupOps V) false schNow s =
      (evalOp (groupOps V) schNow (ES.init (groupOps V) (s.areas.map (·.id)))).integral := by
  obtain ⟨hi, _, _⟩ := incremental_eq_spec spec ids sch0 hist s h0 hok hrun
  have h1 : esReturn (groupOps V) false schNow s = idSum (localComb schNow) s.areas := by
    show s.integral = _
    rw [hi]; exact (idSum_congr _ _ _ hnow).symm
  refine ⟨h1, ?_⟩
  rw [h1, (evalOp_eq schNow (ES.init (groupOps V) (s.areas.map (·.id)))).1]
  show _ = (0 : V) + idSum (localComb schNow) (List.drop 0 ((s.areas.map (·.id)).map (⟨·, none⟩)))
  rw [zero_add, List.drop_zero]
  apply idSum_congr_ids
  simp [List.map_map, Function.comp_def]

/-- the same statement for the operations the driver executes (`V = ℚ`, `ratOps`) -/
theorem incremental_eq_spec_rat (spec : Nat → ℚ) (ids : List Nat) (sch0 : List (Comp ℚ))
    (hist : List (RefStep × List (Comp ℚ))) (s : ES ℚ)
    (h0 : ∀ i ∈ ids, localComb sch0 i = spec i)
    (hok : HistOK spec (evalOp ratOps sch0 (ES.init ratOps ids)) hist)
    (hrun : esRun ratOps ids sch0 hist = some s) :
    s.integral = idSum spec s.areas ∧ s.contValue = idSum spec s.areas ∧ ∀ a ∈ s.areas, a.value = some (spec a.id) := by
  rw [rat_driver_ops] at hok hrun
  exact incremental_eq_spec spec ids sch0 hist s h0 hok hrun

/-! ## re-evaluation at the end

Full statement of the property clause (FALSE of the code as it is, see `reevaluate_unchanged_counterexample`):

    theorem reevaluate_unchanged : ∀ stop state s of a run and current scheme schNow,
        esReturn o true schNow s = esReturn o false schNow s        -- and likewise dwReturn
-/

/-- **What `evaluate_final_combi()` computes as coded** (from ANY state, extend–split): the recomputed combination is
ADDED to the accumulated result (and to `refinement.value`) because nothing is reset before `compute_solutions`. -/
theorem reevaluate_adds (schNow : List (Comp V)) (s : ES V) :
    esReturn (groupOps V) true schNow s = s.integral + idSum (localComb schNow) s.areas ∧
    (finalOp (groupOps V) schNow s).contValue = s.contValue + idSum (localComb schNow) s.areas := by
  obtain ⟨h1, h2, _⟩ := finalOp_eq schNow s
  exact ⟨h1, h2⟩

/-- hence at every stop `reevaluate_at_end = True` reports TWICE the combination (the two reported values agree only
if `v + v = v`, i.e. `v = 0`) — extend–split. -/
theorem reevaluate_doubles (spec : Nat → V) (ids : List Nat) (sch0 schNow : List (Comp V))
    (hist : List (RefStep × List (Comp V))) (s : ES V)
    (h0 : ∀ i ∈ ids, localComb sch0 i = spec i)
    (hok : HistOK spec (evalOp (groupOps V) sch0 (ES.init (groupOps V) ids)) hist)
    (hrun : esRun (groupOps V) ids sch0 hist = some s)
    (hnow : ∀ a ∈ s.areas, localComb schNow a.id = spec a.id) :
    esReturn (groupOps V) true schNow s =
      esReturn (groupOps V) false schNow s + esReturn (groupOps V) false schNow s := by
  obtain ⟨h1, _⟩ := reported_eq_current_scheme spec ids sch0 schNow hist s h0 hok hrun hnow
  rw [(reevaluate_adds schNow s).1, h1]
  show s.integral + _ = _
  rw [show s.integral = esReturn (groupOps V) false schNow s from rfl, h1]

/-- the dimension-wise strategy: every evaluation resets and recomputes, so after ANY history of evaluations and
(coded) final re-evaluations that ends with an evaluation, from ANY state, the reported value and the container value
are the combination of the component results of that last evaluation = the standard combination run from scratch;
but a final re-evaluation adds the combination once more. -/
theorem dimwise_eq_scratch (s0 : DW V) (hist : List (Bool × List (Int × V))) (last : List (Int × V)) :
    let step := fun (s : DW V) (e : Bool × List (Int × V)) =>
      if e.1 then dwFinal (groupOps V) s e.2 else dwEval (groupOps V) s e.2
    let s := dwEval (groupOps V) (hist.foldl step s0) last
    dwReturn (groupOps V) false s last = comb last ∧ s.contValue = comb last ∧
    dwReturn (groupOps V) false s last = stdRun (groupOps V) last ∧
    dwReturn (groupOps V) true s last = comb last + comb last := by
  intro step s
  obtain ⟨h1, h2⟩ := dwEval_eq (hist.foldl step s0) last
  refine ⟨h1, h2, ?_, ?_⟩
  · show s.integral = accumulate (groupOps V) (0 : V) last
    rw [accumulate_eq, zero_add]; exact h1
  · show (dwFinal (groupOps V) s last).integral = _
    rw [(dwFinal_eq s last).1]
    show s.integral + _ = _
    rw [h1]

/-- **Counterexample to `reevaluate_unchanged`** on the operations the driver executes: one area, one component grid with
coefficient 1 and partial result 1 (extend–split), resp. one component grid (dimension-wise): re-evaluation reports 2,
the plain run reports 1. -/
theorem reevaluate_unchanged_counterexample :
    (¬ ∀ (ids : List Nat) (sch : List (Comp Rat)),
        esReturn ratOps true sch (evalOp ratOps sch (ES.init ratOps ids)) =
        esReturn ratOps false sch (evalOp ratOps sch (ES.init ratOps ids))) ∧
    (¬ ∀ (cs : List (Int × Rat)) (s0 : DW Rat),
        dwReturn ratOps true (dwEval ratOps s0 cs) cs = dwReturn ratOps false (dwEval ratOps s0 cs) cs) := by
  constructor
  · intro h
    have := h [0] [⟨1, fun _ => some 1⟩]
    revert this; decide +kernel
  · intro h
    have := h [(1, 1)] ⟨0, 0⟩
    revert this; decide +kernel

/-- **`reevaluate_unchanged`, the part that holds** (`_partial`): with `reevaluate_at_end = False` the reported value is
the combination (extend–split: `reported_eq_current_scheme`; dimension-wise: `dimwise_eq_scratch`), and the
re-evaluated value differs from it by exactly the combination itself, for EVERY state (not only stop states):
`reevaluated − accumulated = Σ_{areas} Σ_{components} c • Q`.  What is missing for the full clause is the reset of
`operation.integral`, `refinement.value` and the `area.value`s in `evaluate_final_combi`. -/
theorem reevaluate_unchanged_partial (schNow : List (Comp V)) (s : ES V) (d : DW V) (cs : List (Int × V)) :
    esReturn (groupOps V) true schNow s - esReturn (groupOps V) false schNow s = idSum (localComb schNow) s.areas ∧
    dwReturn (groupOps V) true d cs - dwReturn (groupOps V) false d cs = comb cs := by
  constructor
  · rw [(reevaluate_adds schNow s).1]; show s.integral + _ - s.integral = _; abel
  · show (dwFinal (groupOps V) d cs).integral - d.integral = _
    rw [(dwFinal_eq d cs).1]; abel

/-- **`reevaluate_unchanged` holds of the repaired `evaluate_final_combi`** (C05-fix-1: reset, then recompute): at every
stop the value returned with `reevaluate_at_end = True` equals the one returned with `False` (extend–split), and the
repaired dimension-wise re-evaluation returns the combination from any state. -/
theorem reevaluate_unchanged_fixed (spec : Nat → V) (ids : List Nat) (sch0 schNow : List (Comp V))
    (hist : List (RefStep × List (Comp V))) (s : ES V)
    (h0 : ∀ i ∈ ids, localComb sch0 i = spec i)
    (hok : HistOK spec (evalOp (groupOps V) sch0 (ES.init (groupOps V) ids)) hist)
    (hrun : esRun (groupOps V) ids sch0 hist = some s)
    (hnow : ∀ a ∈ s.areas, localComb schNow a.id = spec a.id) (d : DW V) (cs : List (Int × V)) :
    esReturnFixed (groupOps V) true schNow s = esReturnFixed (groupOps V) false schNow s ∧
    (dwFinalReset (groupOps V) d cs).integral = comb cs := by
  obtain ⟨h1, _⟩ := reported_eq_current_scheme spec ids sch0 schNow hist s h0 hok hrun hnow
  refine ⟨?_, (dwEval_eq d cs).1⟩
  show (finalOpReset (groupOps V) schNow s).integral = s.integral
  rw [(finalOpReset_eq schNow s).1]
  exact h1.symm

/-! ## resumed run and `recalculate_frequently` (extend–split): re-evaluation is idempotent

Before the repair "fix: extend-split re-evaluation added areas again" a second `evaluate_operation()` added the areas that
were new at the stop once more, and the `recalculate_frequently` branch re-added every area (counterexample theorems
`resumed_evaluation_adds_new_again`, `resumed_stop_counterexample`, `recalculate_readds_everything` of the earlier version of
this file).  The repaired code ends `evaluate_operation()` with `refinement.clear_new_objects()` and resets the result in the
`recalculate_frequently` branch; the model mirrors both. -/

/-- **A second `evaluate_operation()` without a `refine()` in between** — which is how `continue_adaptive_refinement`
starts — **changes nothing**: from ANY state and for ANY two schemes, the complete state (result, container value, every area
value, `startNewObjects`) after the second evaluation is the state after the first. -/
theorem resumed_evaluation_idempotent (sch sch' : List (Comp V)) (s : ES V) :
    evalOp (groupOps V) sch' (evalOp (groupOps V) sch s) = evalOp (groupOps V) sch s := by
  have key : ∀ t : ES V, t.startNew = t.areas.length → evalOp (groupOps V) sch' t = t := by
    intro t ht
    obtain ⟨i, c, ar, sn, pa⟩ := t
    simp only at ht
    subst ht
    unfold evalOp
    simp only [computeSolutions_eq, List.drop_length, List.take_length, List.map_nil, idSum_nil, add_zero, List.append_nil]
  apply key
  rfl

/-- hence a stop reached through `continue_adaptive_refinement` with an unchanged limit reports the value of the stop
before it, which is the combination (`reported_eq_current_scheme`) -/
theorem resumed_stop_reports_same (sch sch' schNow : List (Comp V)) (s : ES V) :
    esReturn (groupOps V) false schNow (evalOp (groupOps V) sch' (evalOp (groupOps V) sch s)) =
    esReturn (groupOps V) false schNow (evalOp (groupOps V) sch s) := by
  rw [resumed_evaluation_idempotent]

/-- **`recalculate_frequently`** (not the default): `refine()` ends with `refinement.reinit_new_objects()` and
`operation.reset_result(refinement)`, the next `evaluate_operation()` therefore recomputes ALL areas from zero: from ANY
state (whatever had been accumulated) result and container value are the combination over all areas, and every area carries
its local combination. -/
theorem recalculate_recomputes_everything (sch : List (Comp V)) (s : ES V) :
    (evalOp (groupOps V) sch (reinitOp (groupOps V) s)).integral = idSum (localComb sch) s.areas ∧
    (evalOp (groupOps V) sch (reinitOp (groupOps V) s)).contValue = idSum (localComb sch) s.areas ∧
    (evalOp (groupOps V) sch (reinitOp (groupOps V) s)).areas = s.areas.map (fun a => ⟨a.id, some (localComb sch a.id)⟩) := by
  obtain ⟨h1, h2, h3, _, _⟩ := evalOp_eq sch (reinitOp (groupOps V) s)
  refine ⟨?_, ?_, ?_⟩
  · rw [h1]; show (0 : V) + idSum (localComb sch) (s.areas.drop 0) = _; rw [zero_add, List.drop_zero]
  · rw [h2]; show (0 : V) + idSum (localComb sch) (s.areas.drop 0) = _; rw [zero_add, List.drop_zero]
  · rw [h3]; show s.areas.take 0 ++ (s.areas.drop 0).map _ = _; simp

/-! ## dimension-adaptive combination: the dictionary of component results -/

/-- **`integral_dict` is transparent**: for EVERY sequence of schemes (every lookup history), starting from the empty
dictionary, the combined value of every pass equals the combination of freshly computed component results (= the
standard combination of that scheme run from scratch), and every stored entry is the result of its component. -/
theorem dict_cache_transparent (Q : LV → V) (schemes : List (List (LV × Int))) :
    (daRun (groupOps V) Q [] schemes).2 = schemes.map (fun sch => stdRun (groupOps V) (sch.map fun lc => (lc.2, Q lc.1))) ∧
    ∀ lv v, (daRun (groupOps V) Q [] schemes).1.lookup lv = some v → v = Q lv := by
  have h0 : DictOK Q ([] : List (LV × V)) := by intro lv v h; simp at h
  obtain ⟨h1, h2⟩ := daRun_ok Q schemes [] h0
  refine ⟨?_, h2⟩
  rw [h1]
  apply List.map_congr_left
  intro sch _
  show _ = accumulate (groupOps V) (0 : V) _
  rw [accumulate_eq, zero_add]

/-! ## the combined quadrature rule -/

/-- **`get_points_and_weights()` reproduces the reported integral**: for weights in a ring `R` acting on `V`, applying
the concatenated rule `(x_i, c·w_i)` to the integrand equals the standard combination of the component results
`Σ_i w_i f(x_i)` (which is what a nodal grid's `integrate` returns — the premise checked by the harness). -/
theorem points_weights_reproduce {R X : Type} [Ring R] [Module R V] (f : X → V) (comps : List (Int × List (X × R))) :
    applyRule (groupOps V) (fun (w : R) (v : V) => w • v) f (combinedRule (fun c (w : R) => (c : R) * w) comps) =
      stdRun (groupOps V) (comps.map fun cp => (cp.1, applyRule (groupOps V) (fun (w : R) (v : V) => w • v) f cp.2)) := by
  rw [applyRule_eq, ruleSum_combined]
  show _ = accumulate (groupOps V) (0 : V) _
  rw [accumulate_eq, zero_add]
  congr 1
  apply List.map_congr_left
  intro cp _
  rw [applyRule_eq]

/-! ## non-vacuity -/

section examples

/-- two initial areas; round 1 refines position 0 into the new areas 2,3; scheme of two component grids (+1, −1),
the second one not computed on area 1 -/
def exSch : List (Comp Rat) :=
  [⟨1, fun i => some ((i : Rat) + 1)⟩, ⟨-1, fun i => if i == 1 then none else some (1 / 2)⟩]
def exSpec : Nat → Rat := fun i => if i == 1 then 2 else (i : Rat) + 1 / 2
def exHist : List (RefStep × List (Comp Rat)) := [(⟨[0], [2, 3]⟩, exSch)]

example : (esRun ratOps [0, 1] exSch exHist).map (fun s => (s.integral, s.contValue, s.areas.map (·.id), s.startNew)) =
    some (8, 8, [1, 2, 3], 3) := by decide +kernel
example : ∀ i ∈ [0, 1], localComb exSch i = exSpec i := by decide +kernel
example : HistOK exSpec (evalOp (groupOps ℚ) exSch (ES.init (groupOps ℚ) [0, 1])) exHist := by
  decide +kernel
example : HistValid (evalOp (groupOps ℚ) exSch (ES.init (groupOps ℚ) [0, 1])) exHist := by
  decide +kernel
/-- a vector-valued instance of the hypotheses (`V = ℚ × ℚ`) -/
example : localComb ([⟨2, fun _ => some ((1 : ℚ), (3 : ℚ))⟩] : List (Comp (ℚ × ℚ))) 0 = (2, 6) := by
  simp [localComb, contribution]; norm_num
example : (daRun ratOps (fun lv => (lv.sum : Rat)) [] [[([1, 2], 1), ([2, 1], 1), ([1, 1], -1)], [([1, 2], 1), ([3, 1], 1)]]).2
    = [4, 7] := by decide +kernel
example : applyRule ratOps (fun (w : Rat) v => w * v) (fun x : Rat => x * x)
    (combinedRule (fun c (w : Rat) => (c : Rat) * w) [(1, [(0, 1/2), (1, 1/2)]), (-1, [(1/2, 1)])]) = 1 / 4 := by decide +kernel
example : (evalOp ratOps exSch (evalOp ratOps exSch (ES.init ratOps [0, 1]))).integral = 5 / 2 ∧
    (evalOp ratOps exSch (ES.init ratOps [0, 1])).integral = 5 / 2 := by decide +kernel
example : (evalOp ratOps exSch (reinitOp ratOps (evalOp ratOps exSch (ES.init ratOps [0, 1])))).integral = 5 / 2 := by
  decide +kernel
example : dwReturn ratOps true (dwEval ratOps ⟨5, 7⟩ [(1, 3), (-1, 1)]) [(1, 3), (-1, 1)] = 4 := by decide +kernel

end examples

end SparseSpace.C05
