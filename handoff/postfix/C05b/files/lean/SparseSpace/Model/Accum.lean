/-!
# Model of the ACCUMULATION of combined results (property C05)

Mirrors, as coded, the places of sparseSpACE where a combined value is formed from component results:

* `Integration.add_value`, `Integration.evaluate_levelvec`, `StandardCombi.perform_operation`
* `Integration.evaluate_area`, `Integration.area_preprocessing`, `Integration.process_removed_objects`,
  `RefinementContainer.{add, prepare_remove, apply_remove, clear_new_objects, get_new_objects}`,
  `SpatiallyAdaptivBase.{evaluate_operation, compute_solutions, refine, refinement_postprocessing,
  evaluate_final_combi, continue_adaptive_refinement (return value)}`  — the extend–split code path
* `Integration.initialize_evaluation_dimension_wise`, `Integration.calculate_operation_dimension_wise`
  — the dimension-wise code path (reset + full recomputation in every iteration)
* `DimAdaptiveCombi.perform_combi` (`integral_dict`)
* `StandardCombi.get_points_and_weights`

Import-free and executable.  Values live in an arbitrary type `V` with the four operations the code applies to
results (`Ops V`); the driver instantiates `V := Rat` (`ratOps`), the theorems take `V` an additive commutative
group (`Lemmas/Accum.lean : groupOps`, and `ratOps = groupOps ℚ` is proved there).  Quadrature itself is NOT part
of this model: the partial result `Q(component, area)` of a component grid on an area is an input.
-/
namespace SparseSpace.Accum

/-- the operations the code performs on results (numpy arrays of length `output_length`) -/
structure Ops (V : Type) where
  zero : V
  add : V → V → V
  sub : V → V → V
  /-- `coefficient * partial_integral` -/
  smul : Int → V → V

/-- the driver's instance: exact rationals -/
def ratOps : Ops Rat := ⟨0, (· + ·), (· - ·), fun c q => (c : Rat) * q⟩

/-- `combined + coefficient * new` (`Integration.add_value`; the `+=` line of `evaluate_levelvec`, `evaluate_area`,
`calculate_operation_dimension_wise`, `perform_combi`) -/
def Ops.acc {V : Type} (o : Ops V) (combined : V) (c : Int) (p : V) : V := o.add combined (o.smul c p)

/-- `for component_grid in scheme: result += coefficient * Q(component_grid)` starting from `init` -/
def accumulate {V : Type} (o : Ops V) (init : V) (contribs : List (Int × V)) : V :=
  contribs.foldl (fun a cp => o.acc a cp.1 cp.2) init

/-! ## standard combination: `StandardCombi.perform_operation` -/

/-- `operation.initialize()` (integral := 0), `evaluate_levelvec` for every component grid, `get_result()` -/
def stdRun {V : Type} (o : Ops V) (contribs : List (Int × V)) : V := accumulate o o.zero contribs

/-! ## dimension-wise strategy: one global "area" (the MetaRefinementContainer) -/

structure DW (V : Type) where
  /-- `operation.integral` -/
  integral : V
  /-- `refinement.value` of the meta container -/
  contValue : V

/-- `evaluate_operation` of `SpatiallyAdaptiveSingleDimensions2`: `init_evaluation_operation` =
`initialize_evaluation_dimension_wise` (BOTH accumulators reset), then `calculate_operation_dimension_wise` for every
component grid of the current scheme -/
def dwEval {V : Type} (o : Ops V) (_s : DW V) (contribs : List (Int × V)) : DW V :=
  { integral := accumulate o o.zero contribs, contValue := accumulate o o.zero contribs }

/-- `evaluate_final_combi` on the dimension-wise strategy AS CODED: `compute_solutions` is called directly, i.e.
WITHOUT `init_evaluation_operation`, so nothing is reset before the recomputation -/
def dwFinal {V : Type} (o : Ops V) (s : DW V) (contribs : List (Int × V)) : DW V :=
  { integral := accumulate o s.integral contribs, contValue := accumulate o s.contValue contribs }

/-- `evaluate_final_combi` with the proposed repair (C05-fix-1: `init_evaluation_operation(areas)` first) -/
def dwFinalReset {V : Type} (o : Ops V) (s : DW V) (contribs : List (Int × V)) : DW V := dwEval o s contribs

/-- the value `[3]` returned by `performSpatiallyAdaptiv` / `continue_adaptive_refinement` at a stop:
`evaluate_final_combi()[0]` if `reevaluate_at_end` else `operation.get_result()` -/
def dwReturn {V : Type} (o : Ops V) (reevaluate : Bool) (s : DW V) (contribs : List (Int × V)) : V :=
  if reevaluate then (dwFinal o s contribs).integral else s.integral

/-! ## extend–split: incremental accumulation over a changing list of areas -/

/-- a `RefinementObjectExtendSplit` as far as results are concerned -/
structure Area (V : Type) where
  /-- identity of the Python object (serial number of creation) -/
  id : Nat
  /-- `area.value` (`None` until `area_preprocessing` / the first `evaluate_area`) -/
  value : Option V

/-- one component grid of the current scheme: its coefficient and, for every area, the partial result
`grid.integrate(f, coarsened_levelvec, area.start, area.end)`; `none` = `coarsen_grid` answered "do not compute" -/
structure Comp (V : Type) where
  coeff : Int
  part : Nat → Option V

structure ES (V : Type) where
  /-- `operation.integral` -/
  integral : V
  /-- `refinement.value` -/
  contValue : V
  /-- `refinement.refinementObjects` -/
  areas : List (Area V)
  /-- `refinement.startNewObjects` -/
  startNew : Nat
  /-- `refinement.popArray` -/
  popArray : List Nat

/-- `operation.initialize()`; `RefinementContainer(initial_objects, …)` -/
def ES.init {V : Type} (o : Ops V) (ids : List Nat) : ES V :=
  { integral := o.zero, contValue := o.zero, areas := ids.map (⟨·, none⟩), startNew := 0, popArray := [] }

/-- the first three statements of `Integration.evaluate_area`: `area.value = c*p` if it is `None` else `+= c*p` -/
def Area.addValue {V : Type} (o : Ops V) (a : Area V) (c : Int) (p : V) : Area V :=
  { a with value := some (match a.value with
                          | none => o.smul c p
                          | some v => o.add v (o.smul c p)) }

/-- inner loop of `compute_solutions` (`for k, area in enumerate(areas)`) for ONE component grid:
`evaluate_operation_area` → `coarsen_grid` → `Integration.evaluate_area`, which adds `c*p` to `area.value`, to
`refinement_container.value` and to `operation.integral`.  State = (integral, container value). -/
def compStep {V : Type} (o : Ops V) (comp : Comp V) : V × V → List (Area V) → (V × V) × List (Area V)
  | iv, [] => (iv, [])
  | iv, a :: rest =>
    match comp.part a.id with
    | none => let r := compStep o comp iv rest; (r.1, a :: r.2)
    | some p =>
      let r := compStep o comp (o.acc iv.1 comp.coeff p, o.acc iv.2 comp.coeff p) rest
      (r.1, a.addValue o comp.coeff p :: r.2)

/-- `compute_solutions(areas, …)`: `for component_grid in self.scheme: for area in areas: …` -/
def computeSolutions {V : Type} (o : Ops V) (scheme : List (Comp V)) (iv : V × V) (areas : List (Area V)) :
    (V × V) × List (Area V) :=
  scheme.foldl (fun st comp => compStep o comp st.1 st.2) (iv, areas)

/-- `evaluate_operation()`: `areas = refinement.get_new_objects()` (= `refinementObjects[startNewObjects:]`),
`init_evaluation_operation` (`area_preprocessing`: `area.value := zeros`), `compute_solutions`, and (since the repair
"fix: extend-split re-evaluation added areas again") `refinement.clear_new_objects()`: `startNewObjects := len(objects)` -/
def evalOp {V : Type} (o : Ops V) (scheme : List (Comp V)) (s : ES V) : ES V :=
  let pre := s.areas.take s.startNew
  let new := (s.areas.drop s.startNew).map fun a => { a with value := some o.zero }
  let r := computeSolutions o scheme (s.integral, s.contValue) new
  { s with integral := r.1.1, contValue := r.1.2, areas := pre ++ r.2, startNew := (pre ++ r.2).length }

/-- `evaluate_final_combi()` AS CODED: `areas = refinement.get_objects()` (all of them), `compute_solutions` — no
`operation.initialize()`, no `area_preprocessing`, no reset of `refinement.value` -/
def finalOp {V : Type} (o : Ops V) (scheme : List (Comp V)) (s : ES V) : ES V :=
  let r := computeSolutions o scheme (s.integral, s.contValue) s.areas
  { s with integral := r.1.1, contValue := r.1.2, areas := r.2 }

/-- `evaluate_final_combi()` with the proposed repair (C05-fix-1): the accumulated integral, the container value and
all area values are reset first, then everything is recomputed -/
def finalOpReset {V : Type} (o : Ops V) (scheme : List (Comp V)) (s : ES V) : ES V :=
  let all := s.areas.map fun a => { a with value := some o.zero }
  let r := computeSolutions o scheme (o.zero, o.zero) all
  { s with integral := r.1.1, contValue := r.1.2, areas := r.2 }

/-- one call of `refine()`: positions handed to `refinement.refine(position)` in this round, and the ids of the
objects it created (appended in this order) -/
structure RefStep where
  pops : List Nat
  adds : List Nat

/-- loop of `RefinementContainer.apply_remove` over the positions (already `reversed(sorted(popArray))`).
State = (container value, objects, startNewObjects); collects the removed objects.
`none` = the Python loop raises (`IndexError` for a position outside the list; `TypeError` for `value -= None`). -/
def removeLoop {V : Type} (o : Ops V) : List Nat → V × List (Area V) × Nat → List (Area V) →
    Option ((V × List (Area V) × Nat) × List (Area V))
  | [], st, removed => some (st, removed)
  | p :: ps, (cv, areas, sn), removed =>
    match areas[p]? with
    | none => none
    | some a =>
      match a.value with
      | none => none
      | some v => removeLoop o ps (o.sub cv v, areas.eraseIdx p, if sn != 0 then sn - 1 else sn) (removed ++ [a])

/-- `Integration.process_removed_objects`: `self.integral -= removed_object.value` -/
def processRemoved {V : Type} (o : Ops V) (integral : V) : List (Area V) → V
  | [] => integral
  | a :: rest =>
    match a.value with
    | none => processRemoved o integral rest      -- unreachable: `removeLoop` only returns valued objects
    | some v => processRemoved o (o.sub integral v) rest

/-- `SpatiallyAdaptivBase.refine()` on the extend–split container: `clear_new_objects()`; for every refined object
`prepare_remove(position)` and `add(new_objects)`; then `refinement_postprocessing()` = `apply_remove()` +
`process_removed_objects(removed)`.  (`RefinementContainer.refine`'s `if startNewObjects == 0: startNewObjects =
len(objects)` is a no-op after `clear_new_objects` unless the container is empty.) -/
def refineOp {V : Type} (o : Ops V) (s : ES V) (r : RefStep) : Option (ES V) :=
  let sn := s.areas.length
  let pops := s.popArray ++ r.pops
  let areas := s.areas ++ r.adds.map (⟨·, none⟩)
  match removeLoop o (pops.mergeSort (fun a b => decide (a ≤ b))).reverse (s.contValue, areas, sn) [] with
  | none => none
  | some ((cv, areas', sn'), removed) =>
    some { integral := processRemoved o s.integral removed, contValue := cv, areas := areas', startNew := sn',
           popArray := [] }

/-- the branch at the end of `refine()` taken when `recalculate_frequently` is set and
`refinements / refinements_for_recalculate > counter`: `refinement.reinit_new_objects()` (every object counts as new again,
`refinement.value := 0`; `obj.reinit()` does nothing for extend–split objects) followed (since the repair) by
`operation.reset_result(refinement)` (`operation.integral := 0`, `refinement.value := 0`) -/
def reinitOp {V : Type} (o : Ops V) (s : ES V) : ES V :=
  { s with startNew := 0, contValue := o.zero, integral := o.zero }

/-- the adaptive loop after the first evaluation: `refine(); evaluate_operation()` repeated, the scheme current at each
evaluation given explicitly (it changes when an extend raises `lmax`) -/
def runLoop {V : Type} (o : Ops V) (s : ES V) : List (RefStep × List (Comp V)) → Option (ES V)
  | [] => some s
  | (r, sch) :: rest =>
    match refineOp o s r with
    | none => none
    | some s' => runLoop o (evalOp o sch s') rest

/-- `performSpatiallyAdaptiv(...)` up to a stop: initial objects, first evaluation with `sch0`, then the loop -/
def esRun {V : Type} (o : Ops V) (ids : List Nat) (sch0 : List (Comp V)) (hist : List (RefStep × List (Comp V))) :
    Option (ES V) :=
  runLoop o (evalOp o sch0 (ES.init o ids)) hist

/-- the value `[3]` returned at a stop (`sch` = the scheme current at the stop) -/
def esReturn {V : Type} (o : Ops V) (reevaluate : Bool) (sch : List (Comp V)) (s : ES V) : V :=
  if reevaluate then (finalOp o sch s).integral else s.integral

/-- the same with the proposed repair of `evaluate_final_combi` -/
def esReturnFixed {V : Type} (o : Ops V) (reevaluate : Bool) (sch : List (Comp V)) (s : ES V) : V :=
  if reevaluate then (finalOpReset o sch s).integral else s.integral

/-! ## dimension-adaptive combination: `DimAdaptiveCombi.perform_combi` -/

abbrev LV := List Int

/-- body of the `for component_grid in self.scheme` loop: look the component result up in `integral_dict`, compute and
store it on a miss; `Q` = `grid.integrate(f, levelvector, a, b)` -/
def daLookup {V : Type} (Q : LV → V) (dict : List (LV × V)) (lv : LV) : List (LV × V) × V :=
  match dict.lookup lv with
  | some v => (dict, v)
  | none => (dict ++ [(lv, Q lv)], Q lv)

/-- one pass of the `while True` loop up to the combined value: `combiintegral = 0; for …: combiintegral +=
integral * coefficient` -/
def daIter {V : Type} (o : Ops V) (Q : LV → V) (dict : List (LV × V)) (scheme : List (LV × Int)) : List (LV × V) × V :=
  scheme.foldl (fun st lc => let r := daLookup Q st.1 lc.1; (r.1, o.acc st.2 lc.2 r.2)) (dict, o.zero)

/-- the whole loop for a given sequence of schemes: the dictionary at the end and the combined value of every pass -/
def daRun {V : Type} (o : Ops V) (Q : LV → V) : List (LV × V) → List (List (LV × Int)) → List (LV × V) × List V
  | dict, [] => (dict, [])
  | dict, sch :: rest =>
    let r := daIter o Q dict sch
    let t := daRun o Q r.1 rest
    (t.1, r.2 :: t.2)

/-! ## `get_points_and_weights` -/

/-- `StandardCombi.get_points_and_weights`: concatenation over the component grids of `(points, coefficient * weights)` -/
def combinedRule {X W : Type} (scale : Int → W → W) (comps : List (Int × List (X × W))) : List (X × W) :=
  comps.flatMap fun cp => cp.2.map fun xw => (xw.1, scale cp.1 xw.2)

/-- applying a rule to an integrand: `Σ_i w_i * f(x_i)` (summed from zero in list order) -/
def applyRule {X W V : Type} (o : Ops V) (wmul : W → V → V) (f : X → V) (rule : List (X × W)) : V :=
  rule.foldl (fun a xw => o.add a (wmul xw.2 (f xw.1))) o.zero

end SparseSpace.Accum
