/-!
# Model for C04 (exactness is never lost by refinement)

Import-free, executable, over `Rat`.  Namespace `SparseSpace.Exact` (self-contained: level vectors are
`List Int`, schemes are `List (List Int × Int)` as in `Model/Combi`, but nothing is imported).

* 1-D operators on an ARBITRARY sorted node list `xs`: piecewise-linear interpolation `interp`
  (= `scipy.interpolate.interpn(method='linear')` along one axis), the non-uniform trapezoid weights `weights`
  (= `GlobalTrapezoidalGrid.compute_weights(grid_1D, a, b, modified_basis=False)`), the rule `quad`
  (= `IntegratorArbitraryGridScalarProduct`, `np.inner(f_values, weights)` along one axis), its cell form `trap`,
  the boundary-free variants (`boundary=False`: first and last node dropped = boundary values replaced by 0) and the
  modified (extrapolating) rule `modQuad` (= `compute_weights(.., modified_basis=True)`).
* tensor products and the combination `combine c F = Σ c_l · F l` with `F l = Π_d q d (l_d)`.
* dimension-wise strategy: a state is (scheme, index set, per-dimension table  component level ↦ node list) as
  observed at `get_point_coord_for_each_dim`; `keepsInitial` is the monitored hypothesis (H_keep).
* extend–split: areas (boxes) with their active (coarsened level, coefficient) lists and the local uniform grids
  (`TrapezoidalGrid1D`, `boundary=True`); cell strategy: the ±1 parent stencil of
  `SpatiallyAdaptiveCellScheme.evaluate_operation_area` and `Integration.compute_subcell_with_interpolation`.
-/
namespace SparseSpace.Exact

abbrev LV := List Int

/-! ## 1-D functions used as test functions -/

/-- a 1-D function of the test spaces: a dyadic hat of level `k`, index `i` on `[a,b]`, or an affine function -/
inductive Fn1 where
  | hat (a b : Rat) (k : Nat) (i : Nat)
  | aff (α β : Rat)
deriving Repr

def absR (x : Rat) : Rat := if x < 0 then -x else x

/-- `max(0, 1 - |x - x_i| / h)`, `h = (b-a)/2^k`, `x_i = a + i h` -/
def hatVal (a b : Rat) (k i : Nat) (x : Rat) : Rat :=
  let h := (b - a) / (2 ^ k : Nat)
  let v := 1 - absR (x - (a + (i : Rat) * h)) / h
  if v < 0 then 0 else v

def Fn1.eval : Fn1 → Rat → Rat
  | .hat a b k i, x => hatVal a b k i x
  | .aff α β, x => α + β * x

/-! ## 1-D piecewise-linear interpolation and trapezoid rule on an arbitrary node list -/

/-- linear interpolation between the nodes `p < q` -/
def lin (u : Rat → Rat) (p q x : Rat) : Rat := u p + (u q - u p) * (x - p) / (q - p)

/-- piecewise-linear interpolation of `u` sampled on the node list (one axis of `interpn(linear)`); for `x` right of
the last node the last cell is extended (the code raises; callers stay inside) -/
def interp (u : Rat → Rat) : List Rat → Rat → Rat
  | [], _ => 0
  | [p], _ => u p
  | p :: q :: rest, x =>
      if x ≤ q then lin u p q x
      else match rest with
        | [] => lin u p q x
        | _ :: _ => interp u (q :: rest) x

/-- cell form of the trapezoid rule: `Σ (x_{i+1} - x_i) (u x_i + u x_{i+1}) / 2` -/
def trap (u : Rat → Rat) : List Rat → Rat
  | p :: q :: rest => (q - p) * (u p + u q) / 2 + trap u (q :: rest)
  | _ => 0

/-- the loop of `GlobalTrapezoidalGrid.compute_weights` for `modified_basis=False`:
`w_i = [i>0]·(x_i - x_{i-1})/2 + [i<n-1]·(x_{i+1} - x_i)/2`; `prev` is the left neighbour if there is one -/
def weightsFrom : Option Rat → List Rat → List Rat
  | _, [] => []
  | prev, x :: rest =>
      ((match prev with | some p => (x - p) / 2 | none => 0)
        + (match rest with | y :: _ => (y - x) / 2 | [] => 0)) :: weightsFrom (some x) rest

def weights (xs : List Rat) : List Rat := weightsFrom none xs

def dot : List Rat → List Rat → Rat
  | a :: as, b :: bs => a * b + dot as bs
  | _, _ => 0

/-- `np.inner(f(points), weights)` along one axis -/
def quad (u : Rat → Rat) (xs : List Rat) : Rat := dot (weights xs) (xs.map u)

/-- `boundary=False`: `coordsD = grid_points[d][1:-1]`, `weightsD = weights[1:-1]` -/
def quadNB (u : Rat → Rat) (xs : List Rat) : Rat :=
  dot ((weights xs).tail.dropLast) ((xs.tail.dropLast).map u)

/-- boundary values replaced by zero (`Integration.get_component_grid_values` with `boundary=False`) -/
def zeroBd (a b : Rat) (u : Rat → Rat) : Rat → Rat := fun x => if x = a ∨ x = b then 0 else u x

/-! ### modified (extrapolating) boundary basis: `compute_weights(grid_1D, a, b, modified_basis=True)` -/

/-- the two left-most inner weights applied to `u`: `h_b²/(2h_a)·u x1 + (h_b - h_b²/(2h_a))·u x2`,
`h_b = x2 - x0`, `h_a = x2 - x1` (linear extrapolation of the first inner cell to the boundary) -/
def leftPiece (u : Rat → Rat) (x0 x1 x2 : Rat) : Rat :=
  let hb := x2 - x0
  let ha := x2 - x1
  hb * hb / (2 * ha) * u x1 + (hb - hb * hb / (2 * ha)) * u x2

/-- mirror image at the right end: nodes `y2 < y1 < y0` -/
def rightPiece (u : Rat → Rat) (y2 y1 y0 : Rat) : Rat :=
  let hb := y0 - y2
  let ha := y1 - y2
  hb * hb / (2 * ha) * u y1 + (hb - hb * hb / (2 * ha)) * u y2

/-- standard cells between the third node and the third-last node, then the right piece -/
def modTail (u : Rat → Rat) : List Rat → Rat
  | [y2, y1, y0] => rightPiece u y2 y1 y0
  | p :: q :: rest => (q - p) * (u p + u q) / 2 + modTail u (q :: rest)
  | _ => 0

/-- the modified rule applied to `u` (`Σ w_i u(x_i)` with the weights of `compute_weights(.., True)`); `a`, `b` are the
domain ends the code passes separately (they are the first and last node in every call) -/
def modQuad (u : Rat → Rat) (a b : Rat) : List Rat → Rat
  | [_, x1, _] => (b - a) * u x1
  | [_, x1, x2, _] =>
      let w2 := (b * b / 2 - b * x1 - a * a / 2 + a * x1) / (x2 - x1)
      (-w2 + b - a) * u x1 + w2 * u x2
  | x0 :: x1 :: x2 :: rest => leftPiece u x0 x1 x2 + modTail u (x2 :: rest)
  | _ => 0

/-- which 1-D rule a run uses -/
inductive Rule where
  | std      -- boundary=True
  | noBd     -- boundary=False
  | modified -- boundary=False, modified_basis=True
deriving Repr, BEq

def firstD (xs : List Rat) : Rat := xs.headD 0
def lastD (xs : List Rat) : Rat := xs.getLastD 0

def Rule.quad (r : Rule) (u : Rat → Rat) (xs : List Rat) : Rat :=
  match r with
  | .std => Exact.quad u xs
  | .noBd => quadNB u xs
  | .modified => modQuad u (firstD xs) (lastD xs) xs

/-- interpolation ignores `modified_basis`; without boundary the boundary values are zero -/
def Rule.interp (r : Rule) (u : Rat → Rat) (xs : List Rat) (x : Rat) : Rat :=
  match r with
  | .std => Exact.interp u xs x
  | _ => Exact.interp (zeroBd (firstD xs) (lastD xs) u) xs x

/-! ## tensor products and the combination -/

/-- `Π_d q d (l_d)` (dimensions numbered from `d0`) -/
def prodFrom (q : Nat → Int → Rat) : Nat → LV → Rat
  | _, [] => 1
  | d, j :: l => q d j * prodFrom q (d + 1) l

def tensorF (q : Nat → Int → Rat) (l : LV) : Rat := prodFrom q 0 l

/-- `Σ_l c_l · F l` (`Integration.calculate_operation_dimension_wise`: `self.integral += integral * coefficient`;
`StandardCombi.__call__`: `interpolation += interpolate_points(..) * coefficient`) -/
def combine (c : List (LV × Int)) (F : LV → Rat) : Rat := (c.map fun p => (p.2 : Rat) * F p.1).sum

/-! ## dimension-wise strategy: observed state -/

/-- per dimension: component level ↦ node list, as returned by `get_point_coord_for_each_dim` -/
abbrev Table := List (List (Int × List Rat))

def lookup (t : List (Int × List Rat)) (j : Int) : List Rat :=
  match t.find? (fun e => e.1 == j) with
  | some e => e.2
  | none => []

def Table.pts (t : Table) (d : Nat) (j : Int) : List Rat := lookup (t.getD d []) j

structure DWState where
  dim : Nat
  lmin : Int
  /-- the start level `lmax` of `performSpatiallyAdaptiv` -/
  lmax0 : Int
  /-- domain ends -/
  dom : List (Rat × Rat)
  scheme : List (LV × Int)
  idx : List LV
  tbl : Table
deriving Repr

/-- combined integral of the tensor function `⊗ u_d` -/
def DWState.integral (s : DWState) (r : Rule) (u : List Fn1) : Rat :=
  combine s.scheme (tensorF fun d j => r.quad ((u.getD d (.aff 0 0)).eval) (s.tbl.pts d j))

/-- combined interpolant of `⊗ u_d` at the point `x` -/
def DWState.value (s : DWState) (r : Rule) (u : List Fn1) (x : List Rat) : Rat :=
  combine s.scheme (tensorF fun d j => r.interp ((u.getD d (.aff 0 0)).eval) (s.tbl.pts d j) (x.getD d 0))

/-- the dyadic nodes of level `k` on `[a,b]` -/
def dyadic (a b : Rat) (k : Nat) : List Rat :=
  (List.range (2 ^ k + 1)).map fun (i : Nat) => a + (i : Rat) * ((b - a) / (2 ^ k : Nat))

/-- all vectors of length `n` with entries in `lo .. lo+span` -/
def boxVecs : Nat → Int → Nat → List LV
  | 0, _, _ => [[]]
  | n + 1, lo, span => (List.range (span + 1)).flatMap fun (i : Nat) => (boxVecs n lo span).map fun v => (lo + (i : Int)) :: v

def sumLV (l : LV) : Int := l.foldl (· + ·) 0

/-- the index set of the initial standard scheme: `lmin ≤ k_d`, `Σ k_d ≤ lmax0 + (dim-1)·lmin` -/
def initIdx (dim : Nat) (lmin lmax0 : Int) : List LV :=
  (boxVecs dim lmin (lmax0 - lmin).toNat).filter fun k => decide (sumLV k ≤ lmax0 + ((dim : Int) - 1) * lmin)

def strictSorted : List Rat → Bool
  | p :: q :: rest => decide (p < q) && strictSorted (q :: rest)
  | _ => true

/-- `xs` is a strictly increasing node list from `a` to `b` -/
def wfNodes (a b : Rat) (xs : List Rat) : Bool :=
  strictSorted xs && decide (xs.head? = some a) && decide (xs.getLast? = some b)

/-- `K` and `xs` are well-formed node lists of `[a,b]` and `xs` contains all nodes of `K` -/
def refinesB (a b : Rat) (K xs : List Rat) : Bool :=
  wfNodes a b K && wfNodes a b xs && K.all fun k => decide (k ∈ xs)

/-- level `r_d` is good for the initial level `k_d` in dimension `d`: every tabulated component level `j ≥ r_d`
has a well-formed node list that contains the dyadic nodes of level `k_d` -/
def goodLevel (s : DWState) (d : Nat) (kd rd : Int) : Bool :=
  let ab := s.dom.getD d (0, 0)
  (s.tbl.getD d []).all fun e => !(decide (rd ≤ e.1)) || refinesB ab.1 ab.2 (dyadic ab.1 ab.2 kd.toNat) e.2

def goodVecFrom (s : DWState) : Nat → LV → LV → Bool
  | _, [], [] => true
  | d, kd :: k, rd :: r => goodLevel s d kd rd && goodVecFrom s (d + 1) k r
  | _, _, _ => false

/-- every level vector of the scheme is tabulated in every dimension -/
def tabulatedFrom (s : DWState) : Nat → LV → Bool
  | _, [] => true
  | d, j :: l => (s.tbl.getD d []).any (fun e => e.1 == j) && tabulatedFrom s (d + 1) l

/-- **(H_keep)**: for every level vector `k0` of the initial index set there is `r` in the current index set such
that in every dimension all component levels `≥ r_d` contain the initial level-`k0_d` nodes — "the coarsening of the
component grids never drops below what the initial scheme contained".  Evaluated by the driver on every reached
state of the explored histories. -/
def keepsInitial (s : DWState) : Bool :=
  (s.scheme.all fun p => p.1.length == s.dim && tabulatedFrom s 0 p.1) &&
  (initIdx s.dim s.lmin s.lmax0).all fun k0 => s.idx.any fun r => goodVecFrom s 0 k0 r

/-- the first initial level vector that is not kept (diagnostics) -/
def lostLevel (s : DWState) : Option LV :=
  (initIdx s.dim s.lmin s.lmax0).find? fun k0 => !(s.idx.any fun r => goodVecFrom s 0 k0 r)

/-- `get_point_coord_for_each_dim`: an interval end of level `ℓ` is kept in the component grid of level `l` iff
`ℓ ≤ keepThreshold l sub lmin`, where the subtraction value is clipped at `l - lmin`
(`modify_according_to_levelvec` for versions 6–8; since the repair of version 3 also there):
`max(levelvec[d] - min(sub, levelvec[d] - lmin[d]), 1)` -/
def keepThreshold (l sub lmin : Int) : Int := max (l - min sub (l - lmin)) 1

/-! ## extend–split: areas with local uniform grids -/

/-- `np.linspace(start, end, 2^level + 1)` (`TrapezoidalGrid1D.get_1D_level_points`, `boundary=True`) -/
def uniform (s e : Rat) (level : Nat) : List Rat := dyadic s e level

structure Area where
  box : List (Rat × Rat)
  /-- the component grids computed on this area: (coarsened level vector, coefficient), `do_compute = True` only -/
  act : List (LV × Int)
deriving Repr

def boxProdFrom (q : Nat → (Rat × Rat) → Int → Rat) : Nat → List (Rat × Rat) → LV → Rat
  | d, b :: bs, j :: l => q d b j * boxProdFrom q (d + 1) bs l
  | _, _, _ => 1

/-- `Integration.evaluate_area`: `Σ_l c_l · (grid.integrate on the area at the coarsened level)` for `⊗ u_d` -/
def Area.integral (A : Area) (u : Nat → Rat → Rat) : Rat :=
  combine A.act fun l => boxProdFrom (fun d b j => quad (u d) (uniform b.1 b.2 j.toNat)) 0 A.box l

/-- the extend–split result: sum over the areas of the container -/
def esIntegral (As : List Area) (u : Nat → Rat → Rat) : Rat := (As.map fun A => A.integral u).sum

/-- `interpolate_points` on the area containing `x` -/
def Area.value (A : Area) (u : Nat → Rat → Rat) (x : List Rat) : Rat :=
  combine A.act fun l => boxProdFrom (fun d b j => interp (u d) (uniform b.1 b.2 j.toNat) (x.getD d 0)) 0 A.box l

/-- exact integral of an affine-per-dimension tensor function over a box: `Π_d (e-s)(u s + u e)/2` -/
def boxExact (u : Nat → Rat → Rat) : Nat → List (Rat × Rat) → Rat
  | _, [] => 1
  | d, b :: bs => (b.2 - b.1) * (u d b.1 + u d b.2) / 2 * boxExact u (d + 1) bs

/-- refinement tree of boxes: a leaf, or a split of dimension `d` at `m` -/
inductive BoxTree where
  | leaf
  | split (d : Nat) (m : Rat) (lo hi : BoxTree)
deriving Repr

def setNth (l : List (Rat × Rat)) (d : Nat) (v : Rat × Rat) : List (Rat × Rat) := l.set d v

/-- the leaves of the tree as boxes (`split_area_single_dim`; `split_area_arbitrary_dim` = `dim` nested splits) -/
def BoxTree.leaves : BoxTree → List (Rat × Rat) → List (List (Rat × Rat))
  | .leaf, B => [B]
  | .split d m lo hi, B =>
      let se := B.getD d (0, 0)
      lo.leaves (setNth B d (se.1, m)) ++ hi.leaves (setNth B d (m, se.2))

/-- every split point lies strictly inside the box and `d` is a valid dimension -/
def BoxTree.wf : BoxTree → List (Rat × Rat) → Bool
  | .leaf, _ => true
  | .split d m lo hi, B =>
      let se := B.getD d (0, 0)
      decide (d < B.length) && decide (se.1 < m) && decide (m < se.2) &&
        lo.wf (setNth B d (se.1, m)) && hi.wf (setNth B d (m, se.2))

/-! ## cell strategy -/

/-- the list `relevant_parents_of_cell` of `SpatiallyAdaptiveCellScheme.evaluate_operation_area` reduced to what the
result depends on: (parent level vector, coefficient).  Dimension by dimension every entry whose level exceeds
`lmin` in that dimension spawns its parent with the opposite sign. -/
def cellParentsFrom (lmin : LV) : Nat → List (LV × Int) → List (LV × Int)
  | 0, acc => acc
  | n + 1, acc =>
      let acc' := cellParentsFrom lmin n acc
      -- dimension `n` is processed after the dimensions `0 .. n-1`
      acc' ++ (acc'.filter fun e => decide (lmin.getD n 0 < e.1.getD n 0)).map fun e =>
        (e.1.modify n (· - 1), -e.2)

def cellParents (lmin lv : LV) : List (LV × Int) := cellParentsFrom lmin lv.length [(lv, 1)]

/-- the box of the ancestor of level `plv` of the cell `box` with level `lv` on the unit-scaled domain `[a,b]`:
in each dimension the dyadic interval of level `plv_d` containing the cell -/
def ancestorInterval (a b : Rat) (pl : Int) (se : Rat × Rat) : Rat × Rat :=
  let h := (b - a) / (2 ^ pl.toNat : Nat)
  let i := ((se.1 - a) / h).floor
  (a + (i : Rat) * h, a + ((i : Rat) + 1) * h)

/-- `Integration.compute_subcell_with_interpolation` for `⊗ u_d`: multilinear interpolation of the parent's corner
values at the corners of the cell, times `0.5^dim · volume` (= product over the dimensions of the 2-point trapezoid of
the 1-D interpolant) -/
def subcellFrom (u : Nat → Rat → Rat) : Nat → List (Rat × Rat) → List (Rat × Rat) → Rat
  | d, P :: Ps, A :: As =>
      ((A.2 - A.1) * (lin (u d) P.1 P.2 A.1 + lin (u d) P.1 P.2 A.2) / 2) * subcellFrom u (d + 1) Ps As
  | _, _, _ => 1

structure Cell where
  box : List (Rat × Rat)
  lv : LV
deriving Repr

def zip3Anc (dom : List (Rat × Rat)) (plv : LV) (box : List (Rat × Rat)) : List (Rat × Rat) :=
  match dom, plv, box with
  | ab :: dom', pl :: plv', se :: box' => ancestorInterval ab.1 ab.2 pl se :: zip3Anc dom' plv' box'
  | _, _, _ => []

/-- contribution of one cell: `Σ_{parents} coefficient · subcell integral` -/
def Cell.contrib (dom : List (Rat × Rat)) (lmin : LV) (u : Nat → Rat → Rat) (c : Cell) : Rat :=
  ((cellParents lmin c.lv).map fun e => (e.2 : Rat) * subcellFrom u 0 (zip3Anc dom e.1 c.box) c.box).sum

/-- the cell-scheme result: all cells ever created contribute (refined cells are not removed) -/
def cellIntegral (dom : List (Rat × Rat)) (lmin : LV) (u : Nat → Rat → Rat) (cs : List Cell) : Rat :=
  (cs.map (Cell.contrib dom lmin u)).sum

end SparseSpace.Exact
