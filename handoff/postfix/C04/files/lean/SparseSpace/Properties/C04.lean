import SparseSpace.Lemmas.ExactnessComb
import SparseSpace.Lemmas.ExactnessLocal
import SparseSpace.Lemmas.ExactnessMod
import SparseSpace.Lemmas.ExactnessRules
import SparseSpace.Lemmas.ExactnessHat
/-!
# C04 — refinement never loses exactness the initial configuration had

Model: `Model/Exactness` (namespace `SparseSpace.Exact`).  All theorems are for every dimension, every level, every
node list / refinement tree / scheme satisfying the stated hypotheses — inductions over lists and trees, no sampling.

What is proved
* 1-D, for EVERY strictly increasing node list: `interp_reproduces_pl`, `trap_exact_pl`, `trap_exact_affine`,
  `trap_refine_affine`, `modified_rule_affine_exact`, `noBoundary_rule`;
* `exactness_criterion` (instance of the combination lemma L2, C01 supplies its hypotheses; `_adaptive`: for every
  state of the `CombiScheme` model that satisfies the C01 invariant, i.e. every reachable one);
* dimension-wise strategy: `dimwise_integral_exact`, `dimwise_interp_exact` — exactness of the combined integral and
  interpolant for EVERY refinement state (scheme + per-level node lists) in which the node lists `K_d` of the function
  are contained in all component grids of level `≥ r_d` for some `r` of the index set;
  `keepsInitial_integral_exact`, `keepsInitial_interp_exact` — the executable predicate `keepsInitial` (H_keep, evaluated
  by the driver on every state the harness reaches) implies exactness on the whole initial `(lmin,lmax)` space;
* extend–split: `es_multilinear_exact`, `es_interp_exact`; cell scheme: `cell_stencil_sum`, `cell_multilinear_exact`.

What is NOT proved (monitored instead): the for-all-histories statement "every state the dimension-wise refinement
reaches satisfies `keepsInitial`" (the research content of the subtraction value of versions 6–8).  It is FALSE for
coarsening version 2 and with rebalancing switched on: see the `_counterexample` theorems (version 3 with `lmin ≥ 2`
was a third class; repaired, see `version3_clip_keeps_lmin_level`) (states observed on the unchanged implementation).
-/
namespace SparseSpace.C04
open SparseSpace SparseSpace.Exact

/-! ## 1-D facts on an arbitrary sorted node list -/

/-- piecewise-linear interpolation on the node list `p :: xs` reproduces, at every point of `[p, last]`, every function
that is affine on each cell of the list -/
theorem interp_reproduces_pl (u : Rat → Rat) (xs : List Rat) (p x : Rat)
    (hs : StrictSorted (p :: xs)) (hne : xs ≠ []) (hpl : PLOn u (p :: xs)) (h1 : p ≤ x) (h2 : x ≤ lastOf p xs) :
    interp u (p :: xs) x = u x :=
  Exact.interp_reproduces_pl u xs p x hs hne hpl h1 h2

/-- the weights of `GlobalTrapezoidalGrid.compute_weights` applied to ANY function give the sum over the cells
`Σ (x_{i+1} - x_i)(u x_i + u x_{i+1})/2`, which for a function affine on every cell is its exact integral -/
theorem trap_exact_pl (u : Rat → Rat) (xs : List Rat) : quad u xs = trap u xs :=
  Exact.quad_eq_trap u xs

/-- on ANY sorted node list from `p` to `q` the rule integrates a function that is affine on `[p,q]` exactly -/
theorem trap_exact_affine (u : Rat → Rat) (xs : List Rat) (p : Rat) (hs : StrictSorted (p :: xs))
    (ha : AffOn u p (lastOf p xs)) : quad u (p :: xs) = (lastOf p xs - p) * (u p + u (lastOf p xs)) / 2 :=
  Exact.quad_affOn u xs p hs ha

/-- adding nodes inside cells on which the integrand is affine does not change the value of the rule -/
theorem trap_refine_affine (u : Rat → Rat) (xs K : List Rat) (p : Rat)
    (hs : StrictSorted (p :: xs)) (hK : StrictSorted (p :: K)) (hsub : ∀ k ∈ K, k ∈ xs)
    (hlast : lastOf p K = lastOf p xs) (hpl : PLOn u (p :: K)) : quad u (p :: xs) = quad u (p :: K) := by
  rw [Exact.quad_eq_trap, Exact.quad_eq_trap]
  exact Exact.trap_refine u xs K p hs hK hsub hlast hpl

/-- the modified (extrapolating) rule integrates every affine function exactly: at least four nodes, or three nodes
with the inner node at the midpoint (the only 3-node lists the dimension-wise strategy produces without rebalancing) -/
theorem modified_rule_affine_exact (α β : Rat) (a : Rat) (xs' : List Rat) (hs : StrictSorted (a :: xs'))
    (hlen : 4 ≤ (a :: xs').length ∨ ((a :: xs').length = 3 ∧ xs'.headD 0 = (a + lastOf a xs') / 2)) :
    modQuad (fun x => α + β * x) a (lastOf a xs') (a :: xs') = α * (lastOf a xs' - a) + β * (lastOf a xs' * lastOf a xs' - a * a) / 2 :=
  Exact.modQuad_affine_exact α β (a :: xs') a xs' rfl hs hlen

/-- `boundary=False` is the standard rule with zero boundary values -/
theorem noBoundary_rule (u : Rat → Rat) (a : Rat) (xs' : List Rat) (hs : StrictSorted (a :: xs')) (hne : xs' ≠ []) :
    quadNB u (a :: xs') = quad (zeroBd a (lastOf a xs') u) (a :: xs') :=
  Exact.quadNB_eq_quad u a xs' hs hne

example : StrictSorted [0, 1/4, 1/2, 1] ∧ PLOn (fun x => if x ≤ 1/2 then 2 * x else 2 - 2 * x) [0, 1/2, 1] := by
  refine ⟨by simp [StrictSorted]; norm_num, ⟨?_, ?_, trivial⟩⟩
  · intro x h1 h2; simp only [h2, if_true]; norm_num; ring
  · intro x h1 h2
    by_cases hx : x ≤ 1/2
    · have : x = 1/2 := le_antisymm hx h1
      subst this; norm_num
    · simp only [hx, if_false]; norm_num; ring
example : quad (fun x => if x ≤ 1/2 then 2 * x else 2 - 2 * x) [0, 1/4, 1/2, 1] = 1/2 := by decide +kernel
example : modQuad (fun x => 1 + 2 * x) 0 1 [0, 1/4, 1/2, 3/4, 7/8, 1] = 2 := by decide +kernel

/-! ## the exactness criterion -/

/-- **Exactness criterion.**  `c` = coefficients whose dominated sums are the indicator of the downward closed index set
`J` (C01), `r ∈ J`; if for every component grid `l` of the scheme and every dimension `d` with `l_d ≥ r_d` the 1-D value
`q d l_d` equals `e_d`, the combination of the tensor values is `Π e_d`. -/
theorem exactness_criterion
    (dim : Nat) (lmin : Int) (c : List (LV × Int)) (J : LV → Prop) [DecidablePred J]
    (hshape : ∀ p ∈ c, p.1.length = dim ∧ geAll lmin p.1)
    (hJdown : ∀ a b : LV, a.length = dim → b.length = dim → geAll lmin a → leAll a b = true → J b → J a)
    (hid : ∀ t : LV, t.length = dim → geAll lmin t → domSum c t = if J t then 1 else 0)
    (r : LV) (hr : r.length = dim) (hrmin : geAll lmin r) (hrJ : J r)
    (q : Nat → Int → Rat) (es : List Rat) (hes : es.length = dim)
    (hq : ∀ p ∈ c, Agree q 0 p.1 r es) :
    combine c (tensorF q) = prodL es :=
  Exact.exactness_criterion dim lmin c J hshape hJdown hid r hr hrmin hrJ q es hes hq

/-- the criterion for every state of the `CombiScheme` model satisfying the C01 invariant (every reachable state) -/
theorem exactness_criterion_adaptive (s : CS) (h : SchemeInv s) (r : LV) (hrI : r ∈ I s)
    (q : Nat → Int → Rat) (es : List Rat) (hes : es.length = s.dim) (hq : ∀ p ∈ s.coeffs, Agree q 0 p.1 r es) :
    combine s.coeffs (tensorF q) = prodL es :=
  Exact.exactness_criterion_adaptive s h r hrI q es hes hq

/-- non-vacuity: the scheme `{(1,2):1,(2,1):1,(1,1):-1}` with 1-D values that are stable from level `(2,1)` on -/
example : combine [([1, 2], 1), ([2, 1], 1), ([1, 1], -1)]
    (tensorF fun d j => if d = 0 then (if j ≥ 2 then 5 else 3) else 7) = prodL [5, 7] := by decide +kernel

/-! ## dimension-wise strategy: every refinement state -/

/-- **Combined integral.**  Scheme `c` (hypotheses as in the criterion), arbitrary per-level node lists `pts d j`,
tensor function `⊗ u_d` with `u_d` piecewise linear w.r.t. a node list `K_d`.  If some `r` of the index set is such that
every component grid of the scheme of level `l_d ≥ r_d` contains `K_d` (and is a sorted node list with the same ends),
the combination of the component-grid trapezoid values is the exact integral `Π_d Σ_cells`. -/
theorem dimwise_integral_exact
    (dim : Nat) (lmin : Int) (c : List (LV × Int)) (J : LV → Prop) [DecidablePred J]
    (hshape : ∀ p ∈ c, p.1.length = dim ∧ geAll lmin p.1)
    (hJdown : ∀ a b : LV, a.length = dim → b.length = dim → geAll lmin a → leAll a b = true → J b → J a)
    (hid : ∀ t : LV, t.length = dim → geAll lmin t → domSum c t = if J t then 1 else 0)
    (r : LV) (hr : r.length = dim) (hrmin : geAll lmin r) (hrJ : J r)
    (pts : Nat → Int → List Rat) (u : Nat → Rat → Rat) (Ks : List (List Rat)) (hKs : Ks.length = dim)
    (hu : PLFrom u 0 Ks) (href : ∀ p ∈ c, RefinesFrom pts 0 p.1 r Ks) :
    combine c (tensorF fun d j => quad (u d) (pts d j)) = prodL (exactInts u 0 Ks) :=
  Exact.exactness_criterion dim lmin c J hshape hJdown hid r hr hrmin hrJ _ _
    (by rw [exactInts_length, hKs]) (fun p hp => agree_quad pts u p.1 r Ks 0 (href p hp) hu)

/-- **Combined interpolant** at every point `x` of the domain: the combination reproduces `Π_d u_d (x_d)`. -/
theorem dimwise_interp_exact
    (dim : Nat) (lmin : Int) (c : List (LV × Int)) (J : LV → Prop) [DecidablePred J]
    (hshape : ∀ p ∈ c, p.1.length = dim ∧ geAll lmin p.1)
    (hJdown : ∀ a b : LV, a.length = dim → b.length = dim → geAll lmin a → leAll a b = true → J b → J a)
    (hid : ∀ t : LV, t.length = dim → geAll lmin t → domSum c t = if J t then 1 else 0)
    (r : LV) (hr : r.length = dim) (hrmin : geAll lmin r) (hrJ : J r)
    (pts : Nat → Int → List Rat) (u : Nat → Rat → Rat) (Ks : List (List Rat)) (hKs : Ks.length = dim)
    (hu : PLFrom u 0 Ks) (href : ∀ p ∈ c, RefinesFrom pts 0 p.1 r Ks)
    (x : Nat → Rat) (hx : InDom x 0 Ks) :
    combine c (tensorF fun d j => interp (u d) (pts d j) (x d)) = prodL (exactVals u x 0 Ks) :=
  Exact.exactness_criterion dim lmin c J hshape hJdown hid r hr hrmin hrJ _ _
    (by rw [exactVals_length, hKs]) (fun p hp => agree_interp pts u x p.1 r Ks 0 (href p hp) hu hx)

/-- **`boundary=False`**: the same for the boundary-free rule and tensor functions that vanish on the boundary (with
`boundary=False` the initial space consists of these: hats touching the boundary are not representable) -/
theorem dimwise_integral_exact_noBoundary
    (dim : Nat) (lmin : Int) (c : List (LV × Int)) (J : LV → Prop) [DecidablePred J]
    (hshape : ∀ p ∈ c, p.1.length = dim ∧ geAll lmin p.1)
    (hJdown : ∀ a b : LV, a.length = dim → b.length = dim → geAll lmin a → leAll a b = true → J b → J a)
    (hid : ∀ t : LV, t.length = dim → geAll lmin t → domSum c t = if J t then 1 else 0)
    (r : LV) (hr : r.length = dim) (hrmin : geAll lmin r) (hrJ : J r)
    (pts : Nat → Int → List Rat) (u : Nat → Rat → Rat) (Ks : List (List Rat)) (hKs : Ks.length = dim)
    (hu : PLFrom u 0 Ks) (hz : ZeroEnds u 0 Ks) (href : ∀ p ∈ c, RefinesFrom pts 0 p.1 r Ks) :
    combine c (tensorF fun d j => Rule.noBd.quad (u d) (pts d j)) = prodL (exactInts u 0 Ks) :=
  Exact.exactness_criterion dim lmin c J hshape hJdown hid r hr hrmin hrJ _ _
    (by rw [exactInts_length, hKs]) (fun p hp => agree_quadNB pts u p.1 r Ks 0 (href p hp) hu hz)

/-- **modified basis**: if every component grid of the scheme is, in every dimension, a sorted node list of the domain
with at least four nodes (or three with the midpoint), the combination integrates every product of affine functions —
in particular every linear function — exactly; no condition on the refinement beyond that (`r` = any index) -/
theorem dimwise_modified_linear_exact
    (dim : Nat) (lmin : Int) (c : List (LV × Int)) (J : LV → Prop) [DecidablePred J]
    (hshape : ∀ p ∈ c, p.1.length = dim ∧ geAll lmin p.1)
    (hJdown : ∀ a b : LV, a.length = dim → b.length = dim → geAll lmin a → leAll a b = true → J b → J a)
    (hid : ∀ t : LV, t.length = dim → geAll lmin t → domSum c t = if J t then 1 else 0)
    (r : LV) (hr : r.length = dim) (hrmin : geAll lmin r) (hrJ : J r)
    (pts : Nat → Int → List Rat) (dom : List (Rat × Rat)) (hdom : dom.length = dim) (α β : Nat → Rat)
    (hok : ∀ p ∈ c, ModOKFrom pts 0 p.1 dom) :
    combine c (tensorF fun d j => Rule.modified.quad (fun x => α d + β d * x) (pts d j)) = prodL (affInts α β 0 dom) :=
  Exact.exactness_criterion dim lmin c J hshape hJdown hid r hr hrmin hrJ _ _
    (by rw [affInts_length, hdom])
    (fun p hp => agree_modified pts α β p.1 r dom 0 (hok p hp) (by rw [(hshape p hp).1, hr]))

/-- non-vacuity of the two rule variants on the example scheme -/
example : combine [([1, 2], 1), ([2, 1], 1), ([1, 1], -1)]
    (tensorF fun d j => Rule.modified.quad (fun x => if d = 0 then 1 + 2 * x else 3 - x)
      (if j = 1 then [0, 1/2, 1] else [0, 1/4, 1/2, 3/4, 1])) = 2 * (5/2) := by decide +kernel
example : combine [([1, 2], 1), ([2, 1], 1), ([1, 1], -1)]
    (tensorF fun d j => Rule.noBd.quad (hatVal 0 1 (if d = 0 then 2 else 1) 1)
      (if j = 1 then [0, 1/2, 1] else [0, 1/4, 1/2, 3/4, 1])) = (1/4) * (1/2) := by decide +kernel

/-! ## the monitored predicate `keepsInitial` implies exactness on the initial space -/

theorem goodVecFrom_length (s : DWState) : ∀ (k0 r : LV) (d : Nat), goodVecFrom s d k0 r = true → k0.length = r.length
  | [], [], _, _ => rfl
  | _ :: k0, _ :: r, d, h => by
      simp only [goodVecFrom, Bool.and_eq_true] at h
      simp [goodVecFrom_length s k0 r (d + 1) h.2]
  | [], _ :: _, _, h => by simp [goodVecFrom] at h
  | _ :: _, [], _, h => by simp [goodVecFrom] at h

theorem keepsInitial_unfold (s : DWState) (hk : keepsInitial s = true) :
    (∀ p ∈ s.scheme, p.1.length = s.dim ∧ tabulatedFrom s 0 p.1 = true) ∧
    ∀ k0 ∈ initIdx s.dim s.lmin s.lmax0, ∃ r ∈ s.idx, goodVecFrom s 0 k0 r = true := by
  simp only [keepsInitial, Bool.and_eq_true, List.all_eq_true, List.any_eq_true, beq_iff_eq] at hk
  exact hk

/-- **`keepsInitial s = true` ⇒ the combined integral is exact on the initial space.**  `s` is an observed state of the
dimension-wise strategy (scheme, index set, node list of every component level in every dimension); `J` is the index
set (C01 supplies `hJdown`, `hid`).  For EVERY level vector `k0` of the initial `(lmin, lmax0)` index set and EVERY tensor
function `⊗ u_d` with `u_d` piecewise linear on the dyadic grid of level `k0_d` (the full-grid space `V_{k0}`; the
initial sparse-grid space is the sum of these spaces) the combination returns the exact integral. -/
theorem keepsInitial_integral_exact (s : DWState) (J : LV → Prop) [DecidablePred J]
    (hshape : ∀ p ∈ s.scheme, p.1.length = s.dim ∧ geAll s.lmin p.1)
    (hJdown : ∀ a b : LV, a.length = s.dim → b.length = s.dim → geAll s.lmin a → leAll a b = true → J b → J a)
    (hid : ∀ t : LV, t.length = s.dim → geAll s.lmin t → domSum s.scheme t = if J t then 1 else 0)
    (hidx : ∀ r ∈ s.idx, r.length = s.dim ∧ geAll s.lmin r ∧ J r)
    (hk : keepsInitial s = true)
    (k0 : LV) (hk0 : k0 ∈ initIdx s.dim s.lmin s.lmax0)
    (u : Nat → Rat → Rat) (hu : PLFrom u 0 (dyadicLists s.dom 0 k0)) :
    combine s.scheme (tensorF fun d j => quad (u d) (s.tbl.pts d j)) = prodL (exactInts u 0 (dyadicLists s.dom 0 k0)) := by
  obtain ⟨h1, h2⟩ := keepsInitial_unfold s hk
  obtain ⟨r, hr, hg⟩ := h2 k0 hk0
  obtain ⟨hrl, hrm, hrJ⟩ := hidx r hr
  have hkl : k0.length = s.dim := by rw [goodVecFrom_length s k0 r 0 hg, hrl]
  exact dimwise_integral_exact s.dim s.lmin s.scheme J hshape hJdown hid r hrl hrm hrJ s.tbl.pts u _
    (by rw [dyadicLists_length, hkl]) hu
    (fun p hp => refinesFrom_of_good s p.1 k0 r 0 (h1 p hp).2 hg (by rw [(h1 p hp).1, hrl]))

/-- ... and the combined interpolant reproduces the function at every point of the domain -/
theorem keepsInitial_interp_exact (s : DWState) (J : LV → Prop) [DecidablePred J]
    (hshape : ∀ p ∈ s.scheme, p.1.length = s.dim ∧ geAll s.lmin p.1)
    (hJdown : ∀ a b : LV, a.length = s.dim → b.length = s.dim → geAll s.lmin a → leAll a b = true → J b → J a)
    (hid : ∀ t : LV, t.length = s.dim → geAll s.lmin t → domSum s.scheme t = if J t then 1 else 0)
    (hidx : ∀ r ∈ s.idx, r.length = s.dim ∧ geAll s.lmin r ∧ J r)
    (hk : keepsInitial s = true)
    (k0 : LV) (hk0 : k0 ∈ initIdx s.dim s.lmin s.lmax0)
    (u : Nat → Rat → Rat) (hu : PLFrom u 0 (dyadicLists s.dom 0 k0))
    (x : Nat → Rat) (hx : InDom x 0 (dyadicLists s.dom 0 k0)) :
    combine s.scheme (tensorF fun d j => interp (u d) (s.tbl.pts d j) (x d))
      = prodL (exactVals u x 0 (dyadicLists s.dom 0 k0)) := by
  obtain ⟨h1, h2⟩ := keepsInitial_unfold s hk
  obtain ⟨r, hr, hg⟩ := h2 k0 hk0
  obtain ⟨hrl, hrm, hrJ⟩ := hidx r hr
  have hkl : k0.length = s.dim := by rw [goodVecFrom_length s k0 r 0 hg, hrl]
  exact dimwise_interp_exact s.dim s.lmin s.scheme J hshape hJdown hid r hrl hrm hrJ s.tbl.pts u _
    (by rw [dyadicLists_length, hkl]) hu
    (fun p hp => refinesFrom_of_good s p.1 k0 r 0 (h1 p hp).2 hg (by rw [(h1 p hp).1, hrl])) x hx

/-- **the tensor hats of the initial index set are functions the two theorems above apply to**: the dyadic hat of level
`k0_d`, any index, is piecewise linear w.r.t. the dyadic grid of level `k0_d` (so the harness's test components, and by
linearity the whole initial sparse-grid space, are covered) -/
theorem initial_hats_in_space (dom : List (Rat × Rat)) (k0 : LV) (idx : Nat → Nat)
    (hdom : ∀ e, e < k0.length → (dom.getD e (0, 0)).1 < (dom.getD e (0, 0)).2) :
    PLFrom (fun d => hatVal (dom.getD d (0, 0)).1 (dom.getD d (0, 0)).2 (k0.getD d 0).toNat (idx d)) 0 (dyadicLists dom 0 k0) :=
  hats_plFrom dom (fun d => (k0.getD d 0).toNat) idx k0 0 (fun e he => ⟨by simp, by simpa using hdom e he⟩)

/-- what the driver's `dwint` / `dwval` compute (`DWState.integral`, `DWState.value`) are literally the left-hand sides
of the theorems above (the rule `std`; `noBd` / `modified`: `Rule.noBd.quad`, `Rule.modified.quad` as in
`dimwise_integral_exact_noBoundary`, `dimwise_modified_linear_exact`) -/
theorem driver_observables (s : DWState) (r : Rule) (fs : List Fn1) (x : List Rat) :
    s.integral r fs = combine s.scheme (tensorF fun d j => r.quad ((fs.getD d (.aff 0 0)).eval) (s.tbl.pts d j)) ∧
    s.value r fs x = combine s.scheme (tensorF fun d j => r.interp ((fs.getD d (.aff 0 0)).eval) (s.tbl.pts d j) (x.getD d 0)) ∧
    Rule.std.quad = Exact.quad ∧ Rule.std.interp = Exact.interp :=
  ⟨rfl, rfl, rfl, rfl⟩

/-- the same with the C01 model of the scheme: if the observed scheme is the coefficient list of a `CombiScheme` state
satisfying the C01 invariant (every reachable state does) no hypothesis about the coefficients is left -/
theorem keepsInitial_integral_exact_adaptive (cs : CS) (hinv : SchemeInv cs) (s : DWState)
    (hsch : s.scheme = cs.coeffs) (hdim : s.dim = cs.dim) (hlmin : s.lmin = cs.lmin) (hidx : ∀ r ∈ s.idx, r ∈ I cs)
    (hk : keepsInitial s = true) (k0 : LV) (hk0 : k0 ∈ initIdx s.dim s.lmin s.lmax0)
    (u : Nat → Rat → Rat) (hu : PLFrom u 0 (dyadicLists s.dom 0 k0)) :
    combine s.scheme (tensorF fun d j => quad (u d) (s.tbl.pts d j)) = prodL (exactInts u 0 (dyadicLists s.dom 0 k0)) := by
  refine keepsInitial_integral_exact s (fun t => t ∈ I cs) ?_ ?_ ?_ ?_ hk k0 hk0 u hu
  · intro p hp
    rw [hsch] at hp
    rw [hdim, hlmin]
    exact hinv.shape p.1 ((coeff_support cs hinv).1 p hp).1
  · intro a b ha _ hmin hle hb
    rw [hdim] at ha
    rw [hlmin] at hmin
    exact SparseSpace.downward_closed cs hinv b a hb ha hmin hle
  · intro t ht hmin
    rw [hdim] at ht
    rw [hlmin] at hmin
    rw [hsch]
    exact coeff_identity cs hinv t ht hmin
  · intro r hr
    have := hinv.shape r (hidx r hr)
    rw [hdim, hlmin]
    exact ⟨this.1, this.2, hidx r hr⟩

/-- non-vacuity: the initial state of dim 2, `(lmin,lmax) = (1,2)` on `[0,1]²` keeps the initial space -/
def exampleState : DWState :=
  { dim := 2, lmin := 1, lmax0 := 2, dom := [(0, 1), (0, 1)],
    scheme := [([1, 2], 1), ([2, 1], 1), ([1, 1], -1)], idx := [[1, 1], [1, 2], [2, 1]],
    tbl := [[(1, [0, 1/2, 1]), (2, [0, 1/4, 1/2, 3/4, 1])], [(1, [0, 1/2, 1]), (2, [0, 1/4, 1/2, 3/4, 1])]] }

example : keepsInitial exampleState = true := by decide +kernel
/-- the hypotheses on the function are satisfiable: the level-(1,1) tensor hat on the level-(1,1) dyadic lists -/
example : [1, 1] ∈ initIdx exampleState.dim exampleState.lmin exampleState.lmax0 ∧
    PLFrom (fun _ x => if x ≤ 1/2 then 2 * x else 2 - 2 * x) 0 (dyadicLists exampleState.dom 0 [1, 1]) := by
  have hd : dyadicLists exampleState.dom 0 [1, 1] = [[0, 1/2, 1], [0, 1/2, 1]] := by decide +kernel
  have hpl : PLOn (fun x : Rat => if x ≤ 1/2 then 2 * x else 2 - 2 * x) [0, 1/2, 1] := by
    refine ⟨?_, ?_, trivial⟩
    · intro x h1 h2; simp only [h2, if_true]; norm_num; ring
    · intro x h1 h2
      by_cases hx : x ≤ 1/2
      · have : x = 1/2 := le_antisymm hx h1
        subst this; norm_num
      · simp only [hx, if_false]; norm_num; ring
  have hs : StrictSorted [(0 : Rat), 1/2, 1] := by simp [StrictSorted]; norm_num
  rw [hd]
  exact ⟨by decide +kernel, ⟨hs, by simp, hpl⟩, ⟨hs, by simp, hpl⟩, trivial⟩
example : initIdx 2 1 2 = [[1, 1], [1, 2], [2, 1]] := by decide +kernel
example : exampleState.integral .std [.hat 0 1 2 1, .hat 0 1 1 1] = 1/8 := by decide +kernel

/-! ## counterexamples: the for-all-histories statement is false for two option classes

The states below were observed on the unchanged implementation (2-D, `[0,1]²`, `boundary=True`, scripted refinement
decisions; they are what `get_point_coord_for_each_dim`, `scheme` and `combischeme.get_index_set()` return) and are
replayed by the harness (known findings `C04-dw-version2`, `C04-dw-rebalancing`).  In each of
them `keepsInitial` is false and a tensor hat of the initial space is integrated wrongly by the combination. -/

/-- version 2, `(lmin,lmax) = (1,3)`, one refinement round that refined both dimensions: every component level needs
`+1` in BOTH dimensions, `(2,2)` would need `(3,3)`, which the index set (`Σ ≤ 5`) does not contain -/
def witnessVersion2 : DWState :=
  { dim := 2, lmin := 1, lmax0 := 3, dom := [(0, 1), (0, 1)],
    scheme := [([1, 3], -1), ([3, 1], -1), ([1, 4], 1), ([2, 3], 1), ([2, 2], -1), ([3, 2], 1), ([4, 1], 1)],
    idx := [[1, 1], [1, 2], [1, 3], [1, 4], [2, 1], [2, 2], [2, 3], [3, 1], [3, 2], [4, 1]],
    tbl := [[(1, [0, 1/2, 1]), (2, [0, 1/2, 3/4, 1]), (3, [0, 1/4, 1/2, 5/8, 3/4, 1]),
             (4, [0, 1/8, 1/4, 3/8, 1/2, 5/8, 11/16, 3/4, 7/8, 1])],
            [(1, [0, 1/2, 1]), (2, [0, 1/2, 3/4, 1]), (3, [0, 1/4, 1/2, 3/4, 7/8, 1]),
             (4, [0, 1/8, 1/4, 3/8, 1/2, 5/8, 3/4, 7/8, 15/16, 1])]] }

theorem dimwise_version2_counterexample :
    keepsInitial witnessVersion2 = false ∧
    witnessVersion2.integral .std [.hat 0 1 2 2, .hat 0 1 2 0] = 1/64 ∧ (1/64 : Rat) ≠ 1/4 * (1/8) := by
  decide +kernel

/-- version 3, `(lmin,lmax) = (2,3)` — REPAIRED (fix: version 3's subtraction value is clipped at `levelvec[d] - lmin[d]`
like versions 6–8).  Before the repair the level-2 grid of dimension 0 of this history was `[0, 1/2, 3/4, 1]` (the
initial node 1/4 was lost, `∫ φ_{2,1}⊗φ_{3,3}` came out as 0 instead of 1/32).  The clipped threshold never drops below
`lmin`, for every level, subtraction value and `lmin ≥ 1`: every initial point of level `≤ lmin` stays in every
component grid. -/
theorem version3_clip_keeps_lmin_level (l sub lmin : Int) (h1 : 1 ≤ lmin) (hl : lmin ≤ l) :
    lmin ≤ keepThreshold l sub lmin ∧ (0 ≤ sub → keepThreshold l sub lmin ≤ max l 1) ∧
    (sub ≤ l - lmin → keepThreshold l sub lmin = max (l - sub) 1) := by
  unfold keepThreshold
  refine ⟨?_, fun h => ?_, fun h => ?_⟩ <;> simp only [max_def, min_def] <;> split_ifs <;> omega

/-- the state the repaired implementation reaches on the history of the former counterexample (same scripted
decisions): `keepsInitial` holds and the hat that was integrated to 0 is integrated exactly -/
def witnessVersion3Repaired : DWState :=
  { dim := 2, lmin := 2, lmax0 := 3, dom := [(0, 1), (0, 1)],
    scheme := [([2, 3], 1), ([2, 2], -1), ([4, 2], 1)],
    idx := [[2, 2], [2, 3], [3, 2], [4, 2]],
    tbl := [[(2, [0, 1/4, 1/2, 3/4, 1]), (4, [0, 1/8, 1/4, 3/8, 1/2, 9/16, 5/8, 3/4, 7/8, 1])],
            [(2, [0, 1/4, 1/2, 3/4, 1]), (3, [0, 1/8, 1/4, 3/8, 1/2, 5/8, 3/4, 7/8, 1])]] }

theorem dimwise_version3_lmin2_repaired :
    keepsInitial witnessVersion3Repaired = true ∧
    witnessVersion3Repaired.integral .std [.hat 0 1 2 1, .hat 0 1 3 3] = 1/4 * (1/8) := by
  decide +kernel

example : keepThreshold 2 1 2 = 2 ∧ keepThreshold 4 1 2 = 3 ∧ keepThreshold 3 5 2 = 2 := by decide

/-- version 6 with `rebalancing=True` (the defaults), `(lmin,lmax) = (1,2)`, three rounds: rebalancing rotated the trees,
the level-1 grids are `[0, 3/4, 1]` and `[0, 1/4, 1]` — the initial midpoint is no longer a level-1 node -/
def witnessRebalancing : DWState :=
  { dim := 2, lmin := 1, lmax0 := 2, dom := [(0, 1), (0, 1)],
    scheme := [([1, 2], -1), ([4, 1], 1), ([3, 1], -1), ([3, 2], 1), ([1, 3], 1)],
    idx := [[1, 1], [1, 2], [1, 3], [2, 1], [2, 2], [3, 1], [3, 2], [4, 1]],
    tbl := [[(1, [0, 3/4, 1]), (3, [0, 1/4, 1/2, 5/8, 3/4, 7/8, 1]),
             (4, [0, 1/8, 1/4, 1/2, 9/16, 5/8, 3/4, 13/16, 7/8, 15/16, 1])],
            [(1, [0, 1/4, 1]), (2, [0, 1/8, 1/4, 1/2, 1]), (3, [0, 1/16, 1/8, 1/4, 3/8, 1/2, 3/4, 1])]] }

theorem dimwise_rebalancing_counterexample :
    keepsInitial witnessRebalancing = false ∧
    witnessRebalancing.integral .std [.hat 0 1 1 1, .hat 0 1 2 4] = 3/32 ∧ (3/32 : Rat) ≠ 1/2 * (1/8) := by
  decide +kernel

/-! ## extend–split -/

/-- **Extend–split integrates multilinear functions exactly.**  The areas are the leaves of a refinement tree of the
domain `Ω` (single-dimension splits at arbitrary inner points; a `2^dim` split is `dim` nested splits); on every area
the coefficients of the component grids that are computed (after coarsening, duplicates dropped) sum to 1 (C07).  Then
for every tensor function that is affine in each variable — hence, by linearity of the result in `u`, every multilinear
function — the combined result is the exact integral over `Ω`, whatever the local levels are. -/
theorem es_multilinear_exact (t : BoxTree) (Ω : List (Rat × Rat)) (As : List Area) (u : Nat → Rat → Rat)
    (hwf : t.wf Ω = true) (haff : AffBox u 0 Ω) (hleaves : As.map (·.box) = t.leaves Ω)
    (hlen : ∀ A ∈ As, ∀ p ∈ A.act, p.1.length = A.box.length)
    (hsum : ∀ A ∈ As, (A.act.map (·.2)).sum = 1) :
    esIntegral As u = boxExact u 0 Ω := by
  obtain ⟨hs, hl⟩ := tiling_exact u t Ω hwf haff
  rw [← hs, ← hleaves]
  unfold esIntegral
  rw [List.map_map]
  congr 1
  apply List.map_congr_left
  intro A hA
  have hbox : A.box ∈ t.leaves Ω := by rw [← hleaves]; exact List.mem_map_of_mem hA
  exact area_integral_exact A u (hl A.box hbox).1 (hlen A hA) (hsum A hA)

/-- the interpolant of the area containing the point reproduces the function -/
theorem es_interp_exact (A : Area) (u : Nat → Rat → Rat) (x : List Rat) (haff : AffBox u 0 A.box)
    (hx : InBox x 0 A.box) (hlen : ∀ p ∈ A.act, p.1.length = A.box.length) (hsum : (A.act.map (·.2)).sum = 1) :
    A.value u x = pointVal u x 0 A.box :=
  area_value_exact A u x haff hx hlen hsum

/-- every product of affine functions satisfies `AffBox` on every non-degenerate box -/
theorem affBox_affine (α β : Nat → Rat) : ∀ (B : List (Rat × Rat)) (d : Nat), (∀ b ∈ B, b.1 < b.2) →
    AffBox (fun d x => α d + β d * x) d B
  | [], _, _ => trivial
  | b :: bs, d, h => ⟨⟨h b (by simp), affOn_affine (α d) (β d) b.1 b.2⟩,
      affBox_affine α β bs (d + 1) (fun b' hb' => h b' (List.mem_cons_of_mem _ hb'))⟩

/-- non-vacuity: `[0,1]²` split in dimension 0 at 1/2, left area at local level (1,1), right area with the three grids
of a level-2 scheme; `u = (1 + 2x)(3 - y)` -/
example : esIntegral
    [{ box := [(0, 1/2), (0, 1)], act := [([1, 1], 1)] },
     { box := [(1/2, 1), (0, 1)], act := [([1, 2], 1), ([2, 1], 1), ([1, 1], -1)] }]
    (fun d x => if d = 0 then 1 + 2 * x else 3 - x) = 5 := by decide +kernel
example : (BoxTree.split 0 (1/2) .leaf .leaf).wf [(0, 1), (0, 1)] = true ∧
    (BoxTree.split 0 (1/2) .leaf .leaf).leaves [(0, 1), (0, 1)] = [[(0, 1/2), (0, 1)], [(1/2, 1), (0, 1)]] := by decide +kernel

/-! ## cell scheme -/

/-- the ±1 parent stencil: the coefficients sum to 1 for a cell of level `lmin` and to 0 for every refined cell -/
theorem cell_stencil_sum (lmin lv : LV) :
    ((cellParents lmin lv).map (·.2)).sum = if ∀ d, d < lv.length → lv.getD d 0 ≤ lmin.getD d 0 then 1 else 0 :=
  cellParents_sum lmin lv

theorem cellParents_lengths (lmin lv : LV) : ∀ (n : Nat), ∀ e ∈ cellParentsFrom lmin n [(lv, 1)], e.1.length = lv.length
  | 0, e, he => by
      simp only [cellParentsFrom, List.mem_singleton] at he
      subst he; rfl
  | n + 1, e, he => by
      simp only [cellParentsFrom, List.mem_append, List.mem_map, List.mem_filter] at he
      rcases he with he | ⟨e', ⟨he', _⟩, rfl⟩
      · exact cellParents_lengths lmin lv n e he
      · simpa using cellParents_lengths lmin lv n e' he'

theorem zip3Anc_props : ∀ (dom : List (Rat × Rat)) (plv : LV) (box : List (Rat × Rat)),
    dom.length = box.length → plv.length = box.length → (∀ ab ∈ dom, ab.1 < ab.2) →
    (zip3Anc dom plv box).length = box.length ∧ ∀ P ∈ zip3Anc dom plv box, P.1 ≠ P.2
  | [], [], [], _, _, _ => by simp [zip3Anc]
  | ab :: dom, pl :: plv, se :: box, h1, h2, h3 => by
      obtain ⟨e1, e2⟩ := zip3Anc_props dom plv box (by simpa using h1) (by simpa using h2)
        (fun x hx => h3 x (List.mem_cons_of_mem _ hx))
      refine ⟨by simp [zip3Anc, e1], ?_⟩
      intro P hP
      simp only [zip3Anc, List.mem_cons] at hP
      rcases hP with rfl | hP
      · have hab := h3 ab (by simp)
        have hn : (0 : Rat) < ((2 ^ pl.toNat : Nat) : Rat) := by exact_mod_cast Nat.pos_of_ne_zero (by positivity)
        have hh : 0 < (ab.2 - ab.1) / ((2 ^ pl.toNat : Nat) : Rat) := div_pos (sub_pos.2 hab) hn
        simp only [ancestorInterval]
        intro heq
        linarith
      · exact e2 P hP
  | [], _ :: _, _, h1, h2, _ => by cases ‹List (Rat × Rat)› <;> simp at h1 h2
  | _ :: _, [], _, h1, h2, _ => by cases ‹List (Rat × Rat)› <;> simp at h1 h2
  | [], [], _ :: _, h1, _, _ => by simp at h1
  | _ :: _, _ :: _, [], h1, _, _ => by simp at h1

/-- one cell: for a product of affine functions the contribution is the exact integral over the cell if the cell has
level `lmin`, and 0 if it is a refined cell -/
theorem cell_contrib (dom : List (Rat × Rat)) (lmin : LV) (α β : Nat → Rat) (c : Cell)
    (hdom : ∀ ab ∈ dom, ab.1 < ab.2) (hd : dom.length = c.box.length) (hl : c.lv.length = c.box.length) :
    c.contrib dom lmin (fun d x => α d + β d * x)
      = (if ∀ d, d < c.lv.length → c.lv.getD d 0 ≤ lmin.getD d 0 then 1 else 0)
        * boxExact (fun d x => α d + β d * x) 0 c.box := by
  unfold Cell.contrib
  have hconst : ∀ e ∈ cellParents lmin c.lv,
      subcellFrom (fun d x => α d + β d * x) 0 (zip3Anc dom e.1 c.box) c.box
        = boxExact (fun d x => α d + β d * x) 0 c.box := by
    intro e he
    have hel : e.1.length = c.box.length := by rw [cellParents_lengths lmin c.lv c.lv.length e he, hl]
    obtain ⟨z1, z2⟩ := zip3Anc_props dom e.1 c.box hd hel hdom
    exact subcell_affine α β _ c.box 0 z1 z2
  have := combine_const (cellParents lmin c.lv) (fun l => subcellFrom (fun d x => α d + β d * x) 0 (zip3Anc dom l c.box) c.box)
    (boxExact (fun d x => α d + β d * x) 0 c.box) hconst
  unfold combine at this
  rw [this]
  have hs := cellParents_sum lmin c.lv
  unfold coefSum at hs
  rw [hs]
  split <;> simp

/-- **The cell scheme integrates multilinear functions exactly** (supported configuration: all initial cells have the
level vector `lmin`): the cells of level `lmin` are the leaves of a tree tiling `Ω` (the `lmin` grid), every other cell
ever created is a refined cell (some `lv_d > lmin_d`).  All cells contribute (refined cells are never removed); the
contributions of the refined ones vanish and those of the initial ones add up to the integral over `Ω`. -/
theorem cell_multilinear_exact (t : BoxTree) (Ω : List (Rat × Rat)) (lmin : LV) (α β : Nat → Rat)
    (init refined : List Cell)
    (hΩ : ∀ ab ∈ Ω, ab.1 < ab.2) (hwf : t.wf Ω = true)
    (hleaves : init.map (·.box) = t.leaves Ω)
    (hinit : ∀ c ∈ init, c.lv.length = c.box.length ∧ ∀ d, d < c.lv.length → c.lv.getD d 0 ≤ lmin.getD d 0)
    (hrefd : ∀ c ∈ refined, c.lv.length = c.box.length ∧ c.box.length = Ω.length ∧
      ¬ ∀ d, d < c.lv.length → c.lv.getD d 0 ≤ lmin.getD d 0) :
    cellIntegral Ω lmin (fun d x => α d + β d * x) (init ++ refined) = boxExact (fun d x => α d + β d * x) 0 Ω := by
  obtain ⟨hs, hl⟩ := tiling_exact (fun d x => α d + β d * x) t Ω hwf (affBox_affine α β Ω 0 hΩ)
  unfold cellIntegral
  rw [List.map_append, List.sum_append]
  have h1 : (init.map (Cell.contrib Ω lmin fun d x => α d + β d * x)).sum
      = ((t.leaves Ω).map (boxExact (fun d x => α d + β d * x) 0)).sum := by
    rw [← hleaves, List.map_map]
    congr 1
    apply List.map_congr_left
    intro c hc
    have hbox : c.box ∈ t.leaves Ω := by rw [← hleaves]; exact List.mem_map_of_mem hc
    rw [cell_contrib Ω lmin α β c hΩ (hl c.box hbox).2.symm (hinit c hc).1, if_pos (hinit c hc).2]
    simp
  have h2 : (refined.map (Cell.contrib Ω lmin fun d x => α d + β d * x)).sum = 0 := by
    apply List.sum_eq_zero
    intro v hv
    obtain ⟨c, hc, rfl⟩ := List.mem_map.1 hv
    rw [cell_contrib Ω lmin α β c hΩ (hrefd c hc).2.1.symm (hrefd c hc).1, if_neg (hrefd c hc).2.2]
    simp
  rw [h1, h2, hs, add_zero]

/-- non-vacuity: `[0,1]²`, `lmin = (1,1)`: the four initial cells and two refined cells of the first one -/
example : cellIntegral [(0, 1), (0, 1)] [1, 1] (fun d x => if d = 0 then 1 + 2 * x else 3 - x)
    [⟨[(0, 1/2), (0, 1/2)], [1, 1]⟩, ⟨[(1/2, 1), (0, 1/2)], [1, 1]⟩, ⟨[(0, 1/2), (1/2, 1)], [1, 1]⟩,
     ⟨[(1/2, 1), (1/2, 1)], [1, 1]⟩, ⟨[(0, 1/4), (0, 1/2)], [2, 1]⟩, ⟨[(1/4, 1/2), (0, 1/2)], [2, 1]⟩] = 5 := by decide +kernel
example : cellParents [1, 1] [2, 3] = [([2, 3], 1), ([1, 3], -1), ([2, 2], -1), ([1, 2], 1)] := by decide +kernel

end SparseSpace.C04
