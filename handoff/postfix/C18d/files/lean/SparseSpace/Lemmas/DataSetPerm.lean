import SparseSpace.Model.DataSet
import Mathlib.Tactic.Ring
import Mathlib.Tactic.Linarith
import Mathlib.Data.List.Nodup
/-! Lemmas for C18, part 1: the sample-moving operations of `Model/DataSet` (multisets, attached labels, attributes). -/
namespace SparseSpace.DSM

/-! ### generic list facts -/

theorem filterMap_getElem?_range {α : Type} (l : List α) :
    (List.range l.length).filterMap (fun i => l[i]?) = l := by
  induction l with
  | nil => simp
  | cons a t ih =>
    rw [List.length_cons, List.range_succ_eq_map, List.filterMap_cons]
    simp only [List.getElem?_cons_zero, List.filterMap_map]
    simpa [Function.comp_def] using ih

theorem perm_filterMap_getElem? {α : Type} (l : List α) (perm : List Nat)
    (h : perm.Perm (List.range l.length)) : (perm.filterMap (fun i => l[i]?)).Perm l := by
  have := List.Perm.filterMap (fun i => l[i]?) h
  rwa [filterMap_getElem?_range] at this

theorem swapAt_perm {α : Type} (l : List α) (i j : Nat) : (swapAt l i j).Perm l := by
  unfold swapAt
  split
  · next h => exact List.set_set_perm h.1 h.2
  · exact List.Perm.refl _

theorem foldl_swapAt_perm {α : Type} (ops : List (Nat × Nat)) (l : List α) :
    (ops.foldl (fun acc p => swapAt acc p.2 p.1) l).Perm l := by
  induction ops generalizing l with
  | nil => exact List.Perm.refl _
  | cons p ps ih => exact (ih _).trans (swapAt_perm l p.2 p.1)

/-! ### constructor and `_update_internal` -/

/-- the scaling attributes (and the shuffled flag) that `_update_internal` copies -/
def attrs (s : DS) : Bool × Bool × Option Rng × Option Fac × Option (List Rat) × Option (List Rat) × Option Fac :=
  (s.shuffled, s.scaled, s.range, s.factor, s.omin, s.omax, s.offset)

@[simp] theorem ctor_samples (l : List Sample) : (ctor l).samples = l := by
  cases l with
  | nil => rfl
  | cons p t => obtain ⟨r, x⟩ := p; rfl

theorem updateInternal_ok {p c r : DS} (h : updateInternal p c = .ok r) :
    r.samples = c.samples ∧ r.dim = c.dim ∧ r.flat = c.flat ∧ attrs r = attrs p := by
  unfold updateInternal at h
  split at h
  · next hs =>
    split at h
    · next mn mx hmn hmx =>
      cases h
      simp [attrs, hs, hmn, hmx]
    · cases h
  · next hs =>
    cases h
    simp only [Bool.not_eq_true] at hs
    simp [attrs, hs]

theorem mapM_ok_forall {α β : Type} {f : α → Except Err β} :
    ∀ {l : List α} {r : List β}, l.mapM f = .ok r → List.Forall₂ (fun a b => f a = .ok b) l r
  | [], r, h => by
    simp [List.mapM_nil, pure, Except.pure] at h; subst h; exact List.Forall₂.nil
  | a :: l, r, h => by
    rw [List.mapM_cons] at h
    cases hfa : f a with
    | error e => simp [hfa, bind, Except.bind] at h
    | ok b =>
      cases hl : l.mapM f with
      | error e => simp [hfa, hl, bind, Except.bind] at h
      | ok bs =>
        simp [hfa, hl, bind, Except.bind, pure, Except.pure] at h
        subst h
        exact List.Forall₂.cons hfa (mapM_ok_forall hl)

/-! ### splits -/

theorem flatMap_congr_mem {α β : Type} {f g : α → List β} :
    ∀ {l : List α}, (∀ a ∈ l, f a = g a) → l.flatMap f = l.flatMap g
  | [], _ => rfl
  | a :: l, h => by
    rw [List.flatMap_cons, List.flatMap_cons, h a (by simp), flatMap_congr_mem (fun b hb => h b (by simp [hb]))]

theorem flatMap_filter_perm (order : List Rat) (hn : order.Nodup) :
    ∀ (l : List Sample), (∀ p ∈ l, p.2 ∈ order) →
      (order.flatMap fun j => l.filter (fun p => p.2 == j)).Perm l := by
  induction order with
  | nil =>
    intro l hc
    cases l with
    | nil => simp
    | cons p t => exact absurd (hc p (by simp)) (by simp)
  | cons j rest ih =>
    intro l hc
    have hj : j ∉ rest := (List.nodup_cons.mp hn).1
    have hn' : rest.Nodup := (List.nodup_cons.mp hn).2
    let l' := l.filter (fun p => !(p.2 == j))
    have hc' : ∀ p ∈ l', p.2 ∈ rest := by
      intro p hp
      have hp' := List.mem_filter.mp hp
      have := hc p hp'.1
      rcases List.mem_cons.mp this with h | h
      · simp [h] at hp'
      · exact h
    have hcongr : (rest.flatMap fun j' => l.filter (fun p => p.2 == j')) =
        (rest.flatMap fun j' => l'.filter (fun p => p.2 == j')) := by
      apply flatMap_congr_mem
      intro j' hj'
      have hne : j' ≠ j := fun h => hj (h ▸ hj')
      simp only [l', List.filter_filter]
      apply List.filter_congr
      intro p _
      by_cases h : p.2 = j'
      · simp [h, hne]
      · simp [h]
    rw [List.flatMap_cons, hcongr]
    exact (List.Perm.append_left _ (ih hn' l' hc')).trans (List.filter_append_perm _ l)

theorem splitLabels_spec {s : DS} {order : List Rat} {parts : List DS}
    (h : splitLabels s order = .ok parts) :
    parts.flatMap (·.samples) = order.flatMap (fun j => s.samples.filter (fun p => p.2 == j)) ∧
    (∀ r ∈ parts, attrs r = attrs s) ∧
    List.Forall₂ (fun j r => ∀ p ∈ r.samples, p.2 = j) order parts := by
  have hf := mapM_ok_forall h
  clear h
  induction hf with
  | nil => simp
  | cons hab _ ih =>
    have := updateInternal_ok hab
    refine ⟨?_, ?_, ?_⟩
    · simp [List.flatMap_cons, this.1, ih.1]
    · intro r hr
      rcases List.mem_cons.mp hr with h | h
      · rw [h]; exact this.2.2.2
      · exact ih.2.1 r h
    · refine List.Forall₂.cons ?_ ih.2.2
      intro p hp
      rw [this.1, ctor_samples] at hp
      simpa using (List.mem_filter.mp hp).2

theorem splitWithoutLabels_spec {s a b : DS} (h : splitWithoutLabels s = .ok (a, b)) :
    a.samples = s.samples.filter (fun p => p.2 == -1) ∧ b.samples = s.samples.filter (fun p => p.2 ≥ 0) ∧
    attrs a = attrs s ∧ attrs b = attrs s := by
  unfold splitWithoutLabels at h
  split at h
  · next x y hx hy =>
    cases h
    have h1 := updateInternal_ok hx
    have h2 := updateInternal_ok hy
    exact ⟨by rw [h1.1, ctor_samples], by rw [h2.1, ctor_samples], h1.2.2.2, h2.2.2.2⟩
  · cases h
  · cases h

theorem splitPieces_spec {s a b : DS} {p : Rat} (h : splitPieces s p = .ok (a, b)) :
    a.samples = s.samples.take (splitIndex s p) ∧ b.samples = s.samples.drop (splitIndex s p) ∧
    attrs a = attrs s ∧ attrs b = attrs s := by
  unfold splitPieces at h
  simp only at h
  split at h
  · next x y hx hy =>
    cases h
    have h1 := updateInternal_ok hx
    have h2 := updateInternal_ok hy
    exact ⟨by rw [h1.1, ctor_samples], by rw [h2.1, ctor_samples], h1.2.2.2, h2.2.2.2⟩
  · cases h
  · cases h

/-! ### `same_scaling` of a set with a set carrying its own attributes; concatenation -/

theorem zipAllEq_self (v : List Rat) : zipAllEq v v = true := by
  unfold zipAllEq
  induction v with
  | nil => rfl
  | cons a t ih => simp

/-- a scaled set has a range entry (`same_scaling` subscripts it) -/
def RangeOK (a : DS) : Prop := a.scaled = true → a.range.isSome

theorem sameScaling_self_attrs {a c : DS} (hc : attrs c = attrs a) (hr : RangeOK a) :
    sameScaling a c = .ok true := by
  simp only [attrs, Prod.mk.injEq] at hc
  obtain ⟨_, hs, hrg, hf, _, _⟩ := hc
  unfold sameScaling
  rw [hs, hrg, hf]
  cases hsc : a.scaled with
  | false => simp
  | true =>
    have := hr hsc
    simp only [bne_self_eq_false, Bool.false_eq_true, if_false, Bool.not_true]
    cases hrng : a.range with
    | none => simp [hrng] at this
    | some rg =>
      cases rg with
      | pair lo hi =>
        cases hfa : a.factor with
        | none => simp
        | some f => cases f with
          | scalar q => simp
          | vec v => simp [zipAllEq_self]
      | arrs m x =>
        cases hfa : a.factor with
        | none => simp
        | some f => cases f with
          | scalar q => simp
          | vec v => simp [zipAllEq_self]

theorem concatenateR_samples {a b : DS} {res : CRes} (h : concatenateR a b = .ok res) :
    (res.get a b).samples = a.samples ++ b.samples := by
  unfold concatenateR at h
  split at h
  · next hb => cases h; simp [CRes.get, List.isEmpty_iff.mp hb]
  · split at h
    · next ha => cases h; simp [CRes.get, List.isEmpty_iff.mp ha]
    · split at h
      · cases h
      · split at h
        · cases h
        · split at h
          · cases h
          · next c hc =>
            split at h
            · cases h
            · cases h
              simp [CRes.get, (updateInternal_ok hc).1]
            · cases h

theorem concatenateR_fresh_attrs {a b c : DS} (h : concatenateR a b = .ok (.fresh c)) : attrs c = attrs a := by
  unfold concatenateR at h
  split at h
  · cases h
  · split at h
    · cases h
    · split at h
      · cases h
      · split at h
        · cases h
        · split at h
          · cases h
          · next c' hc =>
            split at h
            · cases h
            · cases h; exact (updateInternal_ok hc).2.2.2
            · cases h

/-- two non-empty operands: the result is never one of the operands -/
theorem concatenateR_nonempty {a b : DS} {res : CRes} (h : concatenateR a b = .ok res)
    (ha : a.samples ≠ []) (hb : b.samples ≠ []) : ∃ c, res = .fresh c := by
  unfold concatenateR at h
  split at h
  · next hb' => exact absurd (List.isEmpty_iff.mp hb') hb
  · split at h
    · next ha' => exact absurd (List.isEmpty_iff.mp ha') ha
    · split at h
      · cases h
      · split at h
        · cases h
        · split at h
          · cases h
          · split at h
            · cases h
            · cases h; exact ⟨_, rfl⟩
            · cases h

/-- an empty operand: the other operand itself is returned, whatever the dimensions, array shapes and attributes -/
theorem concatenateR_empty (a b : DS) :
    (b.samples = [] → concatenateR a b = .ok .retSelf) ∧
    (a.samples = [] → b.samples ≠ [] → concatenateR a b = .ok .retOther) := by
  refine ⟨fun hb => ?_, fun ha hb => ?_⟩
  · unfold concatenateR; simp [hb]
  · unfold concatenateR
    have : b.samples.isEmpty = false := by simpa using hb
    simp [ha, this]

theorem concatenate_samples {a b r : DS} (h : concatenate a b = .ok r) : r.samples = a.samples ++ b.samples := by
  unfold concatenate at h
  cases hr : concatenateR a b with
  | error e => simp [hr, Except.map] at h
  | ok res =>
    simp [hr, Except.map] at h
    rw [← h]; exact concatenateR_samples hr

theorem foldlM_concatenate_samples : ∀ (ds : List DS) (d r : DS), ds.foldlM concatenate d = .ok r →
    r.samples = d.samples ++ ds.flatMap (·.samples)
  | [], d, r, h => by simp [List.foldlM_nil, pure, Except.pure] at h; subst h; simp
  | x :: xs, d, r, h => by
    rw [List.foldlM_cons] at h
    cases hx : concatenate d x with
    | error e => simp [hx, bind, Except.bind] at h
    | ok y =>
      simp only [hx, bind, Except.bind] at h
      rw [foldlM_concatenate_samples xs y r h, concatenate_samples hx]
      simp [List.flatMap_cons]

theorem listConcatenate_samples {ds : List DS} {r : DS} (h : listConcatenate ds = .ok r) :
    r.samples = ds.flatMap (·.samples) := by
  cases ds with
  | nil => simp [listConcatenate] at h; subst h; simp
  | cons d t =>
    simp only [listConcatenate] at h
    rw [foldlM_concatenate_samples t d r h]; simp [List.flatMap_cons]

/-- `_update_internal` succeeds unless a scaled set has lost its original min/max -/
def AttrOK (a : DS) : Prop := a.scaled = true → a.omin.isSome ∧ a.omax.isSome

theorem updateInternal_succeeds {a : DS} (h : AttrOK a) (c : DS) : ∃ r, updateInternal a c = .ok r := by
  cases hs : a.scaled with
  | false => simp [updateInternal, hs]
  | true =>
    obtain ⟨h1, h2⟩ := h hs
    obtain ⟨mn, hmn⟩ := Option.isSome_iff_exists.mp h1
    obtain ⟨mx, hmx⟩ := Option.isSome_iff_exists.mp h2
    simp [updateInternal, hs, hmn, hmx]

/-- the defect: whatever the scaling of `b`, the concatenation is accepted -/
theorem concatenateR_never_refuses {a b : DS} (hna : a.samples ≠ []) (hnb : b.samples ≠ [])
    (hd : a.dim = b.dim) (hf : a.flat = b.flat)
    (ha : AttrOK a) (hr : RangeOK a) : ∃ c, concatenateR a b = .ok (.fresh c) := by
  obtain ⟨c, hc⟩ := updateInternal_succeeds ha (ctor (a.samples ++ b.samples))
  refine ⟨c, ?_⟩
  have h1 : a.samples.isEmpty = false := by simpa using hna
  have h2 : b.samples.isEmpty = false := by simpa using hnb
  unfold concatenateR
  simp [h1, h2, hd, hf, hc, sameScaling_self_attrs (updateInternal_ok hc).2.2.2 hr]

/-! ### `remove_samples` -/

theorem removedSingles_spec {s : DS} {idx : List Int} {parts : List DS} (h : removedSingles s idx = .ok parts) :
    parts.flatMap (·.samples) = idx.filterMap (fun i => s.samples[i.toNat]?) ∧ (∀ r ∈ parts, attrs r = attrs s) ∧
    parts.length = idx.length ∧ (∀ r ∈ parts, r.samples ≠ []) := by
  have hf := mapM_ok_forall h
  clear h
  induction hf with
  | nil => simp
  | @cons i r is rs hab _ ih =>
    cases hp : s.samples[i.toNat]? with
    | none => simp [hp] at hab
    | some p =>
      simp only [hp] at hab
      have := updateInternal_ok hab
      refine ⟨?_, ?_, ?_, ?_⟩
      · simp [List.flatMap_cons, hp, this.1, ih.1]
      · intro r' hr'
        rcases List.mem_cons.mp hr' with h | h
        · rw [h]; exact this.2.2.2
        · exact ih.2.1 r' h
      · simp [ih.2.2.1]
      · intro r' hr'
        rcases List.mem_cons.mp hr' with h | h
        · rw [h, this.1]; simp
        · exact ih.2.2.2 r' h

theorem removedSingles_error_of_oob {s : DS} {idx : List Int}
    (h : ∃ i ∈ idx, s.samples[i.toNat]? = none) : ∃ e, removedSingles s idx = .error e := by
  cases hr : removedSingles s idx with
  | error e => exact ⟨e, rfl⟩
  | ok parts =>
    exfalso
    obtain ⟨i, hi, hnone⟩ := h
    have hf := mapM_ok_forall hr
    clear hr
    induction hf with
    | nil => simp at hi
    | @cons j r js rs hab _ ih =>
      rcases List.mem_cons.mp hi with h | h
      · subst h; simp [hnone] at hab
      · exact ih h

theorem contains_ofNat_iff {idx : List Int} (hnn : ∀ i ∈ idx, 0 ≤ i) (j : Nat) :
    idx.contains (Int.ofNat j) = (idx.map Int.toNat).contains j := by
  rw [Bool.eq_iff_iff]
  simp only [List.contains_iff_mem, List.mem_map]
  constructor
  · intro h; exact ⟨_, h, by simp⟩
  · rintro ⟨i, hi, hij⟩
    have : i = Int.ofNat j := by
      have := Int.toNat_of_nonneg (hnn i hi)
      rw [hij] at this; exact this.symm
    rw [← this]; exact hi

theorem foldl_dedup_spec : ∀ (l acc : List Int), acc.Nodup →
    (l.foldl (fun acc x => if acc.contains x then acc else acc ++ [x]) acc).Nodup ∧
    ∀ x, x ∈ l.foldl (fun acc x => if acc.contains x then acc else acc ++ [x]) acc ↔ x ∈ acc ∨ x ∈ l
  | [], acc, h => ⟨h, by simp⟩
  | a :: l, acc, h => by
    simp only [List.foldl_cons]
    by_cases ha : acc.contains a = true
    · rw [if_pos ha]
      obtain ⟨h1, h2⟩ := foldl_dedup_spec l acc h
      refine ⟨h1, fun x => ?_⟩
      rw [h2 x]
      have : a ∈ acc := by simpa using ha
      constructor
      · rintro (h | h)
        · exact Or.inl h
        · exact Or.inr (List.mem_cons_of_mem _ h)
      · rintro (h | h)
        · exact Or.inl h
        · rcases List.mem_cons.mp h with h | h
          · exact Or.inl (h ▸ this)
          · exact Or.inr h
    · rw [if_neg ha]
      have hna : a ∉ acc := by simpa using ha
      have hnd : (acc ++ [a]).Nodup := by
        rw [List.nodup_append]
        exact ⟨h, by simp, by intro x hx y hy; simp at hy; rintro rfl; exact hna (hy ▸ hx)⟩
      obtain ⟨h1, h2⟩ := foldl_dedup_spec l (acc ++ [a]) hnd
      refine ⟨h1, fun x => ?_⟩
      rw [h2 x]
      simp only [List.mem_append, List.mem_cons]
      tauto

theorem dedupFirst_nodup (idx : List Int) : (dedupFirst idx).Nodup := (foldl_dedup_spec idx [] List.nodup_nil).1

theorem mem_dedupFirst {idx : List Int} {x : Int} : x ∈ dedupFirst idx ↔ x ∈ idx := by
  have := (foldl_dedup_spec idx [] List.nodup_nil).2 x
  simpa [dedupFirst] using this

theorem removeSamples_eq {s : DS} {idx : List Int}
    (h : ¬ (idx.any (fun i => i < 0 || i > (s.samples.length : Int)) = true)) :
    removeSamples s idx =
      if (dedupFirst idx).isEmpty then (s, updateInternal s (ctor [])) else
      match removedSingles s (dedupFirst idx) with
      | .error e => (s, .error e)
      | .ok parts => ({ s with samples := deleteIdx s.samples (dedupFirst idx) }, listConcatenate parts) := by
  unfold removeSamples
  rw [if_neg h]
  rfl

/-- removal of duplicate-free valid indices `J` (the core of `remove_samples`) -/
theorem remove_core_perm {s r : DS} {J : List Int} {parts : List DS}
    (hv : ∀ i ∈ J, 0 ≤ i ∧ i < (s.samples.length : Int)) (hn : J.Nodup)
    (hp : removedSingles s J = .ok parts) (hr : listConcatenate parts = .ok r) :
    (r.samples ++ deleteIdx s.samples J).Perm s.samples := by
  have hrs := listConcatenate_samples hr
  rw [(removedSingles_spec hp).1] at hrs
  simp only [hrs, deleteIdx]
  set l := s.samples with hl
  set I := J.map Int.toNat with hI
  have hnn : ∀ i ∈ J, 0 ≤ i := fun i hi => (hv i hi).1
  have h1 : J.filterMap (fun i => l[i.toNat]?) = I.filterMap (fun j => l[j]?) := by
    simp [hI, List.filterMap_map]
  have h2 : (List.range l.length).filterMap (fun (j : Nat) => if J.contains (Int.ofNat j) then none else l[j]?) =
      ((List.range l.length).filter (fun j => !I.contains j)).filterMap (fun j => l[j]?) := by
    rw [List.filterMap_filter]
    apply List.filterMap_congr
    intro j _
    rw [contains_ofNat_iff hnn j]
    cases (I.contains j) <;> simp
  rw [h1, h2, ← List.filterMap_append]
  apply perm_filterMap_getElem?
  have hInd : I.Nodup := by
    refine List.Nodup.map_on ?_ hn
    intro a ha b hb hab
    have h1 := Int.toNat_of_nonneg (hnn a ha)
    have h2 := Int.toNat_of_nonneg (hnn b hb)
    rw [← h1, ← h2, hab]
  have hIsub : ∀ j ∈ I, j < l.length := by
    intro j hj
    obtain ⟨i, hi, hij⟩ := List.mem_map.mp hj
    have := (hv i hi)
    omega
  have hperm : I.Perm ((List.range l.length).filter (fun j => I.contains j)) := by
    rw [List.perm_ext_iff_of_nodup hInd (List.Nodup.filter _ List.nodup_range)]
    intro j
    simp only [List.mem_filter, List.mem_range, List.contains_iff_mem]
    exact ⟨fun h => ⟨hIsub j h, h⟩, fun h => h.2⟩
  exact (List.Perm.append_right _ hperm).trans (List.filter_append_perm _ _)

/-- `remove_samples` with valid indices (repetitions allowed): removed and kept samples are the samples of the set -/
theorem removeSamples_perm {s s' r : DS} {idx : List Int}
    (hv : ∀ i ∈ idx, 0 ≤ i ∧ i < (s.samples.length : Int))
    (h : removeSamples s idx = (s', .ok r)) : (r.samples ++ s'.samples).Perm s.samples := by
  have hany : ¬ (idx.any (fun i => i < 0 || i > (s.samples.length : Int)) = true) := by
    simp only [List.any_eq_true, not_exists, not_and, Bool.or_eq_true, decide_eq_true_eq]
    intro i hi; have := hv i hi; omega
  rw [removeSamples_eq hany] at h
  split at h
  · simp only [Prod.mk.injEq] at h
    obtain ⟨hs', hr⟩ := h
    subst hs'
    rw [(updateInternal_ok hr).1]; simp
  · split at h
    · cases h
    · next parts hp =>
      simp only [Prod.mk.injEq] at h
      obtain ⟨hs', hr⟩ := h
      subst hs'
      exact remove_core_perm (fun i hi => hv i (mem_dedupFirst.mp hi)) (dedupFirst_nodup idx) hp hr

theorem concatenate_nonempty_attrs {a b r : DS} (h : concatenate a b = .ok r)
    (ha : a.samples ≠ []) (hb : b.samples ≠ []) : attrs r = attrs a ∧ r.samples ≠ [] := by
  have hs := concatenate_samples h
  unfold concatenate at h
  cases hr : concatenateR a b with
  | error e => simp [hr, Except.map] at h
  | ok res =>
    obtain ⟨c, hc⟩ := concatenateR_nonempty hr ha hb
    subst hc
    simp [hr, Except.map, CRes.get] at h
    subst h
    exact ⟨concatenateR_fresh_attrs hr, by rw [hs]; simp [ha]⟩

theorem foldlM_concatenate_attrs : ∀ (ds : List DS) (d r : DS), d.samples ≠ [] → (∀ x ∈ ds, x.samples ≠ []) →
    ds.foldlM concatenate d = .ok r → attrs r = attrs d
  | [], d, r, _, _, h => by simp [List.foldlM_nil, pure, Except.pure] at h; subst h; rfl
  | x :: xs, d, r, hd, hx, h => by
    rw [List.foldlM_cons] at h
    cases hc : concatenate d x with
    | error e => simp [hc, bind, Except.bind] at h
    | ok y =>
      simp only [hc, bind, Except.bind] at h
      obtain ⟨hay, hyne⟩ := concatenate_nonempty_attrs hc hd (hx x (by simp))
      rw [foldlM_concatenate_attrs xs y r hyne (fun z hz => hx z (by simp [hz])) h, hay]

/-- the set returned by a successful `remove_samples` carries the attributes of `self` (also for no index at all) -/
theorem removeSamples_attrs {s s' r : DS} {idx : List Int}
    (h : removeSamples s idx = (s', .ok r)) : attrs r = attrs s ∧ attrs s' = attrs s ∧ s'.dim = s.dim := by
  unfold removeSamples at h
  split at h
  · cases h
  · simp only at h
    split at h
    · simp only [Prod.mk.injEq] at h
      obtain ⟨hs', hr⟩ := h
      subst hs'
      exact ⟨(updateInternal_ok hr).2.2.2, rfl, rfl⟩
    · next hne =>
      split at h
      · cases h
      · next parts hp =>
        simp only [Prod.mk.injEq] at h
        obtain ⟨hs', hr⟩ := h
        subst hs'
        refine ⟨?_, rfl, rfl⟩
        obtain ⟨_, hattrs, hlen, hnes⟩ := removedSingles_spec hp
        cases parts with
        | nil =>
          exfalso
          have : (dedupFirst idx).length = 0 := by simpa using hlen.symm
          exact hne (by simp [List.length_eq_zero_iff.mp this])
        | cons d ds =>
          simp only [listConcatenate] at hr
          rw [foldlM_concatenate_attrs ds d r (hnes d (by simp)) (fun x hx => hnes x (by simp [hx])) hr]
          exact hattrs d (by simp)

/-- out-of-range indices: an exception, and `self` is exactly what it was -/
theorem removeSamples_oob {s : DS} {idx : List Int}
    (h : ∃ i ∈ idx, i < 0 ∨ (s.samples.length : Int) ≤ i) : ∃ e, removeSamples s idx = (s, .error e) := by
  by_cases hany : idx.any (fun i => i < 0 || i > (s.samples.length : Int)) = true
  · exact ⟨.value, by unfold removeSamples; rw [if_pos hany]⟩
  · rw [removeSamples_eq hany]
    have hall : ∀ i ∈ idx, ¬ (i < 0) ∧ ¬ (i > (s.samples.length : Int)) := by
      intro i hi
      simp only [List.any_eq_true, not_exists, not_and, Bool.or_eq_true, decide_eq_true_eq] at hany
      have := hany i hi
      omega
    obtain ⟨i, hi, hoob⟩ := h
    have hin : i = (s.samples.length : Int) := by
      have := hall i hi
      omega
    have hnone : s.samples[i.toNat]? = none := by
      rw [hin]; simp
    have hiJ : i ∈ dedupFirst idx := mem_dedupFirst.mpr hi
    have hne : (dedupFirst idx).isEmpty = false := by
      cases hJ : dedupFirst idx with
      | nil => rw [hJ] at hiJ; simp at hiJ
      | cons a t => rfl
    obtain ⟨e, he⟩ := removedSingles_error_of_oob ⟨i, hiJ, hnone⟩
    exact ⟨e, by rw [hne, he]; rfl⟩

end SparseSpace.DSM
