import SparseSpace.Lemmas.DataSetPerm
import SparseSpace.Lemmas.DataSetRevert
/-! Lemmas for C18, part 4: the well-formedness invariant of reachable data sets (all samples have `_dim`
components, labels are `≥ -1`, a non-empty set has a 2-D value array) is kept by every operation, in every outcome. -/
namespace SparseSpace.DSM

structure WF (s : DS) : Prop where
  rect : ∀ p ∈ s.samples, p.1.length = s.dim
  labels : ∀ p ∈ s.samples, -1 ≤ p.2
  flat : s.samples ≠ [] → s.flat = false

theorem WF.rectRows {s : DS} (h : WF s) : Rect s.dim s.rows := by
  intro r hr
  obtain ⟨p, hp, rfl⟩ := List.mem_map.mp hr
  exact h.rect p hp

theorem wf_ctor {l : List Sample} {d : Nat} (hr : ∀ p ∈ l, p.1.length = d) (hl : ∀ p ∈ l, -1 ≤ p.2) : WF (ctor l) := by
  cases l with
  | nil => exact ⟨by simp [ctor], by simp [ctor], by simp [ctor]⟩
  | cons p t =>
    obtain ⟨r, x⟩ := p
    refine ⟨?_, hl, fun _ => rfl⟩
    intro q hq
    show q.1.length = r.length
    rw [hr q hq, hr (r, x) (by simp)]

theorem wf_updateInternal {p c r : DS} (h : updateInternal p c = .ok r) (hc : WF c) : WF r := by
  obtain ⟨h1, h2, h3, _⟩ := updateInternal_ok h
  exact ⟨by rw [h1, h2]; exact hc.rect, by rw [h1]; exact hc.labels, by rw [h1, h3]; exact hc.flat⟩

/-- a derived set built from a sub-multiset of the samples -/
theorem wf_derived {s r : DS} {l : List Sample} (hs : WF s) (hsub : ∀ p ∈ l, p ∈ s.samples)
    (h : updateInternal s (ctor l) = .ok r) : WF r :=
  wf_updateInternal h (wf_ctor (fun p hp => hs.rect p (hsub p hp)) (fun p hp => hs.labels p (hsub p hp)))

theorem wf_of_map {s : DS} (hs : WF s) (g : Row → Row) (hg : ∀ p ∈ s.samples, (g p.1).length = p.1.length)
    {s' : DS} (hsm : s'.samples = s.samples.map (fun p => (g p.1, p.2))) (hd : s'.dim = s.dim) (hf : s'.flat = s.flat) :
    WF s' := by
  refine ⟨?_, ?_, ?_⟩
  · intro q hq
    rw [hsm] at hq
    obtain ⟨p, hp, rfl⟩ := List.mem_map.mp hq
    rw [hd]; simp only; rw [hg p hp]; exact hs.rect p hp
  · intro q hq
    rw [hsm] at hq
    obtain ⟨p, hp, rfl⟩ := List.mem_map.mp hq
    exact hs.labels p hp
  · intro hne
    rw [hf]; apply hs.flat
    intro h0; apply hne; rw [hsm, h0]; rfl

theorem wf_scaleRange {s : DS} (hs : WF s) (lo hi : Rat) (ov : Bool) : WF (scaleRange s lo hi ov).1 := by
  by_cases hlt : lo < hi
  · cases hmn : colMins s.rows with
    | none => unfold scaleRange; rw [if_neg (not_not.mpr hlt), hmn]; exact hs
    | some mn =>
      cases hmx : colMaxs s.rows with
      | none => unfold scaleRange; rw [if_neg (not_not.mpr hlt), hmn, hmx]; exact hs
      | some mx =>
        have hne : s.rows ≠ [] := by intro h0; rw [h0] at hmn; simp [colMins] at hmn
        obtain ⟨mn', hmn', hmnl, _⟩ := colMins_spec hne hs.rectRows
        obtain ⟨mx', hmx', hmxl, _⟩ := colMaxs_spec hne hs.rectRows
        rw [hmn] at hmn'; cases hmn'
        rw [hmx] at hmx'; cases hmx'
        have hsl := mmScale_length (lo := lo) (hi := hi) hmnl hmxl
        apply wf_of_map hs _ _ (scaleRange_samples hlt hmn hmx)
        · unfold scaleRange; rw [if_neg (not_not.mpr hlt), hmn, hmx]; simp only
          repeat' split
          all_goals rfl
        · unfold scaleRange; rw [if_neg (not_not.mpr hlt), hmn, hmx]; simp only
          repeat' split
          all_goals rfl
        · intro p hp
          rw [mmRow_length hsl (by simp [mmOff, hmnl, hsl]) (hs.rect p hp), hs.rect p hp]
  · unfold scaleRange; rw [if_pos hlt]; exact hs

theorem act_length (shift : Bool) (f : Fac) (r : Row) (h : f.fits r.length = true) :
    ((if shift then f.addRow else f.mulRow) r).length = r.length := by
  cases f with
  | scalar q => cases shift <;> simp [Fac.addRow, Fac.mulRow]
  | vec v =>
    have hv : v.length = r.length := by simpa [Fac.fits] using h
    cases shift <;> simp [Fac.addRow, Fac.mulRow, hv]

theorem wf_of_samples_eq {s s' : DS} (hs : WF s) (h1 : s'.samples = s.samples) (h2 : s'.dim = s.dim) (h3 : s'.flat = s.flat) :
    WF s' := ⟨by rw [h1, h2]; exact hs.rect, by rw [h1]; exact hs.labels, by rw [h1, h3]; exact hs.flat⟩

theorem wf_of_empty {s' : DS} (h : s'.samples = []) : WF s' := ⟨by simp [h], by simp [h], by simp [h]⟩

theorem wf_facShift {s : DS} (hs : WF s) (shift : Bool) (f : Fac) (ov : Bool) : WF (facShift s shift f ov).1 := by
  have key : ∀ {s' : DS} (r0 : Row), r0.length = s.dim → f.fits r0.length = true →
      s'.samples = s.samples.map (fun p => ((if shift then f.addRow else f.mulRow) p.1, p.2)) →
      s'.dim = s.dim → s'.flat = s.flat → WF s' := by
    intro s' r0 hr0 hfit h1 h2 h3
    apply wf_of_map hs (if shift then f.addRow else f.mulRow) _ h1 h2 h3
    intro p hp
    apply act_length
    rw [hs.rect p hp, ← hr0]; exact hfit
  unfold facShift
  simp only
  split
  · split
    · next h => exact wf_of_empty h
    · next r0 l0 t h =>
      have hr0 : r0.length = s.dim := hs.rect (r0, l0) (by simp [h])
      split
      · exact wf_of_samples_eq hs rfl rfl rfl
      · next hfit =>
        have hfit' : f.fits r0.length = true := by simpa using hfit
        split
        · exact key r0 hr0 hfit' rfl rfl rfl
        · exact wf_of_samples_eq hs rfl rfl rfl
  · split
    · exact hs
    · next hfit =>
      have hfit' : f.fits s.dim = true := by simpa using hfit
      split
      · next h => exact wf_of_empty h
      · next p0 t h =>
        have hr0 : p0.1.length = s.dim := hs.rect p0 (by simp [h])
        have hfit'' : f.fits p0.1.length = true := by rw [hr0]; exact hfit'
        split
        · cases shift with
          | true =>
            simp only [if_true]
            split
            · exact key p0.1 hr0 hfit'' (by rfl) (by rfl) (by rfl)
            · exact key p0.1 hr0 hfit'' (by rfl) (by rfl) (by rfl)
          | false =>
            simp only [Bool.false_eq_true, if_false]
            split
            · split
              · exact key p0.1 hr0 hfit'' (by rfl) (by rfl) (by rfl)
              · exact key p0.1 hr0 hfit'' (by rfl) (by rfl) (by rfl)
            · exact key p0.1 hr0 hfit'' (by rfl) (by rfl) (by rfl)
        · exact hs

theorem wf_revert {s : DS} (hs : WF s) : WF (revert s).1 := by
  have h1 : WF (revertStep1 s).1 := by
    unfold revertStep1
    split
    · exact hs
    · split
      · exact hs
      · exact wf_facShift hs _ _ _
  have h2 : ∀ (s1 : DS) v, WF s1 → WF (shiftValue s1 v false).1 := fun s1 v h => wf_facShift h true v false
  unfold revert
  split
  · exact hs
  · split
    · exact hs
    · split
      · exact hs
      · split
        · next s1 e he => rw [he] at h1; exact h1
        · next s1 he =>
          rw [he] at h1
          split
          · next s2 e he2 =>
            have h3 := congrArg (fun x => WF x.1) he2
            simp only at h3
            rw [← h3]; exact h2 s1 _ h1
          · next s2 he2 =>
            have h3 := congrArg (fun x => WF x.1) he2
            simp only at h3
            have : WF s2 := by rw [← h3]; exact h2 s1 _ h1
            exact wf_of_samples_eq this rfl rfl rfl

/-- in-place operations that only rearrange / drop samples -/
theorem wf_of_subset {s s' : DS} (hs : WF s) (hsub : ∀ p ∈ s'.samples, p ∈ s.samples) (hd : s'.dim = s.dim)
    (hf : s'.samples ≠ [] → s'.flat = false) : WF s' :=
  ⟨fun p hp => by rw [hd]; exact hs.rect p (hsub p hp), fun p hp => hs.labels p (hsub p hp), hf⟩

theorem wf_shuffle {s : DS} (hs : WF s) (perm : List Nat) : WF (shuffle s perm) := by
  refine wf_of_subset hs ?_ (by rfl) ?_
  rotate_left
  · intro hne
    have : s.samples ≠ [] := by
      intro h0; apply hne; simp [shuffle, h0]
    simp [shuffle, hs.flat this, this]
  · intro p hp
    simp only [shuffle, List.mem_filterMap] at hp
    obtain ⟨i, _, hi⟩ := hp
    exact List.mem_of_getElem? hi

theorem wf_moveBoundaries {s : DS} (hs : WF s) (order : List Nat) : WF (moveBoundaries s order) := by
  have hp : (moveBoundaries s order).samples.Perm s.samples := foldl_swapAt_perm _ _
  refine wf_of_subset hs (fun p h => hp.mem_iff.mp h) (by rfl) ?_
  intro hne
  apply hs.flat
  intro h0; apply hne
  exact List.Perm.eq_nil (h0 ▸ hp)

theorem wf_splitLabels {s : DS} (hs : WF s) {order : List Rat} {parts : List DS}
    (h : splitLabels s order = .ok parts) : ∀ r ∈ parts, WF r := by
  have hf := mapM_ok_forall h
  clear h
  induction hf with
  | nil => simp
  | cons hab _ ih =>
    intro r hr
    rcases List.mem_cons.mp hr with h | h
    · rw [h]; exact wf_derived hs (fun p hp => (List.mem_filter.mp hp).1) hab
    · exact ih r h

theorem wf_splitWithoutLabels {s a b : DS} (hs : WF s) (h : splitWithoutLabels s = .ok (a, b)) : WF a ∧ WF b := by
  unfold splitWithoutLabels at h
  split at h
  · next x y hx hy =>
    cases h
    exact ⟨wf_derived hs (fun p hp => (List.mem_filter.mp hp).1) hx,
      wf_derived hs (fun p hp => (List.mem_filter.mp hp).1) hy⟩
  · cases h
  · cases h

theorem wf_splitPieces {s a b : DS} {p : Rat} (hs : WF s) (h : splitPieces s p = .ok (a, b)) : WF a ∧ WF b := by
  unfold splitPieces at h
  simp only at h
  split at h
  · next x y hx hy =>
    cases h
    exact ⟨wf_derived hs (fun p hp => List.mem_of_mem_take hp) hx, wf_derived hs (fun p hp => List.mem_of_mem_drop hp) hy⟩
  · cases h
  · cases h

theorem wf_concatenate {a b r : DS} (ha : WF a) (hb : WF b) (h : concatenate a b = .ok r) : WF r := by
  unfold concatenate at h
  cases hr : concatenateR a b with
  | error e => simp [hr, Except.map] at h
  | ok res =>
    simp [hr, Except.map] at h
    subst h
    unfold concatenateR at hr
    split at hr
    · cases hr; exact ha
    · split at hr
      · cases hr; exact hb
      · split at hr
        · cases hr
        · next hd =>
          have hd' : a.dim = b.dim := by simpa using hd
          split at hr
          · cases hr
          · split at hr
            · cases hr
            · next c hc =>
              have hwc : WF c := by
                apply wf_updateInternal hc
                apply wf_ctor (d := a.dim)
                · intro p hp
                  rcases List.mem_append.mp hp with h | h
                  · exact ha.rect p h
                  · rw [hd']; exact hb.rect p h
                · intro p hp
                  rcases List.mem_append.mp hp with h | h
                  · exact ha.labels p h
                  · exact hb.labels p h
              split at hr
              · cases hr
              · cases hr; exact hwc
              · cases hr

theorem wf_foldlM_concatenate : ∀ (ds : List DS) (d r : DS), WF d → (∀ x ∈ ds, WF x) →
    ds.foldlM concatenate d = .ok r → WF r
  | [], d, r, hd, _, h => by simp [List.foldlM_nil, pure, Except.pure] at h; subst h; exact hd
  | x :: xs, d, r, hd, hx, h => by
    rw [List.foldlM_cons] at h
    cases hc : concatenate d x with
    | error e => simp [hc, bind, Except.bind] at h
    | ok y =>
      simp only [hc, bind, Except.bind] at h
      exact wf_foldlM_concatenate xs y r (wf_concatenate hd (hx x (by simp)) hc) (fun z hz => hx z (by simp [hz])) h

theorem wf_listConcatenate {ds : List DS} {r : DS} (hds : ∀ x ∈ ds, WF x) (h : listConcatenate ds = .ok r) : WF r := by
  cases ds with
  | nil => simp [listConcatenate] at h; subst h; exact wf_of_empty rfl
  | cons d t => exact wf_foldlM_concatenate t d r (hds d (by simp)) (fun x hx => hds x (by simp [hx])) h

theorem wf_removedSingles {s : DS} (hs : WF s) {idx : List Int} {parts : List DS}
    (hp : removedSingles s idx = .ok parts) : ∀ x ∈ parts, WF x := by
  have hf := mapM_ok_forall hp
  clear hp
  induction hf with
  | nil => simp
  | @cons i d is ds hab _ ih =>
    intro x hx
    rcases List.mem_cons.mp hx with h | h
    · rw [h]
      cases hq : s.samples[i.toNat]? with
      | none => simp [hq] at hab
      | some q =>
        simp only [hq] at hab
        exact wf_derived hs (fun p hp => by
          have : p = q := by simpa using hp
          rw [this]; exact List.mem_of_getElem? hq) hab
    · exact ih x h

theorem wf_removeSamples {s : DS} (hs : WF s) (idx : List Int) :
    WF (removeSamples s idx).1 ∧ ∀ r, (removeSamples s idx).2 = .ok r → WF r := by
  by_cases hany : idx.any (fun i => i < 0 || i > (s.samples.length : Int)) = true
  · unfold removeSamples
    rw [if_pos hany]
    exact ⟨hs, fun r h => by cases h⟩
  · rw [removeSamples_eq hany]
    split
    · exact ⟨hs, fun r h => wf_updateInternal h (wf_of_empty (by simp))⟩
    · split
      · exact ⟨hs, fun r h => by cases h⟩
      · next parts hp =>
        refine ⟨?_, ?_⟩
        · have hsub : ∀ p ∈ deleteIdx s.samples (dedupFirst idx), p ∈ s.samples := by
            intro p hp'
            simp only [deleteIdx, List.mem_filterMap] at hp'
            obtain ⟨j, _, hj⟩ := hp'
            split at hj
            · cases hj
            · exact List.mem_of_getElem? hj
          refine wf_of_subset (s' := { s with samples := deleteIdx s.samples (dedupFirst idx) }) hs hsub rfl ?_
          intro hne
          apply hs.flat
          intro h0
          apply hne
          have : deleteIdx s.samples (dedupFirst idx) = [] := by
            apply List.eq_nil_iff_forall_not_mem.mpr
            intro p hp'; have := hsub p hp'; rw [h0] at this; simp at this
          exact this
        · intro r hr
          exact wf_listConcatenate (wf_removedSingles hs hp) hr

theorem wf_removeLabels {s : DS} (hs : WF s) (idx : List Nat) : WF (removeLabels s idx).1 := by
  unfold removeLabels
  split
  · exact hs
  · next ll lf h =>
    obtain ⟨h1, h2, _, _⟩ := splitWithoutLabels_spec h
    simp only
    have hlf : ∀ q ∈ (lf.samples.zipIdx.map fun q => if idx.contains q.2 then (q.1.1, (-1 : Rat)) else q.1),
        ∃ p ∈ s.samples, q.1 = p.1 ∧ -1 ≤ q.2 := by
      intro q hq
      obtain ⟨z, hz, rfl⟩ := List.mem_map.mp hq
      have hz1 : z.1 ∈ lf.samples := by
        have := List.mem_zipIdx hz
        exact List.mem_of_getElem? (by
          have h3 := this.2.2
          simp at h3
          exact h3.symm ▸ List.getElem?_eq_getElem (by omega))
      have hzs : z.1 ∈ s.samples := by rw [h2] at hz1; exact (List.mem_filter.mp hz1).1
      split
      · exact ⟨z.1, hzs, rfl, le_refl _⟩
      · exact ⟨z.1, hzs, rfl, hs.labels z.1 hzs⟩
    have hll : ∀ q ∈ ll.samples, q ∈ s.samples := by
      intro q hq; rw [h1] at hq; exact (List.mem_filter.mp hq).1
    have hall : ∀ q ∈ (if ll.samples.isEmpty then (lf.samples.zipIdx.map fun q => if idx.contains q.2 then (q.1.1, (-1 : Rat)) else q.1)
        else if lf.samples.isEmpty then ll.samples
        else (lf.samples.zipIdx.map fun q => if idx.contains q.2 then (q.1.1, (-1 : Rat)) else q.1) ++ ll.samples),
        ∃ p ∈ s.samples, q.1 = p.1 ∧ -1 ≤ q.2 := by
      intro q hq
      split at hq
      · exact hlf q hq
      · split at hq
        · exact ⟨q, hll q hq, rfl, hs.labels q (hll q hq)⟩
        · rcases List.mem_append.mp hq with h | h
          · exact hlf q h
          · exact ⟨q, hll q h, rfl, hs.labels q (hll q h)⟩
    refine ⟨?_, ?_, ?_⟩
    · intro q hq
      obtain ⟨p, hp, he, _⟩ := hall q hq
      show q.1.length = s.dim
      rw [he]; exact hs.rect p hp
    · intro q hq
      obtain ⟨p, hp, _, he⟩ := hall q hq
      exact he
    · intro hne
      simpa using hne

/-! ### derived sets of an image are images of the corresponding original samples -/

/-- a selection of samples that does not look at the sample values (prefix, suffix, filter on the label, deletion or
    picking by position): it commutes with every label-preserving map of the rows -/
def Commutes (sel : List Sample → List Sample) : Prop :=
  ∀ (g : Row → Row) (l : List Sample), sel (l.map (fun p => (g p.1, p.2))) = (sel l).map (fun p => (g p.1, p.2))

theorem commutes_take (k : Nat) : Commutes (List.take k) := fun g l => by rw [List.map_take]
theorem commutes_drop (k : Nat) : Commutes (List.drop k) := fun g l => by rw [List.map_drop]

theorem commutes_filter_label (q : Rat → Bool) : Commutes (List.filter (fun p => q p.2)) := fun g l => by
  rw [List.filter_map]; rfl

theorem commutes_deleteIdx (idx : List Int) : Commutes (fun l => deleteIdx l idx) := fun g l => by
  simp only [deleteIdx, List.length_map, List.map_filterMap]
  apply List.filterMap_congr
  intro j _
  split <;> simp

theorem commutes_pick (idx : List Int) : Commutes (fun l => idx.filterMap (fun i => l[i.toNat]?)) := fun g l => by
  simp only [List.map_filterMap]
  apply List.filterMap_congr
  intro j _
  simp

/-- a set that carries the attributes of an image `s` of `orig`, has its dimension and holds the selection `sel` of
    its samples is the image of the same selection of the original samples -/
theorem ImageOf.derived {orig : List Sample} {s r : DS} {d : Nat} (h : ImageOf orig s d)
    {sel : List Sample → List Sample} (hsel : Commutes sel)
    (hattrs : attrs r = attrs s) (hdim : r.dim = d) (hsmp : r.samples = sel s.samples) : ImageOf (sel orig) r d := by
  simp only [attrs, Prod.mk.injEq] at hattrs
  obtain ⟨_, hsc, _, hf, _, _, ho⟩ := hattrs
  obtain ⟨f, b, hfac, hoff, hfit, hbfit, hnz, hs⟩ := h.rep
  refine ⟨by rw [hsc]; exact h.scaled, hdim, f, b, by rw [hf]; exact hfac, by rw [ho]; exact hoff, hfit, hbfit, hnz, ?_⟩
  rw [hsmp, hs]
  exact hsel _ orig

/-- the dimension of a non-empty derived set -/
theorem derived_dim {s r : DS} {l : List Sample} {d : Nat} (h : updateInternal s (ctor l) = .ok r) (hne : l ≠ [])
    (hlen : ∀ p ∈ l, p.1.length = d) : r.dim = d := by
  rw [(updateInternal_ok h).2.1]
  cases l with
  | nil => exact absurd rfl hne
  | cons p t => obtain ⟨r0, x⟩ := p; exact hlen (r0, x) (by simp)

theorem ctor_dim_of_ne {l : List Sample} {d : Nat} (hne : l ≠ []) (hlen : ∀ p ∈ l, p.1.length = d) : (ctor l).dim = d := by
  cases l with
  | nil => exact absurd rfl hne
  | cons p t => obtain ⟨r0, x⟩ := p; exact hlen (r0, x) (by simp)

theorem splitPieces_dims {s a b : DS} {p : Rat} (h : splitPieces s p = .ok (a, b)) :
    a.dim = (ctor (s.samples.take (splitIndex s p))).dim ∧ b.dim = (ctor (s.samples.drop (splitIndex s p))).dim := by
  unfold splitPieces at h
  simp only at h
  split at h
  · next x y hx hy =>
    cases h
    exact ⟨(updateInternal_ok hx).2.1, (updateInternal_ok hy).2.1⟩
  · cases h
  · cases h

theorem splitWithoutLabels_dims {s a b : DS} (h : splitWithoutLabels s = .ok (a, b)) :
    a.dim = (ctor (s.samples.filter (fun p => p.2 == -1))).dim ∧
    b.dim = (ctor (s.samples.filter (fun p => p.2 ≥ 0))).dim := by
  unfold splitWithoutLabels at h
  split at h
  · next x y hx hy =>
    cases h
    exact ⟨(updateInternal_ok hx).2.1, (updateInternal_ok hy).2.1⟩
  · cases h
  · cases h

end SparseSpace.DSM
