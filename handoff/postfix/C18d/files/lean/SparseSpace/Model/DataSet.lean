/-!
# Model of `sparseSpACE.DEMachineLearning.DataSet` (property C18)

Import-free executable mirror of the class `DataSet` (`sparseSpACE/DEMachineLearning.py`, lines 22–486) AS IT IS,
including its degenerate cases and defects:

* a data set is the list of its `(sample, label)` pairs (label `-1` = unlabelled) plus the attributes the code
  maintains: `_dim`, the shape kind of an empty value array (`flat` = 1-D array of shape `(0,)` as opposed to `(0,d)`),
  `_shuffled`, `_scaled`, `_scaling_range`, `_scaling_factor`, `_original_min`, `_original_max`;
* the random operations take their random choice as an input (`shuffle`: the permutation, `remove_labels`: the index
  set) and the two operations whose result depends on CPython's `set` iteration order take that order as an input
  (`move_boundaries_to_front`: the enumeration of the boundary rows, `split_labels`: the enumeration of the labels);
* `sklearn.preprocessing.MinMaxScaler` is the per-dimension affine min–max map with sklearn's convention for a
  constant column (`_handle_zeros_in_scale`: data range 0 is replaced by 1, so the whole column is mapped to `lo`);
* exceptions are error kinds; an operation that raises after it has already modified the object returns the modified
  object together with the error;
* object identity (`concatenate` may return one of its operands; `_scaling_factor` objects are shared by reference
  between a data set and the sets derived from it but never modified in place; label arrays are private to each
  object) is mirrored by the `Pool` layer at the end.

Floating-point rounding is not modelled (exact rationals).
-/
namespace SparseSpace.DSM

abbrev Row := List Rat
/-- a sample and its label; labels are numbers (class labels 0,1,…, the marker -1 = unlabelled, but also regression
    targets and the fractional one-vs-others weights): rationals -/
abbrev Sample := Row × Rat

/-- `_scaling_range`: `(lo, hi)` after `scale_range`, `(min array, max array)` after `scale_factor`/`shift_value` -/
inductive Rng where
  | pair (lo hi : Rat)
  | arrs (mins maxs : List Rat)
deriving DecidableEq, Repr

/-- `_scaling_factor`: a Python float or an ndarray -/
inductive Fac where
  | scalar (q : Rat)
  | vec (v : List Rat)
deriving DecidableEq, Repr

/-- exception kinds: ValueError, IndexError, TypeError, ZeroDivisionError, AttributeError; `nonfinite`: the
    implementation would divide by a zero component of an ndarray factor (inf/nan, not modelled further) -/
inductive Err where
  | value | index | type | zerodiv | attr | nonfinite
deriving DecidableEq, Repr

structure DS where
  samples : List Sample
  dim : Nat
  flat : Bool
  shuffled : Bool
  scaled : Bool
  range : Option Rng
  factor : Option Fac
  /-- `_scaling_offset`: the additive part `B` of the per-dimension affine map `x ↦ F·x + B` applied so far -/
  offset : Option Fac
  omin : Option (List Rat)
  omax : Option (List Rat)
deriving DecidableEq, Repr

def DS.rows (s : DS) : List Row := s.samples.map (·.1)
def DS.labels (s : DS) : List Rat := s.samples.map (·.2)

/-- `DataSet.__init__` / `_initialize` on a (values, labels) tuple: size 0 → dim 0 and a 1-D empty array -/
def ctor (samples : List Sample) : DS :=
  match samples with
  | [] => { samples := [], dim := 0, flat := true, shuffled := false, scaled := false,
            range := none, factor := none, offset := none, omin := none, omax := none }
  | (r, _) :: _ => { samples := samples, dim := r.length, flat := false, shuffled := false, scaled := false,
                     range := none, factor := none, offset := none, omin := none, omax := none }

/-- the constructor's validation of external input: labels `< -1` raise ValueError -/
def ctorChecked (samples : List Sample) : Except Err DS :=
  if samples.any (fun p => p.2 < -1) then .error .value else .ok (ctor samples)

/-- `np.amin/np.amax(values, axis=0)` folded over the rows -/
def colFold (f : Rat → Rat → Rat) : Row → List Row → Row
  | acc, [] => acc
  | acc, r :: rs => colFold f (List.zipWith f acc r) rs

/-- `get_min_data` (`None` for an empty set) -/
def colMins : List Row → Option Row
  | [] => none
  | r :: rs => some (colFold min r rs)

/-- `get_max_data` -/
def colMaxs : List Row → Option Row
  | [] => none
  | r :: rs => some (colFold max r rs)

/-- `_update_internal`: copy the attributes of `p` onto the derived set `c` (`None.copy()` → AttributeError) -/
def updateInternal (p c : DS) : Except Err DS :=
  if p.scaled then
    match p.omin, p.omax with
    | some mn, some mx =>
      .ok { c with shuffled := p.shuffled, scaled := true, range := p.range, factor := p.factor, offset := p.offset,
                   omin := some mn, omax := some mx }
    | _, _ => .error .attr
  else
    .ok { c with shuffled := p.shuffled, scaled := false, range := p.range, factor := p.factor, offset := p.offset,
                 omin := p.omin, omax := p.omax }

/-! ## scaling -/

def Fac.mulRow : Fac → Row → Row
  | .scalar q, r => r.map (· * q)
  | .vec v, r => List.zipWith (· * ·) r v

def Fac.addRow : Fac → Row → Row
  | .scalar q, r => r.map (· + q)
  | .vec v, r => List.zipWith (· + ·) r v

/-- `f *= g` -/
def Fac.mul : Fac → Fac → Fac
  | .scalar a, .scalar b => .scalar (a * b)
  | .scalar a, .vec v => .vec (v.map (a * ·))
  | .vec v, .scalar b => .vec (v.map (· * b))
  | .vec v, .vec w => .vec (List.zipWith (· * ·) v w)

/-- `b + v` -/
def Fac.add : Fac → Fac → Fac
  | .scalar a, .scalar b => .scalar (a + b)
  | .scalar a, .vec v => .vec (v.map (a + ·))
  | .vec v, .scalar b => .vec (v.map (· + b))
  | .vec v, .vec w => .vec (List.zipWith (· + ·) v w)

/-- `-(b / f)` -/
def Fac.negDiv : Fac → Fac → Fac
  | .scalar b, .scalar f => .scalar (-(b / f))
  | .scalar b, .vec v => .vec (v.map (fun x => -(b / x)))
  | .vec w, .scalar f => .vec (w.map (fun x => -(x / f)))
  | .vec w, .vec v => .vec (List.zipWith (fun x y => -(x / y)) w v)

/-- an ndarray argument must have the data set's dimension (numpy broadcasting of length-1 arrays and onto
    1-dimensional data is outside the model) -/
def Fac.fits : Fac → Nat → Bool
  | .scalar _, _ => true
  | .vec v, d => v.length == d

/-- `1.0 / f` -/
def Fac.inv : Fac → Except Err Fac
  | .scalar q => if q = 0 then .error .zerodiv else .ok (.scalar (1 / q))
  | .vec v => if v.any (· == 0) then .error .nonfinite else .ok (.vec (v.map (1 / ·)))

/-- sklearn `_handle_zeros_in_scale` -/
def handleZero (r : Rat) : Rat := if r = 0 then 1 else r

/-- `MinMaxScaler.scale_` -/
def mmScale (lo hi : Rat) (mn mx : Row) : Row := List.zipWith (fun a b => (hi - lo) / handleZero (b - a)) mn mx

/-- `MinMaxScaler.min_` -/
def mmOff (lo : Rat) (mn scale : Row) : Row := List.zipWith (fun a sc => lo - a * sc) mn scale

/-- `MinMaxScaler.transform` of one row: `X *= scale_; X += min_` -/
def mmRow (scale off : Row) (r : Row) : Row := List.zipWith (· + ·) (List.zipWith (· * ·) r scale) off

/-- `scale_range(scaling_range=(lo,hi), override_scaling=ov)` -/
def scaleRange (s : DS) (lo hi : Rat) (ov : Bool) : DS × Option Err :=
  if ¬ (lo < hi) then (s, some .value) else
  match colMins s.rows, colMaxs s.rows with
  | some mn, some mx =>
    let scale := mmScale lo hi mn mx
    let off := mmOff lo mn scale
    let smp := s.samples.map fun p => (mmRow scale off p.1, p.2)
    if !s.scaled || ov then
      ({ s with samples := smp, scaled := true, range := some (.pair lo hi), factor := some (.vec scale),
                offset := some (.vec off), omin := some mn, omax := some mx }, none)
    else
      match s.factor with
      | some f =>
        match s.offset with
        | some b => ({ s with samples := smp, range := some (.pair lo hi), factor := some (f.mul (.vec scale)),
                              offset := some ((b.mul (.vec scale)).add (.vec off)) }, none)
        | none => ({ s with samples := smp, range := some (.pair lo hi), factor := some (f.mul (.vec scale)) }, some .type)
      | none => ({ s with samples := smp, range := some (.pair lo hi) }, some .type)
  | _, _ => (s, some .value)

/-- common body of `scale_factor` (`shift = false`, rows multiplied) and `shift_value` (`shift = true`, rows shifted) -/
def facShift (s : DS) (shift : Bool) (f : Fac) (ov : Bool) : DS × Option Err :=
  let act : Row → Row := if shift then f.addRow else f.mulRow
  if !s.scaled || ov then
    let s1 := { s with omin := colMins s.rows, omax := colMaxs s.rows }
    match s.samples with
    | [] => ({ s with flat := true }, some .value)   -- `np.amin` of the (already assigned) empty array raises
    | (r0, _) :: _ =>
      if !f.fits r0.length then (s, some .value) else
      let smp := s.samples.map fun p => (act p.1, p.2)
      let rws := smp.map (·.1)
      match colMins rws, colMaxs rws with
      | some mn, some mx =>
        ({ s1 with samples := smp, range := some (.arrs mn mx), factor := some (if shift then .scalar 1 else f),
                   offset := some (if shift then f else .scalar 0), scaled := true }, none)
      | _, _ => (s, some .value)
  else
    if !f.fits s.dim then (s, some .value) else
    match s.samples with
    | [] => ({ s with flat := true }, some .value)
    | _ :: _ =>
      let smp := s.samples.map fun p => (act p.1, p.2)
      let rws := smp.map (·.1)
      match colMins rws, colMaxs rws with
      | some mn, some mx =>
        let s2 := { s with samples := smp, range := some (.arrs mn mx) }
        if shift then
          match s.offset with
          | some b => ({ s2 with offset := some (b.add f) }, none)
          | none => (s2, some .type)
        else
        match s.factor with
        | some g =>
          match s.offset with
          | some b => ({ s2 with factor := some (g.mul f), offset := some (b.mul f) }, none)
          | none => ({ s2 with factor := some (g.mul f) }, some .type)
        | none => (s2, some .type)
      | _, _ => (s, some .value)

/-- `scale_factor(scaling_factor=f, override_scaling=ov)` -/
def scaleFactor (s : DS) (f : Fac) (ov : Bool) : DS × Option Err := facShift s false f ov

/-- `shift_value(shift_val=v, override_scaling=ov)` -/
def shiftValue (s : DS) (v : Fac) (ov : Bool) : DS × Option Err := facShift s true v ov

/-- first half of `revert_scaling`: `self.scale_factor(1.0 / self._scaling_factor, override_scaling=False)` -/
def revertStep1 (s : DS) : DS × Option Err :=
  match s.factor with
  | none => (s, some .type)
  | some f =>
    match f.inv with
    | .error e => (s, some e)
    | .ok fi => scaleFactor s fi false

/-- `revert_scaling`: `undo = -(offset / factor)`; divide by the factor; shift by `undo`; reset the attributes -/
def revert (s : DS) : DS × Option Err :=
  match s.factor with
  | none => (s, some .type)
  | some f =>
    match f.inv with
    | .error e => (s, some e)
    | .ok _ =>
      match s.offset with
      | none => (s, some .type)
      | some b =>
        match revertStep1 s with
        | (s1, some e) => (s1, some e)
        | (s1, none) =>
          match shiftValue s1 (b.negDiv f) false with
          | (s2, some e) => (s2, some e)
          | (s2, none) =>
            ({ s2 with scaled := false, range := none, factor := none, offset := none, omin := none, omax := none }, none)

/-! ## sample-moving operations -/

/-- `shuffle()`; `perm` is the permutation drawn by `sklearn.utils.shuffle` (new position ↦ old index) -/
def shuffle (s : DS) (perm : List Nat) : DS :=
  { s with samples := perm.filterMap (s.samples[·]?), shuffled := true, flat := s.flat || s.samples.isEmpty }

/-- `a[[i, x]] = a[[x, i]]` -/
def swapAt {α : Type} (l : List α) (i j : Nat) : List α :=
  if h : i < l.length ∧ j < l.length then (l.set i l[j]).set j l[i] else l

/-- the rows in which some component equals the column minimum or maximum (`np.where(values == min)[0]`) -/
def boundaryRows (s : DS) : List Nat :=
  match colMins s.rows, colMaxs s.rows with
  | some mn, some mx =>
    (List.range s.samples.length).filter fun i =>
      match s.samples[i]? with
      | some p => (List.zipWith (fun x m => x == m) p.1 mn).any id || (List.zipWith (fun x m => x == m) p.1 mx).any id
      | none => false
  | _, _ => []

/-- `move_boundaries_to_front()`; `order` is the order in which Python iterates the set of boundary row indices -/
def moveBoundaries (s : DS) (order : List Nat) : DS :=
  { s with samples := order.zipIdx.foldl (fun acc p => swapAt acc p.2 p.1) s.samples }

/-- `split_labels()`; `order` is the order of `list(set(labels))` -/
def splitLabels (s : DS) (order : List Rat) : Except Err (List DS) :=
  order.mapM fun j => updateInternal s (ctor (s.samples.filter (fun p => p.2 == j)))

/-- `split_without_labels()` → (labelless, labelfull) -/
def splitWithoutLabels (s : DS) : Except Err (DS × DS) :=
  match updateInternal s (ctor (s.samples.filter (fun p => p.2 == -1))),
        updateInternal s (ctor (s.samples.filter (fun p => p.2 ≥ 0))) with
  | .ok a, .ok b => .ok (a, b)
  | .error e, _ => .error e
  | _, .error e => .error e

/-- Python 3 `round` (half to even) -/
def roundHalfEven (q : Rat) : Int :=
  let f := q.floor
  let r := q - (f : Rat)
  if r < 1/2 then f else if 1/2 < r then f + 1 else if f % 2 == 0 then f else f + 1

/-- `percentage if 0 <= percentage < 1 else 1.0` -/
def clampPct (p : Rat) : Rat := if 0 ≤ p ∧ p < 1 then p else 1

/-- index at which `split_pieces(p)` cuts -/
def splitIndex (s : DS) (p : Rat) : Nat := (roundHalfEven ((s.samples.length : Rat) * clampPct p)).toNat

/-- `split_pieces(percentage)` -/
def splitPieces (s : DS) (p : Rat) : Except Err (DS × DS) :=
  let k := splitIndex s p
  match updateInternal s (ctor (s.samples.take k)), updateInternal s (ctor (s.samples.drop k)) with
  | .ok a, .ok b => .ok (a, b)
  | .error e, _ => .error e
  | _, .error e => .error e

/-- `all([x == y for x, y in zip(v, w)])` -/
def zipAllEq (v w : List Rat) : Bool := (List.zipWith (fun x y => x == y) v w).all id

/-- `same_scaling(to_check)` -/
def sameScaling (a b : DS) : Except Err Bool :=
  if a.scaled != b.scaled then .ok false
  else if !a.scaled then .ok true
  else
    let rng : Except Err (Option Bool) :=
      match a.range, b.range with
      | some (.pair l1 h1), some (.pair l2 h2) => .ok (some (l1 == l2 && h1 == h2))
      | some (.arrs m1 x1), some (.arrs m2 x2) => .ok (some (m1 == m2 && x1 == x2))  -- `np.array_equal` per entry
      | some (.pair _ _), some (.arrs _ _) => .ok none
      | some (.arrs _ _), some (.pair _ _) => .ok none
      | _, _ => .error .type
    match rng with
    | .error e => .error e
    | .ok none => .ok false
    | .ok (some rb) =>
      match a.factor, b.factor with
      | some (.vec v), some (.vec w) => .ok (rb && zipAllEq v w)
      | some (.scalar p), some (.scalar q) => .ok (rb && p == q)
      | none, none => .ok rb
      | _, _ => .ok false

/-- result of `concatenate`: the very object `self`, the very object `other_dataset`, or a new data set -/
inductive CRes where
  | retSelf
  | retOther
  | fresh (d : DS)
deriving DecidableEq, Repr

/-- `concatenate(other_dataset)` -/
def concatenateR (a b : DS) : Except Err CRes :=
  if b.samples.isEmpty then .ok .retSelf
  else if a.samples.isEmpty then .ok .retOther
  else if a.dim != b.dim then .error .value
  else if a.flat != b.flat then .error .value
  else
    match updateInternal a (ctor (a.samples ++ b.samples)) with
    | .error e => .error e
    | .ok c =>
      match sameScaling a c with
      | .error e => .error e
      | .ok true => .ok (.fresh c)
      | .ok false => .error .value

def CRes.get (a b : DS) : CRes → DS
  | .retSelf => a
  | .retOther => b
  | .fresh d => d

def concatenate (a b : DS) : Except Err DS := (concatenateR a b).map (CRes.get a b)

/-- `DataSet.list_concatenate(list)` -/
def listConcatenate : List DS → Except Err DS
  | [] => .ok (ctor [])
  | d :: ds => ds.foldlM concatenate d

/-- the single-sample sets built by `remove_samples` before anything is modified -/
def removedSingles (s : DS) (idx : List Int) : Except Err (List DS) :=
  idx.mapM fun i =>
    match s.samples[i.toNat]? with
    | none => .error .index
    | some p => updateInternal s (ctor [p])

/-- `np.delete(values, indices, axis=0)` -/
def deleteIdx (l : List Sample) (idx : List Int) : List Sample :=
  (List.range l.length).filterMap fun (j : Nat) => if idx.contains (Int.ofNat j) then none else l[j]?

/-- `list(dict.fromkeys(indices))`: duplicates dropped, first occurrences kept in order -/
def dedupFirst (idx : List Int) : List Int :=
  idx.foldl (fun acc x => if acc.contains x then acc else acc ++ [x]) []

/-- `remove_samples(indices)` → (self afterwards, returned data set or the exception) -/
def removeSamples (s : DS) (idx : List Int) : DS × Except Err DS :=
  if idx.any (fun i => i < 0 || i > (s.samples.length : Int)) then (s, .error .value) else
  let idx := dedupFirst idx
  if idx.isEmpty then (s, updateInternal s (ctor [])) else
  match removedSingles s idx with
  | .error e => (s, .error e)
  | .ok parts => ({ s with samples := deleteIdx s.samples idx }, listConcatenate parts)

/-- number of labels `remove_labels(p)` removes -/
def removeLabelsCount (s : DS) (p : Rat) : Nat :=
  (roundHalfEven ((((s.samples.filter (fun q => q.2 ≥ 0)).length : Nat) : Rat) * clampPct p)).toNat

/-- `remove_labels(percentage)`; `idx` = `random.sample(range(n_labelled), count)` -/
def removeLabels (s : DS) (idx : List Nat) : DS × Option Err :=
  match splitWithoutLabels s with
  | .error e => (s, some e)
  | .ok (ll, lf) =>
    let lfS : List Sample := lf.samples.zipIdx.map fun q => if idx.contains q.2 then (q.1.1, -1) else q.1
    let smp := if ll.samples.isEmpty then lfS else if lf.samples.isEmpty then ll.samples else lfS ++ ll.samples
    ({ s with samples := smp, flat := smp.isEmpty }, none)

/-! ## the pool of live objects: identity and sharing

`fcell` identifies the object held in `_scaling_factor` (relevant when it is an ndarray: `*=` modifies it in place),
`lcell`/`loff` identify the base label array and the offset of the set's labels in it (parts returned by
`split_pieces` hold views of the parent's label array; `move_boundaries_to_front` swaps in place). -/

structure Obj where
  ds : DS
  fcell : Nat
  lcell : Nat
  loff : Nat
  /-- identity of the value array (`copy()` and `DataSet(other.get_data())` share it with the source) -/
  vcell : Nat
deriving DecidableEq, Repr

structure Pool where
  objs : List Obj
  next : Nat
deriving DecidableEq, Repr

def Pool.empty : Pool := { objs := [], next := 0 }

def Pool.get? (P : Pool) (i : Nat) : Option Obj := P.objs[i]?

/-- add a new object with fresh label cell; factor cell given or fresh -/
def Pool.add (P : Pool) (d : DS) (fcell : Option Nat) (lab : Option (Nat × Nat)) : Pool :=
  let (fc, n1) := match fcell with | some c => (c, P.next) | none => (P.next, P.next + 1)
  let (lc, lo, n2) := match lab with | some (c, o) => (c, o, n1) | none => (n1, 0, n1 + 1)
  { objs := P.objs ++ [{ ds := d, fcell := fc, lcell := lc, loff := lo, vcell := n2 }], next := n2 + 1 }

/-- `objs[i].copy()`: same attributes, the very same value / label / factor objects -/
def Pool.copy (P : Pool) (i : Nat) : Pool × Except Err Nat :=
  match P.get? i with
  | none => (P, .error .index)
  | some o => ({ P with objs := P.objs ++ [o] }, .ok 1)

/-- `DataSet(objs[i].get_data())`: a fresh, attribute-less set built on the value and label arrays of object `i` -/
def Pool.rebuild (P : Pool) (i : Nat) : Pool × Except Err Nat :=
  match P.get? i with
  | none => (P, .error .index)
  | some o => ({ objs := P.objs ++ [{ o with ds := ctor o.ds.samples, fcell := P.next }], next := P.next + 1 }, .ok 1)

def isVec : Option Fac → Bool
  | some (.vec _) => true
  | _ => false

def Pool.setObj (P : Pool) (i : Nat) (o : Obj) : Pool := { P with objs := P.objs.set i o }

/-- the in-place operations on object `i` -/
inductive IOp where
  | scaleRange (lo hi : Rat) (ov : Bool)
  | scaleFactor (f : Fac) (ov : Bool)
  | shiftValue (v : Fac) (ov : Bool)
  | revert
  | shuffle (perm : List Nat)
  | moveBoundaries (order : List Nat)
  | removeLabels (idx : List Nat)
deriving Repr

/-- run an in-place operation on object `i`, with the sharing effects of the implementation -/
def Pool.inplace (P : Pool) (i : Nat) (op : IOp) : Pool × Option Err :=
  match P.get? i with
  | none => (P, some .index)
  | some o =>
    let s := o.ds
    match op with
    | .scaleRange lo hi ov =>
      let (s', e) := scaleRange s lo hi ov
      -- labels are copied into a new array whenever the data is assigned (both success paths and the TypeError path)
      let dataAssigned := e.isNone || e == some .type
      if !dataAssigned then (P.setObj i { o with ds := s' }, e) else
      let first := !s.scaled || ov
      if first || !isVec s.factor then
        -- `_scaling_factor` is bound to a new object
        let P1 := P.setObj i { ds := s', fcell := P.next, lcell := P.next + 1, loff := 0, vcell := P.next + 2 }
        ({ P1 with next := P.next + 3 }, e)
      else
        -- `self._scaling_factor = self._scaling_factor * scale_`: a new object, nobody else sees it
        let P1 := P.setObj i { ds := s', fcell := P.next, lcell := P.next + 1, loff := 0, vcell := P.next + 2 }
        ({ P1 with next := P.next + 3 }, e)
    | .scaleFactor f ov =>
      let (s', e) := scaleFactor s f ov
      if e.isSome then (P.setObj i { o with ds := s' }, e) else
      let first := !s.scaled || ov
      -- new value array, the label array object is kept
      if first || !isVec s.factor then
        let P1 := P.setObj i { o with ds := s', fcell := P.next, vcell := P.next + 1 }
        ({ P1 with next := P.next + 2 }, e)
      else
        let P1 := P.setObj i { o with ds := s', fcell := P.next, vcell := P.next + 1 }
        ({ P1 with next := P.next + 2 }, e)
    | .shiftValue v ov =>
      let (s', e) := shiftValue s v ov
      if e.isSome then (P.setObj i { o with ds := s' }, e) else
      let first := !s.scaled || ov
      if first then
        let P1 := P.setObj i { o with ds := s', fcell := P.next, vcell := P.next + 1 }
        ({ P1 with next := P.next + 2 }, e)
      else
        let P1 := P.setObj i { o with ds := s', vcell := P.next }
        ({ P1 with next := P.next + 1 }, e)
    | .revert =>
      let (s', e) := revert s
      -- a revert that gets past its first step has replaced the value array (the label array object is kept)
      let P1 := P.setObj i { o with ds := s', fcell := P.next, vcell := if e.isNone then P.next + 1 else o.vcell }
      ({ P1 with next := P.next + 2 }, e)
    | .shuffle perm =>
      let P1 := P.setObj i { o with ds := shuffle s perm, lcell := P.next, loff := 0, vcell := P.next + 1 }
      ({ P1 with next := P.next + 2 }, none)
    | .moveBoundaries order =>
      -- the swaps are done on copies of both arrays, which then replace the arrays of the object
      let P1 := P.setObj i { o with ds := moveBoundaries s order, lcell := P.next, loff := 0, vcell := P.next + 1 }
      ({ P1 with next := P.next + 2 }, none)
    | .removeLabels idx =>
      let (s', e) := removeLabels s idx
      if e.isSome then (P.setObj i { o with ds := s' }, e) else
      let P1 := P.setObj i { o with ds := s', lcell := P.next, loff := 0, vcell := P.next + 1 }
      ({ P1 with next := P.next + 2 }, none)

/-- add derived sets (sharing the parent's factor object, own label arrays) -/
def Pool.addDerived (P : Pool) (fcell : Nat) (ds : List DS) : Pool :=
  ds.foldl (fun Q d => Q.add d (some fcell) none) P

/-- `split_labels` on object `i`; the parts get the ids `P.objs.length, …` -/
def Pool.splitLabels (P : Pool) (i : Nat) (order : List Rat) : Pool × Except Err Nat :=
  match P.get? i with
  | none => (P, .error .index)
  | some o =>
    match DSM.splitLabels o.ds order with
    | .error e => (P, .error e)
    | .ok parts => (P.addDerived o.fcell parts, .ok parts.length)

def Pool.splitWithoutLabels (P : Pool) (i : Nat) : Pool × Except Err Nat :=
  match P.get? i with
  | none => (P, .error .index)
  | some o =>
    match DSM.splitWithoutLabels o.ds with
    | .error e => (P, .error e)
    | .ok (a, b) => (P.addDerived o.fcell [a, b], .ok 2)

/-- `split_pieces`: the parts hold copies of the label slices -/
def Pool.splitPieces (P : Pool) (i : Nat) (p : Rat) : Pool × Except Err Nat :=
  match P.get? i with
  | none => (P, .error .index)
  | some o =>
    match DSM.splitPieces o.ds p with
    | .error e => (P, .error e)
    | .ok (a, b) =>
      (((P.add a (some o.fcell) none).add b (some o.fcell) none), .ok 2)

/-- `remove_samples` on object `i`: once the checks have passed `self` gets new arrays (`np.delete`), the returned
    set is a new object holding the factor object of `self` -/
def Pool.removeSamples (P : Pool) (i : Nat) (idx : List Int) : Pool × Except Err Nat :=
  match P.get? i with
  | none => (P, .error .index)
  | some o =>
    match DSM.removeSamples o.ds idx with
    | (s', .error e) =>
      if s' == o.ds then (P, .error e)
      else ({ (P.setObj i { o with ds := s', lcell := P.next, loff := 0, vcell := P.next + 1 }) with next := P.next + 2 }, .error e)
    | (s', .ok d) =>
      -- no index at all: the code returns before `np.delete`, `self` keeps its arrays
      if (dedupFirst idx).isEmpty then (P.add d (some o.fcell) none, .ok 1) else
      let P1 : Pool := { (P.setObj i { o with ds := s', lcell := P.next, loff := 0, vcell := P.next + 1 }) with next := P.next + 2 }
      (P1.add d (some o.fcell) none, .ok 1)

/-- where the result of a concatenation lives: an existing object or a new one -/
inductive Where where
  | old (i : Nat)
  | new
deriving DecidableEq, Repr

/-- `objs[i].concatenate(objs[j])` -/
def Pool.concatenate (P : Pool) (i j : Nat) : Pool × Except Err Where :=
  match P.get? i, P.get? j with
  | some a, some b =>
    match concatenateR a.ds b.ds with
    | .error e => (P, .error e)
    | .ok .retSelf => (P, .ok (.old i))
    | .ok .retOther => (P, .ok (.old j))
    | .ok (.fresh d) => (P.add d (some a.fcell) none, .ok .new)
  | _, _ => (P, .error .index)

/-- `DataSet.list_concatenate([objs[i] for i in ids])`; intermediate results are not kept.  The accumulator is
    (value, the given object it still is, its factor object). -/
def Pool.listConcatenate (P : Pool) (ids : List Nat) : Pool × Except Err Where :=
  match ids with
  | [] => (P.add (ctor []) none none, .ok .new)
  | i :: rest =>
    match P.get? i with
    | none => (P, .error .index)
    | some a =>
      let step (acc : Except Err (DS × Option Nat × Nat)) (j : Nat) : Except Err (DS × Option Nat × Nat) :=
        match acc with
        | .error e => .error e
        | .ok (d, w, fc) =>
          match P.get? j with
          | none => .error .index
          | some b =>
            match concatenateR d b.ds with
            | .error e => .error e
            | .ok .retSelf => .ok (d, w, fc)
            | .ok .retOther => .ok (b.ds, some j, b.fcell)
            | .ok (.fresh c) => .ok (c, none, fc)
      match rest.foldl step (.ok (a.ds, some i, a.fcell)) with
      | .error e => (P, .error e)
      | .ok (_, some w, _) => (P, .ok (.old w))
      | .ok (d, none, fc) => (P.add d (some fc) none, .ok .new)

end SparseSpace.DSM
